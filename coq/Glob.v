(* Functional mirror of the directory walker of wcmatch/glob.py: Glob._iter, _glob_dir, _glob, _get_starting_paths,
   _format_path, _is_unique, _is_excluded, _pathlib_norm and Glob.glob (lines 548-863), Unix separators.
   The operating system (os.scandir / lexists), the compiled per-segment matchers and the exclusion matchers are
   parameters.  Generators become lists; recursion over the directory tree is on explicit fuel.  No proofs here. *)
From WC Require Import Str.
Open Scope N_scope.

Record entry := { e_name : str; e_dir : option bool (* DirEntry.is_dir(); None = it raised OSError *);
                  e_link : bool (* DirEntry.is_symlink() *) }.

Record part := { p_pat : str; p_id : N; p_magic : bool; p_gstar : bool; p_gstarlong : bool; p_dironly : bool;
                 p_drive : bool }.

Record gcfg := { g_dot : bool; g_follow : bool; g_cs : bool; g_mark : bool; g_nounique : bool; g_pathlib : bool;
                 g_has_excl : bool }.

Definition cDOTc : ch := 46.
Definition cSLc : ch := 47.

(* posixpath.join for two components *)
Definition pjoin (a b : str) : str :=
  match b with
  | 47 :: _ => b
  | _ => match a with
         | [] => b
         | _ => if ends_with [cSLc] a then a ++ b else a ++ [cSLc] ++ b
         end
  end.

Definition lower (s : str) : str := map lower_ascii s.     (* ASCII names only (harness restriction) *)

Inductive matcher := MNone | MLit (target : str) | MRx (id : N).

Section Walk.
  Variable scandir : str -> option (list entry).     (* argument: directory relative to the root ("" = root) or absolute *)
  Variable lexists : str -> bool.
  Variable segmatch : N -> str -> bool.
  Variable exclmatch : str -> bool.
  Variable cf : gcfg.

  Definition is_hidden (name : str) : bool :=
    negb (g_dot cf) && match name with c :: _ => c =? cDOTc | [] => false end.

  (* _iter: (name, is_dir, hidden, is_link); the two fake entries first *)
  Definition iter (curdir : str) (dir_only : bool) : list (str * bool * bool * bool) :=
    [([cDOTc], true, true, false); ([cDOTc; cDOTc], true, true, false)] ++
    match scandir curdir with
    | None => []
    | Some ents =>
        flat_map (fun e =>
          (* is_dir() raising OSError (e.g. ELOOP) counts as "not a directory" (lines 649-653) *)
          let d := match e_dir e with None => false | Some d => d end in
          if negb dir_only || d
          then [(e_name e, d, is_hidden (e_name e), if d then e_link e else false)] else []) ents
    end.

  Definition get_matcher (target : option part) : matcher :=
    match target with
    | None => MNone
    | Some p => if p_magic p then MRx (p_id p) else MLit (if g_cs cf then p_pat p else lower (p_pat p))
    end.
  Definition run_matcher (m : matcher) (file : str) : bool :=
    match m with
    | MNone => false
    | MLit t => if g_cs cf then str_eqb file t else str_eqb (lower file) t
    | MRx id => segmatch id file
    end.
  Definition is_special (f : str) : bool := str_eqb f [cDOTc] || str_eqb f [cDOTc; cDOTc].

  (* _glob_dir *)
  Fixpoint glob_dir (fuel : nat) (curdir : str) (m : matcher) (dir_only deep gfollow : bool) : option (list (str * bool)) :=
    match fuel with
    | O => None
    | S f =>
      (fix go (files : list (str * bool * bool * bool)) : option (list (str * bool)) :=
         match files with
         | [] => Some []
         | (file, is_dir, hidden, is_link) :: rest =>
           if is_special file then
             match go rest with
             | None => None
             | Some r => Some ((match m with MNone => [] | _ => if run_matcher m file then [(pjoin curdir file, true)] else [] end) ++ r)
             end
           else
             let path := pjoin curdir file in
             let here := match m with
                         | MNone => if negb hidden then [(path, is_dir)] else []
                         | _ => if run_matcher m file then [(path, is_dir)] else []
                         end in
             let follow := negb is_link || g_follow cf || gfollow in
             let sub := if deep && negb hidden && is_dir && follow
                        then glob_dir f path m dir_only deep gfollow else Some [] in
             match sub, go rest with
             | Some s, Some r => Some (here ++ s ++ r)
             | _, _ => None
             end
         end) (iter curdir dir_only)
    end.

  (* _glob: part = this part, rest = the following parts *)
  Fixpoint glob_parts (fuel : nat) (curdir : str) (p : part) (rest : list part) : option (list (str * bool)) :=
    match fuel with
    | O => None
    | S f =>
      let feed (this : option part) (rest' : list part) (hits : list (str * bool)) : option (list (str * bool)) :=
        match this with
        | None => Some hits
        | Some t =>
          (fix each (l : list (str * bool)) : option (list (str * bool)) :=
             match l with
             | [] => Some []
             | (path, _) :: l' =>
               match glob_parts f path t rest', each l' with
               | Some a, Some b => Some (a ++ b)
               | _, _ => None
               end
             end) hits
        end in
      if p_magic p && p_gstar p then
        let this1 := match rest with x :: _ => Some x | [] => None end in
        let rest1 := tl rest in
        let globstar_end := match this1 with None => true | Some _ => false end in
        let dir_only := match this1 with Some x => p_dironly x | None => p_dironly p end in
        let this2 := match rest1 with x :: _ => Some x | [] => None end in
        let rest2 := tl rest1 in
        let m := get_matcher this1 in
        let zero := if globstar_end && negb (match curdir with [] => true | _ => false end)
                    then [(pjoin curdir [], true)] else [] in
        match glob_dir f curdir m dir_only true (p_gstarlong p) with
        | None => None
        | Some hits =>
          match feed this2 rest2 hits with
          | None => None
          | Some r => Some (zero ++ r)
          end
        end
      else if negb (p_dironly p) then
        glob_dir f curdir (get_matcher (Some p)) false false false
      else
        let this1 := match rest with x :: _ => Some x | [] => None end in
        match glob_dir f curdir (get_matcher (Some p)) true false false with
        | None => None
        | Some hits => feed this1 (tl rest) hits
        end
    end.

  (* _pathlib_norm: drop `.` segments at the start or after a separator, then one trailing separator *)
  Fixpoint drop_dot_segments (fuel : nat) (at_start : bool) (s : str) : str :=
    match fuel with
    | O => s
    | S f =>
      match s with
      | [] => []
      | c :: r =>
        if at_start && (c =? cDOTc) then
          match r with
          | [] => []
          | d :: r' => if d =? cSLc then drop_dot_segments f true r' else c :: drop_dot_segments f false r
          end
        else c :: drop_dot_segments f (c =? cSLc) r
      end
    end.
  Definition pathlib_norm (p : str) : str :=
    let q := drop_dot_segments (S (length p)) true p in
    if (1 <? length q)%nat && ends_with [cSLc] q then removelast q else q.

  (* _format_path + _is_unique, threading the `seen` set *)
  Definition format_path (seen : list str) (nounique : bool) (path : str) (is_dir dir_only : bool) : list str * list str :=
    let path' := if dir_only || (g_mark cf && is_dir) then pjoin path [] else path in
    if nounique then ([path'], seen)
    else
      let key0 := if g_pathlib cf then pathlib_norm path' else path' in
      let key := if g_cs cf then key0 else lower key0 in
      if existsb (str_eqb key) seen then ([], seen) else ([path'], key :: seen).

  Definition is_excluded (path : str) (is_dir : bool) : bool :=
    g_has_excl cf && exclmatch (if is_dir && negb (ends_with [cSLc] path) then path ++ [cSLc] else path).

  Definition emit (seen : list str) (nounique : bool) (hits : list (str * bool)) (dir_only : bool) : list str * list str :=
    fold_left (fun acc h =>
                 let '(out, seen) := acc in
                 let '(path, is_dir) := h in
                 if is_excluded path is_dir then (out, seen)
                 else let '(o, seen') := format_path seen nounique path is_dir dir_only in (out ++ o, seen'))
              hits ([], seen).

  (* _get_starting_paths *)
  Definition starting_paths (is_abs : bool) (curdir : str) (dir_only : bool) : list (str * bool) :=
    if negb is_abs && negb (str_eqb curdir [cDOTc; cDOTc]) && negb (str_eqb curdir [cDOTc] || str_eqb curdir [cSLc]) then
      let m := MLit (if g_cs cf then curdir else lower curdir) in
      flat_map (fun x => let '(file, is_dir, _, _) := x in
                         if negb (is_special file) && run_matcher m file then [(file, is_dir)] else [])
               (iter [] dir_only)
    else [(curdir, true)].

  (* one pattern of Glob.glob *)
  Definition glob_one (fuel : nat) (seen : list str) (nounique : bool) (pattern : list part) : option (list str * list str) :=
    match pattern with
    | [] => Some ([], seen)
    | p0 :: rest0 =>
      let dir_only := match rev pattern with l :: _ => p_dironly l | [] => false end in
      let is_abs := p_drive p0 in
      if negb (p_magic p0) then
        let curdir := p_pat p0 in
        if match curdir with [] => true | _ => false end || (is_abs && negb (lexists curdir)) then Some ([], seen)
        else
          let results := starting_paths is_abs curdir (p_dironly p0) in
          if p_dironly p0 then
            (fix each (l : list (str * bool)) (acc : list str * list str) : option (list str * list str) :=
               match l with
               | [] => Some acc
               | (start, is_dir) :: l' =>
                 match rest0 with
                 | this :: rest1 =>
                   match glob_parts fuel start this rest1 with
                   | None => None
                   | Some hits =>
                     let '(o, s) := emit (snd acc) nounique hits dir_only in each l' (fst acc ++ o, s)
                   end
                 | [] =>
                   let '(o, s) := emit (snd acc) nounique [(start, is_dir)] dir_only in each l' (fst acc ++ o, s)
                 end
               end) results ([], seen)
          else
            Some (emit seen nounique (filter (fun x => lexists (fst x)) results) dir_only)
      else
        match glob_parts fuel [] p0 rest0 with
        | None => None
        | Some hits => Some (emit seen nounique hits dir_only)
        end
    end.

  (* Glob.glob: all patterns in order, one shared `seen` *)
  Definition glob_all (fuel : nat) (patterns : list (list part)) : option (list str) :=
    (fix go (ps : list (list part)) (seen : list str) : option (list str) :=
       match ps with
       | [] => Some []
       | p :: ps' =>
         match glob_one fuel seen (g_nounique cf) p with
         | None => None
         | Some (o, seen') => match go ps' seen' with Some r => Some (o ++ r) | None => None end
         end
       end) patterns [].
End Walk.
