
val negb : bool -> bool

type nat =
| O
| S of nat

type ('a, 'b) sum =
| Inl of 'a
| Inr of 'b

val fst : ('a1 * 'a2) -> 'a1

val length : 'a1 list -> nat

val app : 'a1 list -> 'a1 list -> 'a1 list

type comparison =
| Eq
| Lt
| Gt

val compOpp : comparison -> comparison

val pred : nat -> nat

val add : nat -> nat -> nat

val mul : nat -> nat -> nat

type positive =
| XI of positive
| XO of positive
| XH

type n =
| N0
| Npos of positive

type z =
| Z0
| Zpos of positive
| Zneg of positive

module Pos :
 sig
  val succ : positive -> positive

  val add : positive -> positive -> positive

  val add_carry : positive -> positive -> positive

  val pred_double : positive -> positive

  val pred_N : positive -> n

  val mul : positive -> positive -> positive

  val compare_cont : comparison -> positive -> positive -> comparison

  val compare : positive -> positive -> comparison

  val eqb : positive -> positive -> bool

  val coq_Nsucc_double : n -> n

  val coq_Ndouble : n -> n

  val coq_lor : positive -> positive -> positive

  val coq_land : positive -> positive -> n

  val ldiff : positive -> positive -> n

  val of_succ_nat : nat -> positive
 end

module N :
 sig
  val succ_pos : n -> positive

  val add : n -> n -> n

  val mul : n -> n -> n

  val compare : n -> n -> comparison

  val eqb : n -> n -> bool

  val ltb : n -> n -> bool

  val coq_lor : n -> n -> n

  val ldiff : n -> n -> n
 end

val rev : 'a1 list -> 'a1 list

val concat : 'a1 list list -> 'a1 list

val map : ('a1 -> 'a2) -> 'a1 list -> 'a2 list

val flat_map : ('a1 -> 'a2 list) -> 'a1 list -> 'a2 list

val existsb : ('a1 -> bool) -> 'a1 list -> bool

type ascii =
| Ascii of bool * bool * bool * bool * bool * bool * bool * bool

val n_of_digits : bool list -> n

val n_of_ascii : ascii -> n

module Z :
 sig
  val double : z -> z

  val succ_double : z -> z

  val pred_double : z -> z

  val pos_sub : positive -> positive -> z

  val add : z -> z -> z

  val opp : z -> z

  val sub : z -> z -> z

  val mul : z -> z -> z

  val compare : z -> z -> comparison

  val leb : z -> z -> bool

  val ltb : z -> z -> bool

  val eqb : z -> z -> bool

  val of_nat : nat -> z

  val of_N : n -> z

  val pos_div_eucl : positive -> z -> z * z

  val div_eucl : z -> z -> z * z

  val modulo : z -> z -> z

  val coq_land : z -> z -> z
 end

type string =
| EmptyString
| String of ascii * string

val list_ascii_of_string : string -> ascii list

type ch = n

type str = n list

val s_ : string -> str

val str_eqb : str -> str -> bool

val ch_in : ch -> str -> bool

val starts_with : str -> str -> bool

val drop : nat -> str -> str

val replace_go : str -> str -> nat -> str -> str

val replace_all : str -> str -> str -> str

val format_go : nat -> str -> str -> str -> str

val format : str -> str -> str -> str

module Mwcparse :
 sig
  val coq_PATHNAME : z

  val coq_DOTMATCH : z

  val coq_EXTMATCH : z

  val coq_GLOBSTAR : z

  val coq_REALPATH : z

  val coq_FOLLOW : z

  val coq_MATCHBASE : z

  val coq_NODOTDIR : z

  val coq_GLOBSTARLONG : z

  val u_TRANSLATE : z

  val u_ANCHOR : z

  val u_EXTMATCHBASE : z

  val u_NOABSOLUTE : z

  val u_NO_GLOBSTAR_CAPTURE : z
 end

module Frag :
 sig
  val u_QMARK : n list

  val u_STAR : n list

  val u_PATH_TRAIL : n list

  val u_NO_DIR : n list

  val u_PATH_STAR : n list

  val u_PATH_STAR_DOTMATCH : n list

  val u_PATH_STAR_NO_DOTMATCH : n list

  val u_PATH_GSTAR_DOTMATCH : n list

  val u_PATH_GSTAR_NO_DOTMATCH : n list

  val u_NO_DOT : n list

  val u_PATH_NO_SLASH_DOT : n list

  val u_PATH_NO_SLASH : n list

  val u_ONE_OR_MORE : n list

  val u_EOP : n list

  val u_PATH_EOP : n list

  val u_GLOBSTAR_DIV : n list

  val u_NEED_CHAR_PATH : n list

  val u_NEED_CHAR : n list

  val u_NEED_SEP : n list

  val u_QMARK_GROUP : n list

  val u_QMARK_CAPTURE_GROUP : n list

  val u_STAR_GROUP : n list

  val u_STAR_CAPTURE_GROUP : n list

  val u_PLUS_GROUP : n list

  val u_PLUS_CAPTURE_GROUP : n list

  val u_GROUP : n list

  val u_CAPTURE_GROUP : n list

  val u_EXCLA_GROUP : n list

  val u_EXCLA_CAPTURE_GROUP : n list

  val u_EXCLA_GROUP_CLOSE : n list

  val u_NO_ROOT : n list

  val coq_UNICODE_RANGE : n list

  val coq_ASCII_RANGE : n list
 end

module Sets :
 sig
  val coq_SET_OPERATORS : n list

  val coq_EXT_TYPES : n list
 end

val table_u : (((string * bool) * n list) * (n * n) list) list

val table_a : (((string * bool) * n list) * (n * n) list) list

type platform = { plat_windows : bool; os_nt : bool; fs_case_sensitive : bool }

val is_case_sensitive : platform -> z -> bool

val get_case : platform -> z -> bool

val is_unix_style : platform -> z -> bool

val linux : platform

val has : z -> z -> bool

val re_special : str

val re_escape_ch : ch -> str

val re_escape : str -> str

type cfg = { c_flags : z; c_bytes : bool; c_noabs : bool; c_pathname : 
             bool; c_globstarlong : bool; c_follow : bool; c_realpath : 
             bool; c_capture : bool; c_gcapture : bool; c_dot : bool;
             c_extend : bool; c_anchor : bool; c_nodotdir : bool;
             c_cs : bool; c_unix : bool; c_windrive : bool;
             c_bslash_abort : bool; c_bare_sep : str; c_sep : str;
             c_path_eop : str; c_no_dir : str; c_seq_path : str;
             c_seq_path_dot : str; c_path_star : str; c_path_star_dot1 : 
             str; c_path_star_dot2 : str; c_path_gstar_dot1 : str;
             c_path_gstar_dot2 : str; c_need_char : str }

type pst = { after_start : bool; dir_start : bool; in_list : bool;
             inv_nest : bool; inv_ext : z; matchbase : bool;
             extmatchbase : bool; globstar : bool; match_dot_dir : bool }

val mk_cfg : platform -> z -> bool -> cfg * pst

val upd_dir : pst -> bool -> bool -> pst

val set_after_start : pst -> pst

val set_start_dir : pst -> pst

val reset_dir_track : pst -> pst

val update_dir_state : pst -> pst

val set_matchbase : pst -> bool -> pst

val set_extmatchbase : pst -> bool -> pst

val set_globstar : pst -> bool -> pst

val set_lists : pst -> bool -> bool -> pst

val set_inv_ext : pst -> z -> pst

val set_mdd : pst -> bool -> pst

type iter = { idx : z; rest : str }

val next : iter -> (ch * iter) option

type item =
| T of str
| H of str

val itext : item -> str

val jrev : item list -> str

type 'a res =
| Ok of 'a
| Stop
| Fuel

val cBS : ch

val cSL : ch

val cDOT : ch

val cSTAR : ch

val cQM : ch

val cLB : ch

val cRB : ch

val cLP : ch

val cRP : ch

val cBAR : ch

val cEX : ch

val cHAT : ch

val cMINUS : ch

val cPLUS : ch

val cAT : ch

val restrict_extended_slash : cfg -> str

val restrict_sequence : cfg -> pst -> str * pst

type refres =
| RVal of str * pst * iter
| RStop
| RDot of iter
| RPath

val references : cfg -> pst -> iter -> bool -> refres

val posix_table : bool -> (((string * bool) * n list) * (n * n) list) list

val posix_find :
  (((string * bool) * n list) * (n * n) list) list -> str -> (str * nat)
  option

val posix_match : cfg -> iter -> (str * iter) option

val ord_of : str -> n

val range_check : str list -> str -> str list * bool

val handle_posix : cfg -> iter -> str list -> z -> (str list * iter) * bool

val set_operators : str

val seq_loop :
  nat -> cfg -> pst -> ch -> iter -> str list -> z -> z -> bool -> bool ->
  ((str list * iter) * bool) res

val sequence : cfg -> pst -> iter -> ((str * pst) * iter) res

val dot_scan : nat -> cfg -> pst -> iter -> bool -> bool -> bool * bool

val handle_dot : cfg -> pst -> iter -> str

val skip_slashes : str -> z -> iter

val win_seps2 : nat -> ch -> z -> iter -> iter -> iter -> iter

val consume_path_sep : cfg -> iter -> iter

val skip_stars : str -> z -> iter

val handle_star : cfg -> pst -> iter -> item list -> (pst * iter) * item list

val cui_go : cfg -> bool -> item list -> str -> item list * str

val clean_up_inverse : cfg -> pst -> item list -> bool -> pst * item list

val ext_types : str

val group_text : cfg -> ch -> str -> str

val ext :
  nat -> cfg -> pst -> ch -> iter -> item list -> bool ->
  (((bool * pst) * iter) * item list) res

val ext_loop :
  nat -> cfg -> pst -> iter -> item list -> bool -> bool ->
  (((pst * iter) * item list option) * pst) res

type perr =
| EValue
| EFuel
| EUnsupported

val root_loop :
  nat -> cfg -> pst -> iter -> item list -> (pst * item list) res

val fuel_for : str -> nat

val root : cfg -> pst -> str -> item list -> ((pst * item list) res, perr) sum

val strip_slashes : str -> str * bool

val wcparse_cf : cfg -> pst -> str -> (str, perr) sum

val wcparse : platform -> z -> bool -> str -> (str, perr) sum
