(* C01 - file-name matching follows the documented wildcard language.
   Statements only; each closed by [exact] and followed by Print Assumptions. *)
From WC Require Import Str Spec.
From WC.Gen Require Import Posix.
From WC.Proofs Require Import PosixLemmas.
(* the committed snapshot of the regex source texts (RE_POSIX) the class scanner of the parser model was written for; a changed text breaks this import *)
From WC.Proofs Require Pinned_wcparse_posix.
Open Scope N_scope.

(* bracket expressions: every POSIX class row the parser consults in posix.py (regenerated on each run) is the
   documented C-locale class, on every code point (no bound) *)
Theorem C01_posix_classes : forall name txt rs,
  In (name, false, txt, rs) table_u \/ In (name, false, txt, rs) table_a -> rs = posix_doc (S_ name).
Proof. exact posix_rows_documented. Qed.
Print Assumptions C01_posix_classes.

Theorem C01_posix_all_names_present :
  forallb (has_row table_u) names14 = true /\ forallb (has_row table_a) names14 = true.
Proof. exact all_names_present. Qed.
Print Assumptions C01_posix_all_names_present.

(* the `^name` rows are the exact complements within the code space of str resp. bytes *)
Theorem C01_posix_complements_str : forall name txt rs c,
  In (name, true, txt, rs) table_u -> c < 1114112 -> in_ranges c rs = negb (in_ranges c (posix_doc (S_ name))).
Proof. exact posix_neg_rows_u. Qed.
Print Assumptions C01_posix_complements_str.

Theorem C01_posix_complements_bytes : forall name txt rs c,
  In (name, true, txt, rs) table_a -> c < 256 -> in_ranges c rs = negb (in_ranges c (posix_doc (S_ name))).
Proof. exact posix_neg_rows_a. Qed.
Print Assumptions C01_posix_complements_bytes.

(* ---- the flat fragment (literals, escaped characters, `?`, `*`, simple brackets `[abc]`/`[!abc]`), end to end ------------------------------------------
   For every well-formed token list, every flag word of fnmatch mode under Unix rules (DOTMATCH on or off, any case
   flags) and str/bytes: the text the parser model produces is the printed form of a regular expression [rs], and under
   the formal semantics of that regex fragment (C01Flat.M / Mseq: concatenation, lazy star, DOTALL dot, one-character
   classes, negative/positive look-ahead) [rs] fully matches a name exactly when the documented meaning
   (C01Flat.Den) holds: `?` = any one character, `[..]` = one member (`[!..]` = one non-member) of the set, `*` = any run of
   characters, except that a leading `.` of the name
   is matched by a written `.` only (unless DOTMATCH) and a pattern starting with `*` needs a non-empty name. *)
From WC Require WcParse.
From WC.Gen Require Consts FlagFuns.
From WC.Proofs Require C01Flat.

Theorem C01_flat_language : forall flags isb ts,
  C01Flat.wf ts = true ->
  WcParse.has flags Consts.Mwcparse.PATHNAME = false -> FlagFuns.is_unix_style WcParse.linux flags = true ->
  WcParse.has flags Consts.Mwcparse.EXTMATCH = false ->
  WcParse.has flags Consts.Mwcparse.u_ANCHOR = false -> WcParse.has flags Consts.Mwcparse.MATCHBASE = false ->
  WcParse.has flags Consts.Mwcparse.u_EXTMATCHBASE = false -> WcParse.has flags Consts.Mwcparse.u_TRANSLATE = false ->
  exists rs,
    WcParse.wcparse WcParse.linux flags isb (C01Flat.unparse ts) =
      inl (S_ "^(?s" ++ (if FlagFuns.get_case WcParse.linux flags then [] else S_ "i") ++ S_ ":" ++ C01Flat.print rs ++ S_ ")$") /\
    forall n, C01Flat.Mseq rs n [] <-> C01Flat.Den (WcParse.has flags Consts.Mwcparse.DOTMATCH) true ts n.
Proof. exact C01Flat.C01_flat_language. Qed.
Print Assumptions C01_flat_language.

(* ... and for EVERY fnmatch flag word, EXTMATCH included (`Proofs/C01Ext.v`): a failed group attempt - the character after
   `? * + @ !` is not `(` - leaves no trace in the text; [wfx] asks for exactly that *)
From WC.Proofs Require C01Ext.
Theorem C01_flat_language_any_flags : forall flags isb ts,
  C01Flat.wf ts = true -> C01Ext.wfx ts = true ->
  WcParse.has flags Consts.Mwcparse.PATHNAME = false -> FlagFuns.is_unix_style WcParse.linux flags = true ->
  WcParse.has flags Consts.Mwcparse.u_ANCHOR = false -> WcParse.has flags Consts.Mwcparse.MATCHBASE = false -> WcParse.has flags Consts.Mwcparse.u_EXTMATCHBASE = false ->
  WcParse.has flags Consts.Mwcparse.u_TRANSLATE = false ->
  exists rs,
    WcParse.wcparse WcParse.linux flags isb (C01Flat.unparse ts) =
      inl (S_ "^(?s" ++ (if FlagFuns.get_case WcParse.linux flags then [] else S_ "i") ++ S_ ":" ++ C01Flat.print rs ++ S_ ")$") /\
    forall n, C01Flat.Mseq rs n [] <-> C01Flat.Den (WcParse.has flags Consts.Mwcparse.DOTMATCH) true ts n.
Proof. exact C01Ext.C01_flat_language_any_flags. Qed.
Print Assumptions C01_flat_language_any_flags.

(* ---- extended groups of literal alternatives, end to end ------------------------------------------------------------------
   A pattern made of chunks - flat runs (as above) and groups `?(a|bc)`, `*(…)`, `+(…)`, `@(…)` whose alternatives are
   literal texts over characters that are not special anywhere - under EXTMATCH: the parser model prints
   `(?:a|bc)?`, `(?:…)*`, `(?:…)+`, `(?:…)` for the groups, and the whole regex matches a name exactly when the name
   splits into one part per chunk, a flat run meaning what it means above (its look-aheads see the text matched by the
   later chunks), `@` one alternative, `?` none or one, `*` any concatenation, `+` at least one (C01Ext.DenC). *)
Theorem C01_ext_language : forall flags isb cs,
  C01Ext.cwf cs = true ->
  WcParse.has flags Consts.Mwcparse.PATHNAME = false -> FlagFuns.is_unix_style WcParse.linux flags = true ->
  WcParse.has flags Consts.Mwcparse.EXTMATCH = true ->
  WcParse.has flags Consts.Mwcparse.u_ANCHOR = false -> WcParse.has flags Consts.Mwcparse.MATCHBASE = false ->
  WcParse.has flags Consts.Mwcparse.u_EXTMATCHBASE = false -> WcParse.has flags Consts.Mwcparse.u_TRANSLATE = false ->
  exists xs,
    WcParse.wcparse WcParse.linux flags isb (C01Ext.unparse_cs cs) =
      inl (S_ "^(?s" ++ (if FlagFuns.get_case WcParse.linux flags then [] else S_ "i") ++ S_ ":" ++ C01Ext.printx xs ++ S_ ")$") /\
    forall n, C01Ext.Mseqx xs n [] <-> C01Ext.DenC (WcParse.has flags Consts.Mwcparse.DOTMATCH) true cs n.
Proof. exact C01Ext.C01_ext_language. Qed.
Print Assumptions C01_ext_language.
