(* C01 - file-name matching follows the documented wildcard language.
   Statements only; each closed by [exact] and followed by Print Assumptions. *)
From WC Require Import Str Spec.
From WC.Gen Require Import Posix.
From WC.Proofs Require Import PosixLemmas.
Open Scope N_scope.

(* bracket expressions: every POSIX class row the parser consults in posix.py (regenerated on each run) is the
   documented C-locale class, on every code point (no bound) *)
Theorem C01_posix_classes : forall name txt rs,
  In (name, false, txt, rs) table_u \/ In (name, false, txt, rs) table_a -> rs = posix_doc (S_ name).
Proof. exact posix_rows_documented. Qed.
Print Assumptions C01_posix_classes.

Theorem C01_posix_all_names_present :
  forallb (has_row table_u) names14 = true /\ forallb (has_row table_a) names14 = true.
Proof. exact all_names_present. Qed.
Print Assumptions C01_posix_all_names_present.

(* the `^name` rows are the exact complements within the code space of str resp. bytes *)
Theorem C01_posix_complements_str : forall name txt rs c,
  In (name, true, txt, rs) table_u -> c < 1114112 -> in_ranges c rs = negb (in_ranges c (posix_doc (S_ name))).
Proof. exact posix_neg_rows_u. Qed.
Print Assumptions C01_posix_complements_str.

Theorem C01_posix_complements_bytes : forall name txt rs c,
  In (name, true, txt, rs) table_a -> c < 256 -> in_ranges c rs = negb (in_ranges c (posix_doc (S_ name))).
Proof. exact posix_neg_rows_a. Qed.
Print Assumptions C01_posix_complements_bytes.
