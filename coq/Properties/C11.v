(* C11 - The pattern limit bounds expansion work in every API, default 1000.
   This file contains only statements closed by [exact], each followed by Print Assumptions. *)
From WC Require Import Str WcParse WcSplit Expand.
From WC.Gen Require Import Consts FlagFuns.
From WC.Proofs Require Import ExpandLemmas C11Defaults.
Import Mwcparse.
Open Scope Z_scope.

(* every `limit=` default found in /repo/wcmatch/*.py (regenerated on every run) is PATTERN_LIMIT = 1000 *)
Theorem C11_defaults :
  PATTERN_LIMIT = 1000 /\ Forall (fun e => snd e = PATTERN_LIMIT) Limits.limit_defaults
  /\ (20 <= length Limits.limit_defaults)%nat.
Proof. exact defaults_ok. Qed.
Print Assumptions C11_defaults.

(* limit = 0 disables the check: for every oracle that does not itself refuse limit 0, every parser,
   every flag set and every pattern list, the loop never raises the limit error *)
Theorem C11_zero : forall P brace tilde norm parse fl pm u pats st,
  (forall p, brace p 0 <> None) ->
  pats_loop P brace tilde norm parse fl 0 pm u pats 0 st <> inr LLimit.
Proof. exact loop_zero. Qed.
Print Assumptions C11_zero.

(* raise direction: a normal return under L > 0 means that the patterns compiled -- the exclusion patterns the
   loop started from (`exclude=`, at most L of them: they went through the same loop) together with the newly
   compiled inclusion and inline exclusion patterns -- number at most L.  Holds for every oracle, parser, flags. *)
Theorem C11_raise : forall P brace tilde norm parse fl limit pm u pats cl neg0 st',
  0 < limit ->
  pats_loop P brace tilde norm parse fl limit pm u pats cl
            {| l_total := Z.of_nat (length neg0); l_seen := []; l_pos := []; l_neg := neg0 |} = inl st' ->
  Z.of_nat (length neg0) <= limit ->
  Z.of_nat (length (l_pos st') + length (l_neg st')) <= limit.
Proof. exact loop_bound. Qed.
Print Assumptions C11_raise.

(* pass direction: a call whose total expansion count - duplicates included, the exclusion patterns already compiled
   included - is at most L > 0 never raises the limit error.  For every parser, flag word and pattern list, and every
   brace oracle that honours bracex's contract (asked for at most lim > 0 expansions it returns the full expansion
   whenever that is not longer than lim; the harness re-observes this on the real bracex on every run).  [total_items]
   counts the pieces of every brace expansion after SPLIT; a pattern that does not normalise ends the call with a
   syntax error, so what follows it does not count. *)
Theorem C11_pass : forall P brace tilde norm parse full,
  (forall p lim, 0 < lim -> Z.of_nat (length (full p)) <= lim -> brace p lim = Some (full p)) ->
  forall tr is_bytes flags limit pats negative0,
  0 < limit ->
  Z.of_nat (length negative0)
    + total_items P tilde norm full (core_flags tr flags) (is_unix_style P (core_flags tr flags)) pats <= limit ->
  list_core P brace tilde norm parse tr is_bytes flags limit pats negative0 <> inr LLimit.
Proof. exact list_core_pass. Qed.
Print Assumptions C11_pass.

Example C11_pass_premises_hold :
  Z.of_nat (length [S_ "x"; S_ "y"]) +
  total_items linux (fun _ p => p) (fun _ _ p => Some p) w_full (core_flags true BRACE)
              (is_unix_style linux (core_flags true BRACE)) [S_ "{1..10}"] <= 12
  /\ list_core linux w_brace (fun _ p => p) (fun _ _ p => Some p) (fun _ p => inl p) true false BRACE 12
               [S_ "{1..10}"] [S_ "x"; S_ "y"] <> inr LLimit.
Proof. exact pass_premise_example. Qed.

(* the `exclude=` witness that defeated the limit before the fix: commits (limit=3, three exclusions) now raises *)
Example C11_exclude_budget_fixed :
  pattern_lists linux w_brace (fun _ p => p) (fun _ _ p => Some p) (fun _ p => inl p) true false BRACE 3
                [S_ "{1..10}"] (Some [S_ "x"; S_ "y"; S_ "z"]) = inr LLimit.
Proof. exact exclude_budget_fixed. Qed.
Print Assumptions C11_exclude_budget_fixed.
