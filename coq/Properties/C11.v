(* C11 - The pattern limit bounds expansion work in every API, default 1000.
   This file contains only statements closed by [exact], each followed by Print Assumptions. *)
From WC Require Import Str WcParse WcSplit Expand.
From WC.Gen Require Import Consts FlagFuns.
From WC.Proofs Require Import ExpandLemmas C11Defaults.
Import Mwcparse.
Open Scope Z_scope.

(* every `limit=` default found in /repo/wcmatch/*.py (regenerated on every run) is PATTERN_LIMIT = 1000 *)
Theorem C11_defaults :
  PATTERN_LIMIT = 1000 /\ Forall (fun e => snd e = PATTERN_LIMIT) Limits.limit_defaults
  /\ (20 <= length Limits.limit_defaults)%nat.
Proof. exact defaults_ok. Qed.
Print Assumptions C11_defaults.

(* limit = 0 disables the check: for every oracle that does not itself refuse limit 0, every parser,
   every flag set and every pattern list, the loop never raises the limit error *)
Theorem C11_zero : forall P brace tilde norm parse fl pm u pats st,
  (forall p, brace p 0 <> None) ->
  pats_loop P brace tilde norm parse fl 0 pm u pats 0 st <> inr LLimit.
Proof. exact loop_zero. Qed.
Print Assumptions C11_zero.

(* raise direction: a normal return under L > 0 means that the patterns compiled -- the exclusion patterns the
   loop started from (`exclude=`, at most L of them: they went through the same loop) together with the newly
   compiled inclusion and inline exclusion patterns -- number at most L.  Holds for every oracle, parser, flags. *)
Theorem C11_raise : forall P brace tilde norm parse fl limit pm u pats cl neg0 st',
  0 < limit ->
  pats_loop P brace tilde norm parse fl limit pm u pats cl
            {| l_total := Z.of_nat (length neg0); l_seen := []; l_pos := []; l_neg := neg0 |} = inl st' ->
  Z.of_nat (length neg0) <= limit ->
  Z.of_nat (length (l_pos st') + length (l_neg st')) <= limit.
Proof. exact loop_bound. Qed.
Print Assumptions C11_raise.

(* the `exclude=` witness that defeated the limit before the fix: commits (limit=3, three exclusions) now raises *)
Example C11_exclude_budget_fixed :
  pattern_lists linux w_brace (fun _ p => p) (fun _ _ p => Some p) (fun _ p => inl p) true false BRACE 3
                [S_ "{1..10}"] (Some [S_ "x"; S_ "y"; S_ "z"]) = inr LLimit.
Proof. exact exclude_budget_fixed. Qed.
Print Assumptions C11_exclude_budget_fixed.
