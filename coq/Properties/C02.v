(* C02 - path matching respects separators, segments, globstar and MATCHBASE.
   Statements only. *)
From WC Require Import Str Spec WcParse.
From WC.Gen Require Import Consts.
From WC.Proofs Require Import SpecLemmas.
(* the committed snapshot of the regex source texts (RE_NO_DIR, RE_WIN_NO_DIR) the NODIR filter of the list model stands for; a changed text breaks this import *)
From WC.Proofs Require Pinned_wcparse_nodir.

(* sanity of the executable spec (non-vacuity): the examples of the property text *)
Example C02_star_not_empty_segment :
  pden false false false true false false
       {| p_root := false; p_segs := [SPat [PLit 97%N]; SPat [PStar]; SPat [PLit 99%N]]; p_trail := false |}
       (S_ "a/c") = false
  /\ pden false false false true false false
       {| p_root := false; p_segs := [SPat [PLit 97%N]; SPat [PStar]; SPat [PLit 99%N]]; p_trail := false |}
       (S_ "a//b///c//") = true.
Proof. exact spec_example_star_segment. Qed.
Print Assumptions C02_star_not_empty_segment.

(* nothing but a written separator or `**` matches `/`: in the spec a wildcard class never contains the
   separator in path mode -- for EVERY bracket expression, case mode and character *)
Theorem C02_spec_wildcards_never_match_sep : forall ci neg items,
  rx_match ci (den_pat false true (PBr neg items)) [47%N] = false
  /\ rx_match ci (den_pat false true PQm) [47%N] = false.
Proof. exact spec_wild_no_sep. Qed.
Print Assumptions C02_spec_wildcards_never_match_sep.

(* ---- flat path patterns, end to end ------------------------------------------------------------------------------------
   Segments of literals, escaped characters, `?`, single `*` and simple brackets `[abc]`/`[!abc]`, joined by `/` (relative, no `**`), path mode under Unix
   rules without NODOTDIR/REALPATH/MATCHBASE/EXTMATCH, GLOBSTAR and DOTMATCH on or off, str/bytes.  The parser model's text is
   the printed form of a regular expression [r]; under the formal semantics C02Path.X of that regex fragment, [r] fully
   matches a name without line feeds exactly when the name splits into one separator-free piece per pattern segment,
   the pieces separated by non-empty runs of `/` and followed by any run of `/`, and each piece matches its segment
   (C02Path.DenSeg).  In particular neither `?`, `*` nor a bracket - not even a negated one - ever matches the separator. *)
From WC Require FlagFuns.
From WC.Proofs Require C01Flat C02Path.

Theorem C02_flat_path_language : forall flags isb segs,
  segs <> [] -> Forall (fun sg => C02Path.seg_wf sg = true) segs ->
  has flags Mwcparse.PATHNAME = true -> FlagFuns.is_unix_style linux flags = true -> has flags Mwcparse.EXTMATCH = false ->
  has flags Mwcparse.NODOTDIR = false -> has flags Mwcparse.REALPATH = false ->
  has flags Mwcparse.u_ANCHOR = false -> has flags Mwcparse.MATCHBASE = false ->
  has flags Mwcparse.u_EXTMATCHBASE = false -> has flags Mwcparse.u_TRANSLATE = false ->
  exists r,
    wcparse linux flags isb (C02Path.punparse segs) =
      inl (S_ "^(?s" ++ (if FlagFuns.get_case linux flags then [] else S_ "i") ++ S_ ":" ++ C02Path.xprint r ++ S_ ")$") /\
    forall n, C02Path.nonl n -> (C02Path.X r n [] <-> C02Path.DenPath (has flags Mwcparse.DOTMATCH) segs n).
Proof. exact C02Path.C02_flat_path_language. Qed.
Print Assumptions C02_flat_path_language.

Theorem C02_wildcards_never_match_separator : forall dot segs n,
  segs <> [] -> Forall (fun sg => C02Path.pwf sg = true) segs -> C02Path.nonl n ->
  C02Path.X (C02Path.emit_path dot segs) n [] ->
  exists pieces, length pieces = length segs /\ Forall (fun p => ~ In 47%N p) pieces /\
                 Forall2 (C02Path.DenSeg dot true) segs pieces.
Proof. exact C02Path.wildcards_never_match_separator. Qed.
Print Assumptions C02_wildcards_never_match_separator.

(* runs of separators in the pattern count as one: written with every separator respelled as any non-empty run of `/` and
   escaped `\/` (C02Path.punparse_r: each segment carries the run written after it), a flat path pattern compiles to the
   very regex of the pattern with single separators - for every such pattern and every spelling (no bound) *)
Theorem C02_separator_runs : forall flags isb (l : list (list C01Flat.tok * (bool * list bool))),
  l <> [] -> Forall (fun x => C02Path.seg_wf (fst x) = true) l ->
  has flags Mwcparse.PATHNAME = true -> FlagFuns.is_unix_style linux flags = true -> has flags Mwcparse.EXTMATCH = false ->
  has flags Mwcparse.NODOTDIR = false -> has flags Mwcparse.REALPATH = false ->
  has flags Mwcparse.u_ANCHOR = false -> has flags Mwcparse.MATCHBASE = false ->
  has flags Mwcparse.u_EXTMATCHBASE = false -> has flags Mwcparse.u_TRANSLATE = false ->
  wcparse linux flags isb (C02Path.punparse_r l) = wcparse linux flags isb (C02Path.punparse (map fst l)).
Proof. exact C02Path.wcparse_path_runs. Qed.
Print Assumptions C02_separator_runs.

(* ---- patterns with `**` segments, end to end ---------------------------------------------------------------------------
   Units = ordinary segments (as above), each optionally preceded by `**/`, optionally a final `/**` (or the lone `**`);
   GLOBSTAR on, GLOBSTARLONG/DOTMATCH off, Unix rules.  The parser model prints the regex C02Glob.emit_pathG, and under the
   position-aware semantics C02Glob.Xb (`^` holds only where nothing of the name has been consumed) that regex fully
   matches a name without line feeds exactly when the name has the shape C02Glob.DenG: a `**` matches a run that never
   steps onto the start of a hidden segment, followed by separators - at least one unless the name starts or ends there. *)
From WC.Proofs Require C02Glob.

Theorem C02_globstar_path_language : forall flags isb units endg,
  (units <> [] \/ endg = true) -> Forall (fun u => C02Glob.uwf u = true) units ->
  has flags Mwcparse.PATHNAME = true -> has flags Mwcparse.GLOBSTAR = true -> has flags Mwcparse.GLOBSTARLONG = false ->
  has flags Mwcparse.DOTMATCH = false ->
  FlagFuns.is_unix_style linux flags = true -> has flags Mwcparse.EXTMATCH = false ->
  has flags Mwcparse.NODOTDIR = false -> has flags Mwcparse.REALPATH = false ->
  has flags Mwcparse.u_ANCHOR = false -> has flags Mwcparse.MATCHBASE = false ->
  has flags Mwcparse.u_EXTMATCHBASE = false -> has flags Mwcparse.u_TRANSLATE = false ->
  exists r,
    wcparse linux flags isb (C02Glob.punU units endg) =
      inl (S_ "^(?s" ++ (if FlagFuns.get_case linux flags then [] else S_ "i") ++ S_ ":" ++ C02Path.xprint r ++ S_ ")$") /\
    forall n, C02Path.nonl n -> (C02Glob.Xb r true n [] <-> C02Glob.DenG false true (C02Glob.to_psegs units endg) n).
Proof. exact C02Glob.C02_globstar_path_language. Qed.
Print Assumptions C02_globstar_path_language.

(* ... and the spelling does not matter there either: written with every separator - after a segment as after a `**` -
   respelled as any non-empty run of `/` and escaped `\/`, and with any number of further `**/` after a `**/` (they merge
   into it), a pattern of this fragment (C02Glob.punUr) compiles to the very regex of its plain spelling *)
Theorem C02_globstar_separator_runs : forall flags isb (units : list C02Glob.unit_r) endg,
  (units <> [] \/ endg = true) -> Forall (fun u => C02Glob.uwf_r u = true) units ->
  has flags Mwcparse.PATHNAME = true -> has flags Mwcparse.GLOBSTAR = true -> has flags Mwcparse.GLOBSTARLONG = false ->
  has flags Mwcparse.DOTMATCH = false ->
  FlagFuns.is_unix_style linux flags = true -> has flags Mwcparse.EXTMATCH = false ->
  has flags Mwcparse.NODOTDIR = false -> has flags Mwcparse.REALPATH = false ->
  has flags Mwcparse.u_ANCHOR = false -> has flags Mwcparse.MATCHBASE = false ->
  has flags Mwcparse.u_EXTMATCHBASE = false -> has flags Mwcparse.u_TRANSLATE = false ->
  wcparse linux flags isb (C02Glob.punUr units endg) = wcparse linux flags isb (C02Glob.punU (map C02Glob.strip units) endg).
Proof. exact C02Glob.wcparse_pathG_runs. Qed.
Print Assumptions C02_globstar_separator_runs.

(* `**` crosses whole segments only: what follows it starts at the beginning of the name or right after a separator *)
Theorem C02_globstar_whole_segments : forall prev b ts rest n,
  C02Glob.psegwf (C02Glob.PSeg ts) = true -> C02Path.nonl n ->
  C02Glob.DenG prev b (C02Glob.PGstar :: C02Glob.PSeg ts :: rest) n ->
  exists r d n', n = r ++ d ++ n' /\ C02Path.slashes d /\ (d <> [] \/ (b = true /\ r = [])) /\
                 C02Glob.DenG true (b && C02Glob.is_nil r && C02Glob.is_nil d) (C02Glob.PSeg ts :: rest) n'.
Proof. exact C02Glob.globstar_whole_segments. Qed.
Print Assumptions C02_globstar_whole_segments.

(* ... the same with DOTMATCH on or off (`Proofs/C02GlobD.v`): under DOTMATCH a `**` matches a run that never steps onto the
   start of a `.` or `..` segment (C02GlobD.gs_ok1), segments follow the DOTMATCH rules of C02Path *)
From WC.Proofs Require C02GlobD.
Theorem C02_globstar_path_language_dot : forall flags isb units endg,
  (units <> [] \/ endg = true) -> Forall (fun u => C02GlobD.uwf u = true) units ->
  has flags Mwcparse.PATHNAME = true -> has flags Mwcparse.GLOBSTAR = true -> has flags Mwcparse.GLOBSTARLONG = false ->
  FlagFuns.is_unix_style linux flags = true -> has flags Mwcparse.EXTMATCH = false ->
  has flags Mwcparse.NODOTDIR = false -> has flags Mwcparse.REALPATH = false ->
  has flags Mwcparse.u_ANCHOR = false -> has flags Mwcparse.MATCHBASE = false ->
  has flags Mwcparse.u_EXTMATCHBASE = false -> has flags Mwcparse.u_TRANSLATE = false ->
  exists r,
    wcparse linux flags isb (C02GlobD.punU units endg) =
      inl (S_ "^(?s" ++ (if FlagFuns.get_case linux flags then [] else S_ "i") ++ S_ ":" ++ C02Path.xprint r ++ S_ ")$") /\
    forall n, C02Path.nonl n ->
      (C02Glob.Xb r true n [] <-> C02GlobD.DenGD (has flags Mwcparse.DOTMATCH) false true (C02GlobD.to_psegs units endg) n).
Proof. exact C02GlobD.C02_globstar_path_language_dot. Qed.
Print Assumptions C02_globstar_path_language_dot.
