(* C02 - path matching respects separators, segments, globstar and MATCHBASE.
   Statements only. *)
From WC Require Import Str Spec WcParse.
From WC.Gen Require Import Consts.
From WC.Proofs Require Import SpecLemmas.

(* sanity of the executable spec (non-vacuity): the examples of the property text *)
Example C02_star_not_empty_segment :
  pden false false false true false false
       {| p_root := false; p_segs := [SPat [PLit 97%N]; SPat [PStar]; SPat [PLit 99%N]]; p_trail := false |}
       (S_ "a/c") = false
  /\ pden false false false true false false
       {| p_root := false; p_segs := [SPat [PLit 97%N]; SPat [PStar]; SPat [PLit 99%N]]; p_trail := false |}
       (S_ "a//b///c//") = true.
Proof. exact spec_example_star_segment. Qed.
Print Assumptions C02_star_not_empty_segment.

(* nothing but a written separator or `**` matches `/`: in the spec a wildcard class never contains the
   separator in path mode -- for EVERY bracket expression, case mode and character *)
Theorem C02_spec_wildcards_never_match_sep : forall ci neg items,
  rx_match ci (den_pat false true (PBr neg items)) [47%N] = false
  /\ rx_match ci (den_pat false true PQm) [47%N] = false.
Proof. exact spec_wild_no_sep. Qed.
Print Assumptions C02_spec_wildcards_never_match_sep.
