(* C07 - pattern lists, exclusions, SPLIT and BRACE decompose into single-pattern matches.  Statements only. *)
From WC Require Import Str WcParse WcSplit Expand Match.
From WC.Gen Require Import Consts FlagFuns.
From WC.Proofs Require Import C07Lemmas C07Neg SplitLemmas.
Import Mwcparse.
Open Scope Z_scope.

(* include-any and exclude-none, for every regex engine, every pair of lists and every name *)
Theorem C07_bool : forall fullmatch incl excl n,
  match_model fullmatch incl excl n = true <->
  (exists r, In r incl /\ fullmatch r n = true) /\ ~ (exists r, In r excl /\ fullmatch r n = true).
Proof. exact match_spec. Qed.
Print Assumptions C07_bool.

(* order and repetition never matter: the verdict depends only on the sets of regexes *)
Theorem C07_order_repetition : forall fullmatch incl incl' excl excl' n,
  (forall r, In r incl <-> In r incl') -> (forall r, In r excl <-> In r excl') ->
  match_model fullmatch incl excl n = match_model fullmatch incl' excl' n.
Proof. exact match_set_ext. Qed.
Print Assumptions C07_order_repetition.

Theorem C07_filter_pointwise : forall fullmatch incl excl names x,
  In x (filter_model fullmatch incl excl names) <-> In x names /\ match_model fullmatch incl excl x = true.
Proof. exact filter_pointwise. Qed.
Print Assumptions C07_filter_pointwise.

Theorem C07_exclusions_alone_match_nothing : forall fullmatch excl n, match_model fullmatch [] excl n = false.
Proof. exact exclusions_alone_match_nothing. Qed.
Print Assumptions C07_exclusions_alone_match_nothing.

(* The list loop compiles exactly the distinct expanded items, each once, routed by is_negative; an exclusion
   item is compiled from its text minus the prefix character with DOTMATCH forced.  Stated as a characterisation
   of the two result lists, for every total parser, flag set, mask and item list (limit disabled). *)
Theorem C07_routing : forall parse fl pm items st,
  exists st', items_loop (fun f p => inl (parse f p)) fl 0 pm items st = inl st' /\
    (forall t, In t (l_pos st') <-> In t (l_pos st) \/
       exists e, In e items /\ mem e (l_seen st) = false /\ is_negative fl e = false /\ t = parse (pm fl) e) /\
    (forall t, In t (l_neg st') <-> In t (l_neg st) \/
       exists e, In e items /\ mem e (l_seen st) = false /\ is_negative fl e = true /\
                 t = parse (pm (Z.lor (Z.lor fl u_NO_GLOBSTAR_CAPTURE) DOTMATCH)) (tl e)) /\
    (forall e, mem e (l_seen st') = true <-> mem e (l_seen st) = true \/ In e items).
Proof. exact items_loop_chars. Qed.
Print Assumptions C07_routing.

(* is_negative: `!p` under NEGATE, `-p` under NEGATE|MINUSNEGATE, never `!(` under EXTMATCH, nothing without NEGATE *)
Theorem C07_is_negative : forall fl c r,
  (has fl NEGATE = false -> is_negative fl (c :: r) = false) /\
  (has fl NEGATE = true -> has fl MINUSNEGATE = true -> is_negative fl (c :: r) = N.eqb 45 c) /\
  (has fl NEGATE = true -> has fl MINUSNEGATE = false -> has fl EXTMATCH = false -> is_negative fl (c :: r) = N.eqb 33 c) /\
  (has fl NEGATE = true -> has fl MINUSNEGATE = false -> has fl EXTMATCH = true ->
     is_negative fl (c :: r) = N.eqb 33 c && negb (match r with d :: _ => N.eqb 40 d | [] => false end)) /\
  is_negative fl [] = false.
Proof. exact is_negative_table. Qed.
Print Assumptions C07_is_negative.

(* SPLIT: for every pattern and flag word the pieces WcSplit returns are the text between `|` characters of the
   pattern, in order: joining them with `|` restores the pattern (nothing lost, duplicated or re-ordered) *)
Theorem C07_split_join : forall P flags p, join_with [cBAR] (wcsplit P flags p) = p.
Proof. exact wcsplit_join. Qed.
Print Assumptions C07_split_join.

Theorem C07_split_cuts : forall P flags p, exists cuts, wcsplit P flags p = cut p 0 cuts /\ cuts_ok p 0 cuts.
Proof. exact wcsplit_cuts. Qed.
Print Assumptions C07_split_cuts.
