(* C10 - every string is an acceptable pattern: no crashes, no invalid regexes.  Statements only. *)
From WC Require Import Str WcParse WcSplit Expand.
From WC.Gen Require Import Consts FlagFuns.
From WC.Proofs Require Import C10Lemmas.
Import Mwcparse.
Open Scope Z_scope.

(* The list loop of translate/compile (modelled; tied to the code by correspondence) raises only the documented
   errors -- PatternLimitException, ValueError for an absolute pattern where forbidden, SyntaxError/lookup error
   from RAWCHARS decoding -- for every oracle, every flag set, limit, pattern list and exclusion list, provided
   the single-pattern parser itself raises nothing but that ValueError (which the model's parser satisfies by
   construction apart from its out-of-fuel marker, observed never to occur by the correspondence run). *)
Theorem C10_list_errors_documented :
  forall P brace tilde norm parse,
    (forall f p e, parse f p = inr e -> e = EValue) ->
  forall tr isb flags limit pats ex e,
    pattern_lists P brace tilde norm parse tr isb flags limit pats ex = inr e ->
    e = LLimit \/ e = LValue \/ e = LSyntax.
Proof. exact pattern_lists_errs. Qed.
Print Assumptions C10_list_errors_documented.
