(* C10 - every string is an acceptable pattern: no crashes, no invalid regexes.  Statements only. *)
From WC Require Import Str WcParse WcSplit Expand.
From WC.Gen Require Import Consts FlagFuns.
From WC.Proofs Require Import C10Lemmas FuelLemmas GlobSplitLemmas.
From WC Require Import GlobSplit.
Import Mwcparse.
Open Scope Z_scope.

(* The list loop of translate/compile (modelled; tied to the code by correspondence) raises only the documented
   errors -- PatternLimitException, ValueError for an absolute pattern where forbidden, SyntaxError/lookup error
   from RAWCHARS decoding -- for every oracle, every flag set, limit, pattern list and exclusion list, provided
   the single-pattern parser itself raises nothing but that ValueError (which the model's parser satisfies by
   construction apart from its out-of-fuel marker, observed never to occur by the correspondence run). *)
Theorem C10_list_errors_documented :
  forall P brace tilde norm parse,
    (forall f p e, parse f p = inr e -> e = EValue) ->
  forall tr isb flags limit pats ex e,
    pattern_lists P brace tilde norm parse tr isb flags limit pats ex = inr e ->
    e = LLimit \/ e = LValue \/ e = LSyntax.
Proof. exact pattern_lists_errs. Qed.
Print Assumptions C10_list_errors_documented.

(* Termination: the explicit fuel of the parser model is never the reason for its answer - for every platform record,
   flag word, str/bytes mode and pattern.  (Every loop consumes input; rewinds never go back past the caller.) *)
Theorem C10_parser_terminates : forall P flags b p, wcparse P flags b p <> inr EFuel.
Proof. exact wcparse_never_out_of_fuel. Qed.
Print Assumptions C10_parser_terminates.

(* ... and under Unix rules the only error it can answer is the ValueError for an absolute pattern where forbidden,
   which discharges the hypothesis of C10_list_errors_documented for the model's own parser *)
Theorem C10_parser_errors_unix : forall flags b p e,
  is_unix_style linux flags = true -> wcparse linux flags b p = inr e -> e = EValue.
Proof. exact wcparse_errors_unix. Qed.
Print Assumptions C10_parser_errors_unix.

(* _GlobSplit never hands the walker an empty part list (Glob.glob reads parts[0] unconditionally), for every
   pattern and flag word *)
Theorem C10_globsplit_nonempty : forall flags b p parts, gsplit flags b p = inl parts -> parts <> [].
Proof. intros flags b p parts H. exact (proj1 (gsplit_parts flags b p parts H)). Qed.
Print Assumptions C10_globsplit_nonempty.
