(* C18 - bytes and str inputs behave identically.  Statements only. *)
From WC Require Import Str Spec WcParse.
From WC.Gen Require Import Posix Consts.
From WC.Proofs Require Import PosixLemmas C18Lemmas.
Open Scope N_scope.

Theorem C18_class_ranges_agree : forall name t1 r1 t2 r2,
  In (name, false, t1, r1) table_u -> In (name, false, t2, r2) table_a -> r1 = r2.
Proof. exact tables_agree. Qed.
Print Assumptions C18_class_ranges_agree.

(* the regex text inserted for `[:name:]` is the same for bytes and str patterns, for all 14 classes *)
Theorem C18_class_texts_equal : texts table_u = texts table_a.
Proof. exact class_texts_equal. Qed.
Print Assumptions C18_class_texts_equal.

Theorem C18_high_bytes_in_no_class : forall name c, 128 <= c -> in_ranges c (posix_doc name) = false.
Proof. exact high_bytes_in_no_class. Qed.
Print Assumptions C18_high_bytes_in_no_class.

Theorem C18_full_ranges : Frag.ASCII_RANGE = [0; 45; 255] /\ Frag.UNICODE_RANGE = [0; 45; 1114111].
Proof. exact ranges_pinned. Qed.
Print Assumptions C18_full_ranges.
