(* C05 - glob returns exactly the paths the pattern denotes on the real tree.  Statements only. *)
From WC Require Import Str Glob.
From WC.Proofs Require Import GlobLemmas GlobSplitLemmas.
From WC Require Import GlobSplit.

(* every path the one-directory walk yields is the current directory joined with an entry the OS listed there
   (or one of the two fake entries `.`/`..`), for every OS oracle, matcher, configuration and fuel *)
Theorem C05_results_come_from_listings : forall scandir segmatch cf fuel curdir m dir_only gf hits p d,
  glob_dir scandir segmatch cf fuel curdir m dir_only false gf = Some hits -> In (p, d) hits ->
  exists name isdir hidden islink, In (name, isdir, hidden, islink) (iter scandir cf curdir dir_only) /\ p = pjoin curdir name.
Proof. exact glob_dir_shallow_sound. Qed.
Print Assumptions C05_results_come_from_listings.

(* ... and nothing the matcher accepts is dropped (completeness of the one-directory walk) *)
Theorem C05_listing_complete : forall scandir segmatch cf fuel curdir m dir_only gf hits name isdir hidden islink,
  glob_dir scandir segmatch cf fuel curdir m dir_only false gf = Some hits ->
  In (name, isdir, hidden, islink) (iter scandir cf curdir dir_only) ->
  m <> MNone -> run_matcher segmatch cf m name = true ->
  In (pjoin curdir name, if is_special name then true else isdir) hits.
Proof. exact glob_dir_shallow_complete. Qed.
Print Assumptions C05_listing_complete.

(* magic/literal part classification (_GlobSplit): for every pattern and flag word, every part but the last is a
   directory part; a part is marked magic exactly when its text contains a magic symbol of the flag word (a drive
   part never); a part marked globstar is `**` or `***` *)
Theorem C05_parts_classified : forall flags b p parts,
  gsplit flags b p = inl parts ->
  parts <> [] /\ all_but_last_dironly parts /\ Forall (part_ok (mk_gscfg flags b)) parts.
Proof. exact gsplit_parts. Qed.
Print Assumptions C05_parts_classified.

(* ---- the whole walk ------------------------------------------------------------------------------------------------------
   For every listing oracle, part matcher, configuration, fuel, starting directory and list of parts: when the walker
   model returns (it does whenever the fuel exceeds tree depth + pattern length), a hit is in its result exactly when it
   is a GlobWhole.Matches: a plain part picks an entry of the current directory its matcher accepts (directory parts are
   continued below it with the next part), a `**` part picks any directory reachable through non-hidden directories
   that are not links - unless FOLLOW / `***` - and applies the following part there (or, last, yields every non-hidden
   entry).  Nothing else is returned, nothing of that is missing. *)
From WC.Proofs Require GlobWhole.
Theorem C05_whole_walk : forall scandir segmatch cf fuel curdir p rest hits,
  glob_parts scandir segmatch cf fuel curdir p rest = Some hits ->
  forall h, In h hits <-> GlobWhole.Matches scandir segmatch cf curdir p rest h.
Proof. exact GlobWhole.glob_parts_spec. Qed.
Print Assumptions C05_whole_walk.
