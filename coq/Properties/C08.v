(* C08 - translate returns regexes that mean exactly what match does.  Statements only. *)
From WC Require Import Str WcParse WcSplit Expand.
From WC.Gen Require Import Consts FlagFuns.
From WC.Proofs Require Import C08Lemmas.
Import Mwcparse.
Open Scope Z_scope.

(* translate() and compile_pattern() run the same loop with different single-pattern back ends (text with
   capture groups vs compiled regex): for ANY two total back ends and masks, the loop raises the same error or
   returns lists of the same lengths with the same items routed to inclusion / exclusion *)
Theorem C08_loops_parallel : forall parse1 parse2 pm1 pm2 fl limit items st1 st2,
  l_seen st1 = l_seen st2 -> l_total st1 = l_total st2 ->
  length (l_pos st1) = length (l_pos st2) -> length (l_neg st1) = length (l_neg st2) ->
  match items_loop (fun f p => inl (parse1 f p)) fl limit pm1 items st1,
        items_loop (fun f p => inl (parse2 f p)) fl limit pm2 items st2 with
  | inl r1, inl r2 => length (l_pos r1) = length (l_pos r2) /\ length (l_neg r1) = length (l_neg r2)
                      /\ l_seen r1 = l_seen r2 /\ l_total r1 = l_total r2
  | inr e1, inr e2 => e1 = e2
  | _, _ => False
  end.
Proof. exact items_loop_parallel. Qed.
Print Assumptions C08_loops_parallel.
