(* C04 - globmatch with REALPATH matches exactly what glob globs.  Statements only. *)
From WC Require Import Str Glob WcParse.
From WC.Gen Require Import Consts FlagFuns.
From WC.Proofs Require Import GlobLemmas Bits C17Lemmas.
Open Scope Z_scope.

(* glob() always matches with REALPATH semantics on this platform: Glob.__init__ passes flags | REALPATH through
   _flag_transform, which (translated from the source) forces PATHNAME and can never leave FORCEWIN set *)
Theorem C04_glob_flags_realpath_posix : forall P f, plat_windows P = false -> Z.testbit f 10 = true ->
  Z.testbit (glob_flag_transform P f) 5 = true /\ Z.testbit (glob_flag_transform P f) 16 = false.
Proof. exact glob_realpath_never_win. Qed.
Print Assumptions C04_glob_flags_realpath_posix.

(* both sides decide a single directory level the same way: what the walk yields for one directory is exactly the
   listed entries (or the two fake ones) the part matcher accepts *)
Theorem C04_level_exact : forall scandir segmatch cf fuel curdir m dir_only gf hits name isdir hidden islink,
  glob_dir scandir segmatch cf fuel curdir m dir_only false gf = Some hits ->
  In (name, isdir, hidden, islink) (Glob.iter scandir cf curdir dir_only) ->
  m <> MNone -> run_matcher segmatch cf m name = true ->
  In (pjoin curdir name, if is_special name then true else isdir) hits.
Proof. exact glob_dir_shallow_complete. Qed.
Print Assumptions C04_level_exact.
