(* C04 - globmatch with REALPATH matches exactly what glob globs.  Statements only. *)
From WC Require Import Str Glob WcParse.
From WC.Gen Require Import Consts FlagFuns.
From WC.Proofs Require Import GlobLemmas Bits C17Lemmas.
(* the committed snapshot of the regex source texts (RE_MOUNT, RE_SPLIT, both platforms) the REALPATH matcher model was written for; a changed text breaks this import *)
From WC.Proofs Require Pinned_wcmatch.
Open Scope Z_scope.

(* glob() always matches with REALPATH semantics on this platform: Glob.__init__ passes flags | REALPATH through
   _flag_transform, which (translated from the source) forces PATHNAME and can never leave FORCEWIN set *)
Theorem C04_glob_flags_realpath_posix : forall P f, plat_windows P = false -> Z.testbit f 10 = true ->
  Z.testbit (glob_flag_transform P f) 5 = true /\ Z.testbit (glob_flag_transform P f) 16 = false.
Proof. exact glob_realpath_never_win. Qed.
Print Assumptions C04_glob_flags_realpath_posix.

(* both sides decide a single directory level the same way: what the walk yields for one directory is exactly the
   listed entries (or the two fake ones) the part matcher accepts *)
Theorem C04_level_exact : forall scandir segmatch cf fuel curdir m dir_only gf hits name isdir hidden islink,
  glob_dir scandir segmatch cf fuel curdir m dir_only false gf = Some hits ->
  In (name, isdir, hidden, islink) (Glob.iter scandir cf curdir dir_only) ->
  m <> MNone -> run_matcher segmatch cf m name = true ->
  In (pjoin curdir name, if is_special name then true else isdir) hits.
Proof. exact glob_dir_shallow_complete. Qed.
Print Assumptions C04_level_exact.

(* Glob.__init__ (flag processing translated from the source on every run): for every flag word, with or without
   `exclude=`, on a non-Windows platform the walker and its matchers run with PATHNAME and never with Windows rules;
   NODOTDIR is forced unless SCANDOTDIR; `**` follows links iff FOLLOW and not GLOBSTARLONG; the exclusion patterns get
   DOTMATCH and no globstar capture *)
From WC.Proofs Require GlobInit.
Theorem C04_glob_init_table : forall P he f, plat_windows P = false ->
  let '(nounique, mark, scandotdir, negateall, nodir, pathlib, fl, nfl, raw, dot, unix, negate, gsl, gs, follow, braces, mb, cs) :=
      glob_init_flags P he f in
  Z.testbit fl 5 = true /\ Z.testbit fl 16 = false /\ unix = true /\
  (scandotdir = false -> Z.testbit fl 20 = true) /\
  follow = Z.testbit fl 11 && negb (Z.testbit fl 21) /\
  gs = Z.testbit fl 21 || Z.testbit fl 8 /\ gsl = Z.testbit fl 21 /\
  Z.testbit nfl 6 = true /\ Z.testbit nfl 36 = true /\
  dot = Z.testbit fl 6 /\ cs = get_case P fl.
Proof. exact GlobInit.glob_init_table. Qed.
Print Assumptions C04_glob_init_table.

(* ---- the REALPATH decision of globmatch (_Match.match / _match_real / _fs_match, model RealMatch.v) ------------------
   For every file-system oracle (lexists / isdir / islink on path strings), every regex oracle, name, pattern lists and
   root: (1) a path that does not exist never matches; (2) the patterns are asked about the name with a separator
   appended exactly when the name is written without one and is a directory; (3) with FOLLOW, and for exclusion
   patterns always, the verdict is the regexes' alone. *)
From WC Require RealMatch.
From WC.Proofs Require RealLemmas.

Theorem C04_nonexistent_never_matches : forall islink isdir lexists pat rematch filename include exclude follow root,
  (if starts_with [47%N] filename then lexists filename else lexists (RealMatch.pjoin root filename)) = false ->
  RealMatch.match_realpath islink isdir lexists pat rematch filename include exclude follow root = false.
Proof. exact RealLemmas.nonexistent_never_matches. Qed.
Print Assumptions C04_nonexistent_never_matches.

Theorem C04_directory_rule : forall islink isdir pat rematch filename include exclude follow root,
  RealMatch.match_real islink isdir pat rematch filename include exclude follow root =
  RealLemmas.verdict_on islink pat rematch (RealLemmas.effective isdir root filename) include exclude follow root.
Proof. exact RealLemmas.match_real_effective. Qed.
Print Assumptions C04_directory_rule.

Theorem C04_follow_is_regex_only : forall islink pat rematch g include exclude root,
  RealLemmas.verdict_on islink pat rematch g include exclude true root =
  existsb (fun p => RealLemmas.matched (rematch p g)) include && negb (existsb (fun p => RealLemmas.matched (rematch p g)) exclude).
Proof. exact RealLemmas.follow_is_regex_only. Qed.
Print Assumptions C04_follow_is_regex_only.

Theorem C04_no_links_no_difference : forall (islink : str -> bool) pat (rematch : pat -> str -> RealMatch.mres) g include exclude root,
  (forall q, islink q = false) ->
  RealLemmas.verdict_on islink pat rematch g include exclude false root = RealLemmas.verdict_on islink pat rematch g include exclude true root.
Proof. exact RealLemmas.no_links_follow_irrelevant. Qed.
Print Assumptions C04_no_links_no_difference.
