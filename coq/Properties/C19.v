(* C19 - results never depend on call history, caching, sharing or threads.  Statements only. *)
From WC Require Import Str Cache.
From WC.Gen Require Import Consts.
From WC.Proofs Require Import C19Lemmas.

(* `_compile` is wrapped in functools.lru_cache(maxsize=256, typed=True) -- parameters regenerated from the
   decorator in the source on every run *)
Theorem C19_cache_parameters : Limits.compile_cache_maxsize = 256%Z /\ Limits.compile_cache_typed = true.
Proof. split; reflexivity. Qed.
Print Assumptions C19_cache_parameters.

(* for every key type with a sound equality test, every pure function, every capacity and EVERY call history
   (any length, any pattern of hits, misses and evictions): the cached function returns what the pure one does *)
Theorem C19_history : forall K V keqb, (forall a b : K, keqb a b = true -> a = b) ->
  forall (pure : K -> V) cap ks, fst (run K V keqb pure cap [] ks) = map pure ks.
Proof. exact run_from_empty. Qed.
Print Assumptions C19_history.

(* threads: every interleaving of atomic lookups, stores of values computed by the pure function (possibly
   duplicated, reordered, evicted) and cache clears keeps every cache entry equal to the pure value *)
Theorem C19_threads : forall K V keqb, (forall a b : K, keqb a b = true -> a = b) ->
  forall (pure : K -> V) cap es c, Inv K V pure c -> Forall (honest K V pure) es ->
  Inv K V pure (fold_left (fun c e => fst (step K V keqb cap c e)) es c).
Proof. exact interleaving_ok. Qed.
Print Assumptions C19_threads.

(* the answers themselves: whatever prefix of honest events ran before it, a lookup that hits returns the pure value *)
Theorem C19_thread_answers : forall K V keqb, (forall a b : K, keqb a b = true -> a = b) ->
  forall (pure : K -> V) cap es c, Inv K V pure c -> Forall (honest K V pure) es ->
  forall pre e post k v, es = pre ++ e :: post -> e = ELookup K V k ->
  snd (step K V keqb cap (fold_left (fun c e => fst (step K V keqb cap c e)) pre c) e) = Some (Some v) -> v = pure k.
Proof. exact interleaving_answers. Qed.
Print Assumptions C19_thread_answers.

(* the cache stays within its capacity over every call history and every interleaving (so the history that a result
   could depend on is bounded by `maxsize` entries, each of them a pure value) *)
Theorem C19_capacity : forall K V keqb (pure : K -> V) cap ks,
  (length (snd (run K V keqb pure cap [] ks)) <= cap)%nat.
Proof. intros. apply run_bound. cbn. apply Nat.le_0_l. Qed.
Print Assumptions C19_capacity.

Theorem C19_capacity_threads : forall K V keqb cap es (c : cache K V), (length c <= cap)%nat ->
  (length (fold_left (fun c e => fst (step K V keqb cap c e)) es c) <= cap)%nat.
Proof. exact interleaving_bound. Qed.
Print Assumptions C19_capacity_threads.

(* non-vacuity: a history with a hit, misses and an eviction at capacity 2 *)
Example C19_history_example :
  (run nat nat Nat.eqb (fun k => k * k) 2 [] [1; 2; 1; 3; 2] = ([1; 4; 1; 9; 4], [(2, 4); (3, 9)]))%nat.
Proof. reflexivity. Qed.

(* matcher objects: equal exactly when built from the same fields (so equal objects accept the same names and
   hash equally, the hash being a function of the fields); pickling = rebuilding from the fields *)
Theorem C19_eq_sound : forall a b, wc_eqb a b = true -> a = b.
Proof. exact wc_eqb_eq. Qed.
Print Assumptions C19_eq_sound.

Theorem C19_eq_iff : forall a b, wc_eqb a b = true <-> a = b.
Proof. exact wc_eqb_iff. Qed.
Print Assumptions C19_eq_iff.

Theorem C19_pickle_roundtrip : forall m, rebuild (fields m) = m.
Proof. exact rebuild_fields. Qed.
Print Assumptions C19_pickle_roundtrip.
