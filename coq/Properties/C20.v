(* C20 - RAWCHARS decodes Python-style character escapes and nothing else.  Statements only.
   The scanner model (Norm.v) is tied to util.norm_pattern by exhaustive correspondence; the regex source texts
   RE_NORM / RE_BNORM it was written for are pinned in Proofs/Pinned.v (re-checked against the regenerated
   Gen.ReSrc on every run). *)
From WC Require Import Str Norm.
From WC.Gen Require Import Consts.
From WC.Proofs Require Import Pinned_util C20Lemmas.
Open Scope N_scope.

Theorem C20_off : forall uname b p, norm_pattern uname b false false p = inl p.
Proof. exact norm_off. Qed.
Print Assumptions C20_off.

(* \xhh denotes the character with that code, for every pair of hex digits, str and bytes, any following text *)
Theorem C20_hex : forall uname b nrm a c r, is_hex a = true -> is_hex c = true ->
  norm_at uname b nrm true (92 :: 120 :: a :: c :: r) = Some (inl [hexval a * 16 + hexval c], r).
Proof. exact decode_x. Qed.
Print Assumptions C20_hex.

(* without RAWCHARS `\x41` is an escaped `x` followed by `41` *)
Theorem C20_hex_not_decoded_without_raw : forall uname b nrm a c r, is_hex a = true -> is_hex c = true ->
  norm_at uname b nrm false (92 :: 120 :: a :: c :: r) = Some (inl [92; 120; a; c], r).
Proof. exact keep_x. Qed.
Print Assumptions C20_hex_not_decoded_without_raw.

Theorem C20_incomplete_hex_is_syntax_error : forall uname b nrm a r, is_hex a = false ->
  norm_at uname b nrm true (92 :: 120 :: a :: r) = Some (inr NSyntax, a :: r).
Proof. exact incomplete_x. Qed.
Print Assumptions C20_incomplete_hex_is_syntax_error.

Theorem C20_simple_escapes : forall uname,
  map (fun c => norm_at uname false false true [92; c]) [97; 98; 102; 110; 114; 116; 118; 92] =
  [Some (inl [7], []); Some (inl [8], []); Some (inl [12], []); Some (inl [10], []); Some (inl [13], []);
   Some (inl [9], []); Some (inl [11], []); Some (inl [92; 92], [])]
  /\
  map (fun c => norm_at uname true false true [92; c]) [97; 98; 102; 110; 114; 116; 118; 92] =
  [Some (inl [7], []); Some (inl [8], []); Some (inl [12], []); Some (inl [10], []); Some (inl [13], []);
   Some (inl [9], []); Some (inl [11], []); Some (inl [92; 92], [])].
Proof. exact decode_simple_table. Qed.
Print Assumptions C20_simple_escapes.

Theorem C20_other_escapes_untouched : forall uname nrm raw c r,
  ch_in c simple_escapes = false -> is_oct c = false -> c <> 47 ->
  c <> 78 -> c <> 85 -> c <> 117 -> c <> 120 ->
  norm_at uname false nrm raw (92 :: c :: r) = Some (inl [92; c], r).
Proof. exact other_escape_kept. Qed.
Print Assumptions C20_other_escapes_untouched.

Theorem C20_unescaped_text_untouched : forall uname b nrm raw c r,
  c <> 92 -> c <> 47 -> norm_at uname b nrm raw (c :: r) = None.
Proof. exact plain_char_untouched. Qed.
Print Assumptions C20_unescaped_text_untouched.

(* the regex sources the scanner was written for *)
Theorem C20_regex_sources_pinned :
  ReSrc.util_RE_NORM_flags = ""%string /\ ReSrc.util_RE_BNORM_flags = ""%string.
Proof. exact (conj pin_util_RE_NORM_flags pin_util_RE_BNORM_flags). Qed.
Print Assumptions C20_regex_sources_pinned.

(* whole strings: a raw pattern read as a sequence of tokens - plain characters, `\xhh`, `\uhhhh`, `\Uhhhhhhhh` (value in
   range), octal escapes (a short one not followed by an octal digit), the simple escapes, `\N{name}` (name known), any
   other backslash pair - is decoded to the concatenation of what each token denotes: plain text and other pairs
   unchanged, every escape replaced by exactly its character; for token sequences of any length, str and bytes (bytes:
   `\xhh`, octal & 0xFF, simple escapes) *)
From WC.Proofs Require C20Whole.
Theorem C20_rawchars_decodes_tokens : forall uname b nrm ts,
  C20Whole.rwfs uname b ts ->
  norm_pattern uname b nrm true (C20Whole.rsrcs ts) = inl (C20Whole.rvals b ts).
Proof. exact C20Whole.rawchars_decodes_tokens. Qed.
Print Assumptions C20_rawchars_decodes_tokens.
