(* C15 - a WcMatch object can be killed, reset and re-run with prefix-exact results.  Statements only. *)
From WC Require Import Str Glob WcMatchM.
From WC.Proofs Require Import C15Lemmas C14Lemmas.

(* Every hook (folder validation, file validation, on_match - which also stands for the consumer acting between two
   yields -, on_skip/on_error) may call kill() at any of its invocations, in any combination: the yielded sequence
   is a prefix of the sequence of the uninterrupted run.  For every OS oracle, every decision function, every kill
   schedule and every fuel (tree size). *)
Theorem C15_prefix : forall listing islink followlinks vfolder vfile match_kill skip_kill fuel root,
  prefix (w_out (imatch listing islink followlinks vfolder vfile match_kill skip_kill fuel root false))
         (w_out (imatch listing islink followlinks (vfolder0 vfolder) (vfile0 vfile) nokill nokill fuel root false)).
Proof. exact killed_run_is_prefix. Qed.
Print Assumptions C15_prefix.

(* the object stays aborted until reset(): a run started with the flag set yields nothing *)
Theorem C15_sticky : forall listing islink followlinks vfolder vfile match_kill skip_kill fuel root,
  w_out (imatch listing islink followlinks vfolder vfile match_kill skip_kill fuel root true) = [].
Proof. exact aborted_run_is_empty. Qed.
Print Assumptions C15_sticky.

(* after reset() a new run is the uninterrupted run: it depends on nothing but the arguments (imatch is a function
   of them; the skipped counter restarts at 0), so repeated runs return identical sequences *)
Theorem C15_rerun_complete : forall listing islink followlinks vfolder vfile fuel root,
  w_out (imatch listing islink followlinks (vfolder0 vfolder) (vfile0 vfile) nokill nokill fuel root false)
  = selected listing islink followlinks vfolder vfile fuel root.
Proof. exact match_exact. Qed.
Print Assumptions C15_rerun_complete.
