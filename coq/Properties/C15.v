(* C15 - a WcMatch object can be killed, reset and re-run with prefix-exact results.  Statements only. *)
From WC Require Import Str Glob WcMatchM.
From WC.Proofs Require Import C15Lemmas C14Lemmas.

(* Every hook (folder validation, file validation, on_match - which also stands for the consumer acting between two
   yields -, on_skip/on_error) may call kill() at any of its invocations, in any combination: the yielded sequence
   is a prefix of the sequence of the uninterrupted run.  For every OS oracle, every decision function, every kill
   schedule and every fuel (tree size). *)
Theorem C15_prefix : forall listing islink followlinks vfolder vfile match_kill skip_kill fuel root,
  prefix (w_out (imatch listing islink followlinks vfolder vfile match_kill skip_kill fuel root false))
         (w_out (imatch listing islink followlinks (vfolder0 vfolder) (vfile0 vfile) nokill nokill fuel root false)).
Proof. exact killed_run_is_prefix. Qed.
Print Assumptions C15_prefix.

(* the object stays aborted until reset(): a run started with the flag set yields nothing *)
Theorem C15_sticky : forall listing islink followlinks vfolder vfile match_kill skip_kill fuel root,
  w_out (imatch listing islink followlinks vfolder vfile match_kill skip_kill fuel root true) = [].
Proof. exact aborted_run_is_empty. Qed.
Print Assumptions C15_sticky.

(* after reset() a new run is the uninterrupted run: it depends on nothing but the arguments (imatch is a function
   of them; the skipped counter restarts at 0), so repeated runs return identical sequences *)
Theorem C15_rerun_complete : forall listing islink followlinks vfolder vfile fuel root,
  w_out (imatch listing islink followlinks (vfolder0 vfolder) (vfile0 vfile) nokill nokill fuel root false)
  = selected listing islink followlinks vfolder vfile fuel root.
Proof. exact match_exact. Qed.
Print Assumptions C15_rerun_complete.

(* "nothing further beyond the file being processed": a kill() issued while the folders of a directory are filtered
   (from on_validate_directory / on_error, or by another thread) ends the run before any file of that directory is
   started; a kill() issued while a file is handled ends it before the next file is touched; an aborted state passes
   through every remaining directory unchanged (C15_sticky's lemma walkK_aborted) *)
Theorem C15_stop_in_folder_phase : forall listing islink followlinks vfolder vfile match_kill skip_kill f base dirs files st,
  listing base = Some (dirs, files) -> w_abort st = false ->
  w_abort (snd (dirs_loop vfolder base dirs st)) = true ->
  w_out (walk listing islink followlinks vfolder vfile match_kill skip_kill (S f) base st) = w_out st /\
  w_abort (walk listing islink followlinks vfolder vfile match_kill skip_kill (S f) base st) = true.
Proof. exact kill_in_folder_phase_stops. Qed.
Print Assumptions C15_stop_in_folder_phase.

Theorem C15_stop_in_file_phase : forall vfile match_kill skip_kill base n fs st,
  w_abort (file_step vfile match_kill skip_kill base n st) = true ->
  files_loop vfile match_kill skip_kill base (n :: fs) st = file_step vfile match_kill skip_kill base n st.
Proof. exact kill_in_file_phase_stops. Qed.
Print Assumptions C15_stop_in_file_phase.
