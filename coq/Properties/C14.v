(* C14 - WcMatch returns exactly the files a filtered directory walk selects.  Statements only. *)
From WC Require Import Str Glob WcMatchM.
From WC.Gen Require Import Consts FlagFuns.
From WC.Proofs Require Import C15Lemmas C14Lemmas Bits C17Lemmas.
Open Scope nat_scope.

(* For every OS oracle (directory listings, islink), followlinks setting and per-entry decisions of _valid_folder /
   _valid_file: the uninterrupted run yields exactly, in walk order, the files accepted by the file test in the
   directories reachable from the root through directories accepted by the folder test (and not symlinks unless
   followed) - `selected` is written independently of the walker's control flow. *)
Theorem C14_exact : forall listing islink followlinks vfolder vfile fuel root,
  w_out (imatch listing islink followlinks (vfolder0 vfolder) (vfile0 vfile) nokill nokill fuel root false)
  = selected listing islink followlinks vfolder vfile fuel root.
Proof. exact match_exact. Qed.
Print Assumptions C14_exact.

(* get_skipped = number of files visited - number returned *)
Theorem C14_skipped : forall listing islink followlinks vfolder vfile fuel root,
  let r := imatch listing islink followlinks (vfolder0 vfolder) (vfile0 vfile) nokill nokill fuel root false in
  w_skipped r + length (w_out r) = visited listing islink followlinks vfolder fuel root /\
  w_visited r = visited listing islink followlinks vfolder fuel root.
Proof. exact skipped_is_visited_minus_returned. Qed.
Print Assumptions C14_skipped.

(* forced flags (translated from WcMatch._parse_flags on every run; bits: 3 NEGATE, 6 DOTMATCH, 15 NEGATEALL,
   12 SPLIT, 13 MATCHBASE, 16 FORCEWIN; 24 DIRPATHNAME, 25 FILEPATHNAME, 26 SYMLINKS, 27 HIDDEN, 28 RECURSIVE) *)
Theorem C14_forced_flags : forall P f, plat_windows P = false ->
  let '(fl, follow, hidden, recursive, dirp, filep, mb) := wcmatch_parse_flags P f in
  Z.testbit fl 3 = true /\ Z.testbit fl 6 = true /\ Z.testbit fl 15 = true /\ Z.testbit fl 12 = true /\
  Z.testbit fl 13 = false /\ Z.testbit fl 16 = false /\
  follow = Z.testbit f 26 /\ hidden = Z.testbit f 27 /\ recursive = Z.testbit f 28 /\
  dirp = Z.testbit f 24 /\ filep = Z.testbit f 25 /\ mb = Z.testbit f 13.
Proof. exact wcmatch_forced_flags. Qed.
Print Assumptions C14_forced_flags.

(* path modes add PATHNAME (bit 5) and _ANCHOR (bit 33), and MATCHBASE (bit 13) when requested *)
Theorem C14_path_mode_flags : forall sflags mb,
  Z.testbit (wcmatch_wildcard_flags sflags mb true) 5 = true /\
  Z.testbit (wcmatch_wildcard_flags sflags mb true) 33 = true /\
  Z.testbit (wcmatch_wildcard_flags sflags mb true) 13 = (Z.testbit sflags 13 || mb) /\
  wcmatch_wildcard_flags sflags mb false = sflags.
Proof. exact wcmatch_path_flags. Qed.
Print Assumptions C14_path_mode_flags.
