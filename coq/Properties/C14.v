(* C14 - WcMatch returns exactly the files a filtered directory walk selects.  Statements only. *)
From WC Require Import Str Glob WcMatchM.
From WC.Gen Require Import Consts FlagFuns.
From WC.Gen Require Import WalkFuns.
From WC.Proofs Require Import C15Lemmas C14Lemmas Bits C17Lemmas C14Walk.
Open Scope nat_scope.

(* For every OS oracle (directory listings, islink), followlinks setting and per-entry decisions of _valid_folder /
   _valid_file: the uninterrupted run yields exactly, in walk order, the files accepted by the file test in the
   directories reachable from the root through directories accepted by the folder test (and not symlinks unless
   followed) - `selected` is written independently of the walker's control flow. *)
Theorem C14_exact : forall listing islink followlinks vfolder vfile fuel root,
  w_out (imatch listing islink followlinks (vfolder0 vfolder) (vfile0 vfile) nokill nokill fuel root false)
  = selected listing islink followlinks vfolder vfile fuel root.
Proof. exact match_exact. Qed.
Print Assumptions C14_exact.

(* get_skipped = number of files visited - number returned *)
Theorem C14_skipped : forall listing islink followlinks vfolder vfile fuel root,
  let r := imatch listing islink followlinks (vfolder0 vfolder) (vfile0 vfile) nokill nokill fuel root false in
  w_skipped r + length (w_out r) = visited listing islink followlinks vfolder fuel root /\
  w_visited r = visited listing islink followlinks vfolder fuel root.
Proof. exact skipped_is_visited_minus_returned. Qed.
Print Assumptions C14_skipped.

(* forced flags (translated from WcMatch._parse_flags on every run; bits: 3 NEGATE, 6 DOTMATCH, 15 NEGATEALL,
   12 SPLIT, 13 MATCHBASE, 16 FORCEWIN; 24 DIRPATHNAME, 25 FILEPATHNAME, 26 SYMLINKS, 27 HIDDEN, 28 RECURSIVE) *)
Theorem C14_forced_flags : forall P f, plat_windows P = false ->
  let '(fl, follow, hidden, recursive, dirp, filep, mb) := wcmatch_parse_flags P f in
  Z.testbit fl 3 = true /\ Z.testbit fl 6 = true /\ Z.testbit fl 15 = true /\ Z.testbit fl 12 = true /\
  Z.testbit fl 13 = false /\ Z.testbit fl 16 = false /\
  follow = Z.testbit f 26 /\ hidden = Z.testbit f 27 /\ recursive = Z.testbit f 28 /\
  dirp = Z.testbit f 24 /\ filep = Z.testbit f 25 /\ mb = Z.testbit f 13.
Proof. exact wcmatch_forced_flags. Qed.
Print Assumptions C14_forced_flags.

(* path modes add PATHNAME (bit 5) and _ANCHOR (bit 33), and MATCHBASE (bit 13) when requested *)
Theorem C14_path_mode_flags : forall sflags mb,
  Z.testbit (wcmatch_wildcard_flags sflags mb true) 5 = true /\
  Z.testbit (wcmatch_wildcard_flags sflags mb true) 33 = true /\
  Z.testbit (wcmatch_wildcard_flags sflags mb true) 13 = (Z.testbit sflags 13 || mb) /\
  wcmatch_wildcard_flags sflags mb false = sflags.
Proof. exact wcmatch_path_flags. Qed.
Print Assumptions C14_path_mode_flags.

(* the per-entry decisions (translated from WcMatch._valid_file / _valid_folder / compare_directory on every run) are the
   documented rule, for every configuration, compiled matcher, hidden test and user hook:
   file taken  <->  pattern matches (name, or root-relative path under FILEPATHNAME) /\ (HIDDEN \/ not hidden) /\ hook;
   folder entered  <->  RECURSIVE /\ not excluded (name, or root-relative path + separator under DIRPATHNAME)
                        /\ (HIDDEN \/ not hidden) /\ hook *)
Theorem C14_file_rule : forall has_file_check show_hidden file_pathname file_match is_hidden on_validate_file path_join strip_base base name,
  valid_file has_file_check show_hidden file_pathname file_match is_hidden on_validate_file path_join strip_base base name =
  has_file_check && file_match (if file_pathname then strip_base (path_join base name) else name) &&
  (show_hidden || negb (is_hidden (path_join base name))) && on_validate_file base name.
Proof. exact valid_file_rule. Qed.
Print Assumptions C14_file_rule.

Theorem C14_folder_rule : forall has_folder_exclude show_hidden recursive dir_pathname folder_exclude_match is_hidden
                                 on_validate_directory path_join strip_base add_sep base name,
  valid_folder has_folder_exclude show_hidden recursive dir_pathname folder_exclude_match is_hidden
               on_validate_directory path_join strip_base add_sep base name =
  recursive &&
  negb (has_folder_exclude &&
        folder_exclude_match (let d := if dir_pathname then strip_base (path_join base name) else name in
                              if dir_pathname then add_sep d else d)) &&
  (show_hidden || negb (is_hidden (path_join base name))) && on_validate_directory base name.
Proof. exact valid_folder_rule. Qed.
Print Assumptions C14_folder_rule.
