(* C12 - glob results are well-formed.  Statements only. *)
From WC Require Import Str Glob.
From WC.Proofs Require Import GlobLemmas.

(* a result carries a trailing separator exactly when the pattern ended with one, or MARK is set and the entry is a
   directory -- for every configuration, `seen` set and path; and nothing but that separator is ever added *)
Theorem C12_trailing_separator : forall cf seen path is_dir dir_only out seen',
  format_path cf seen true path is_dir dir_only = (out, seen') ->
  out = [if dir_only || (g_mark cf && is_dir) then pjoin path [] else path] /\ seen' = seen.
Proof. exact format_path_nounique. Qed.
Print Assumptions C12_trailing_separator.

Theorem C12_unique_mode_subset : forall cf seen path is_dir dir_only out seen',
  format_path cf seen false path is_dir dir_only = (out, seen') ->
  out = [] \/ out = [if dir_only || (g_mark cf && is_dir) then pjoin path [] else path].
Proof. exact format_path_unique_shape. Qed.
Print Assumptions C12_unique_mode_subset.

(* every path yielded for one directory is that directory joined with a listed entry or with `.`/`..` *)
Theorem C12_results_are_joins : forall scandir segmatch cf fuel curdir m dir_only gf hits p d,
  glob_dir scandir segmatch cf fuel curdir m dir_only false gf = Some hits -> In (p, d) hits ->
  exists name isdir hidden islink, In (name, isdir, hidden, islink) (iter scandir cf curdir dir_only) /\ p = pjoin curdir name.
Proof. exact glob_dir_shallow_sound. Qed.
Print Assumptions C12_results_are_joins.
