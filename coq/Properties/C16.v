(* C16 - pathlib methods are faithful views of wcmatch.glob.  Statements only. *)
From WC Require Import Str Glob WcParse.
From WC.Gen Require Import Consts FlagFuns.
From WC.Proofs Require Import Bits C17Lemmas GlobLemmas.
(* the committed snapshot of the regex source texts (pathlib dot-normalisation regexes) of the walker; a changed text breaks this import *)
From WC.Proofs Require Pinned_glob.
Open Scope Z_scope.

(* the platform rules are fixed by the path class: whatever FORCEWIN/FORCEUNIX/other bits the user supplies, a
   Posix path class always ends up with FORCEUNIX set, FORCEWIN clear and PATHNAME set (translated from
   PurePath._translate_flags on every run; host is not Windows) *)
Theorem C16_posix_class_rules : forall P f, os_nt P = false ->
  exists f', pathlib_translate_flags P false true f = Some f' /\
             Z.testbit f' 17 = true /\ Z.testbit f' 16 = false /\ Z.testbit f' 5 = true.
Proof. exact pathlib_posix_class. Qed.
Print Assumptions C16_posix_class_rules.

(* a Windows path class gets Windows rules, and REALPATH (bit 10) on it raises ValueError on this host *)
Theorem C16_windows_class_rules : forall P f, os_nt P = false ->
  (Z.testbit f 10 = true -> pathlib_translate_flags P true false f = None) /\
  (Z.testbit f 10 = false -> exists f', pathlib_translate_flags P true false f = Some f' /\
                                        Z.testbit f' 16 = true /\ Z.testbit f' 17 = false /\ Z.testbit f' 5 = true).
Proof. exact pathlib_windows_class. Qed.
Print Assumptions C16_windows_class_rules.

(* pathlib callers de-duplicate on the pathlib-normalised key: within one call no normalised key is returned twice
   (instance of the C13 output-stage theorem with g_pathlib = true) *)
Theorem C16_unique_after_normalisation : forall exclmatch cf seen0 hits dir_only out seen,
  g_pathlib cf = true ->
  emit exclmatch cf seen0 false hits dir_only = (out, seen) ->
  NoDup (map (key_of cf) out).
Proof. intros exclmatch cf seen0 hits dir_only out seen _ H. exact (proj1 (proj1 (emit_unique exclmatch cf seen0 hits dir_only out seen H))). Qed.
Print Assumptions C16_unique_after_normalisation.
