(* C09 - escape makes any string literal; non-magic patterns are literal.  Statements only. *)
From WC Require Import Str WcParse Escape.
From WC.Gen Require Import Consts FlagFuns.
From WC.Proofs Require Import C09Lemmas C09Parse.
(* the committed snapshot of the regex source texts (magic sets, drive, tilde and anchor regexes) the escape and drive-scanner models were written for; a changed text breaks this import *)
From WC.Proofs Require Pinned_wcparse.
Import Mwcparse.
Open Scope Z_scope.

(* for every flag word and string type: every symbol is_magic looks for is neutralised by escape *)
Theorem C09_magic_symbols_escaped : forall b fl c,
  In c (magic_symbols b fl) -> escape_ch b c = [92%N; c] \/ (c = 92%N /\ escape_ch b c = [92; 92]%N).
Proof. exact magic_symbols_escaped. Qed.
Print Assumptions C09_magic_symbols_escaped.

(* for every string: escape yields only `\c` pairs and characters that are magic under no flag set *)
Theorem C09_escape_output_shape : forall b s, Forall (piece b) (map (escape_ch b) s).
Proof. exact escape_pieces. Qed.
Print Assumptions C09_escape_output_shape.

Theorem C09_is_magic_spec : forall b fl p,
  is_magic b fl p = true <-> exists c, In c (magic_symbols b fl) /\ In c p.
Proof. exact is_magic_spec. Qed.
Print Assumptions C09_is_magic_spec.

(* parser side, fnmatch mode (no PATHNAME, Unix rules): for EVERY string s the regex text produced for escape(s) is
   the literal regex of s - each character re.escape()d, `/` as the class `[/]` - whatever the other flags are *)
Theorem C09_parse_escaped_literal : forall flags isb s,
  has flags PATHNAME = false -> is_unix_style linux flags = true ->
  has flags u_ANCHOR = false -> has flags MATCHBASE = false -> has flags u_EXTMATCHBASE = false ->
  has flags u_TRANSLATE = false ->
  wcparse linux flags isb (escape isb s) =
  inl (S_ "^(?s" ++ (if get_case linux flags then [] else S_ "i") ++ S_ ":" ++ flat_map lit_ch0 s ++ S_ ")$").
Proof. exact wcparse_escape_literal. Qed.
Print Assumptions C09_parse_escaped_literal.

(* ... in particular for every flag word a caller of the fnmatch entry points can pass (translated _flag_transform) *)
Theorem C09_fnmatch_escape_literal : forall f isb s,
  is_unix_style linux (fnmatch_flag_transform linux f) = true ->
  wcparse linux (fnmatch_flag_transform linux f) isb (escape isb s) =
  inl (S_ "^(?s" ++ (if get_case linux (fnmatch_flag_transform linux f) then [] else S_ "i") ++ S_ ":" ++
       flat_map lit_ch0 s ++ S_ ")$").
Proof. exact fnmatch_escape_literal. Qed.
Print Assumptions C09_fnmatch_escape_literal.

(* parser side, path mode (PATHNAME, Unix rules, NODOTDIR/REALPATH/MATCHBASE off; EXTMATCH, GLOBSTAR, DOTMATCH, case flags
   free): for EVERY non-empty string s the regex produced for escape(s) is the printed form of a regex r that - under
   the formal semantics C02Path.X - accepts s itself, accepts exactly the names C09Path.DL describes (the same characters,
   each run of separators of s matched by a non-empty run, any separators at the end), hence only names with the same
   list of segments as s *)
From WC.Proofs Require C02Path C09Path.
Theorem C09_path_escape_literal : forall flags isb s,
  s <> [] ->
  has flags Mwcparse.PATHNAME = true -> is_unix_style linux flags = true -> has flags Mwcparse.NODOTDIR = false ->
  has flags Mwcparse.REALPATH = false -> has flags Mwcparse.u_NOABSOLUTE = false ->
  has flags Mwcparse.u_ANCHOR = false -> has flags Mwcparse.MATCHBASE = false -> has flags Mwcparse.u_EXTMATCHBASE = false ->
  has flags Mwcparse.u_TRANSLATE = false ->
  exists r,
    wcparse linux flags isb (escape isb s) =
      inl (S_ "^(?s" ++ (if get_case linux flags then [] else S_ "i") ++ S_ ":" ++ C02Path.xprint r ++ S_ ")$") /\
    C02Path.X r s [] /\ (forall n, C02Path.X r n [] <-> C09Path.DL false s n) /\
    (forall n, C02Path.X r n [] -> C09Path.segs n = C09Path.segs s).
Proof. exact C09Path.C09_path_escape_literal. Qed.
Print Assumptions C09_path_escape_literal.
