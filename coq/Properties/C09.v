(* C09 - escape makes any string literal; non-magic patterns are literal.  Statements only. *)
From WC Require Import Str WcParse Escape.
From WC.Gen Require Import Consts FlagFuns.
From WC.Proofs Require Import C09Lemmas.
Open Scope Z_scope.

(* for every flag word and string type: every symbol is_magic looks for is neutralised by escape *)
Theorem C09_magic_symbols_escaped : forall b fl c,
  In c (magic_symbols b fl) -> escape_ch b c = [92%N; c] \/ (c = 92%N /\ escape_ch b c = [92; 92]%N).
Proof. exact magic_symbols_escaped. Qed.
Print Assumptions C09_magic_symbols_escaped.

(* for every string: escape yields only `\c` pairs and characters that are magic under no flag set *)
Theorem C09_escape_output_shape : forall b s, Forall (piece b) (map (escape_ch b) s).
Proof. exact escape_pieces. Qed.
Print Assumptions C09_escape_output_shape.

Theorem C09_is_magic_spec : forall b fl p,
  is_magic b fl p = true <-> exists c, In c (magic_symbols b fl) /\ In c p.
Proof. exact is_magic_spec. Qed.
Print Assumptions C09_is_magic_spec.
