(* C09 - escape makes any string literal; non-magic patterns are literal.  Statements only. *)
From WC Require Import Str WcParse Escape.
From WC.Gen Require Import Consts FlagFuns.
From WC.Proofs Require Import C09Lemmas C09Parse.
Import Mwcparse.
Open Scope Z_scope.

(* for every flag word and string type: every symbol is_magic looks for is neutralised by escape *)
Theorem C09_magic_symbols_escaped : forall b fl c,
  In c (magic_symbols b fl) -> escape_ch b c = [92%N; c] \/ (c = 92%N /\ escape_ch b c = [92; 92]%N).
Proof. exact magic_symbols_escaped. Qed.
Print Assumptions C09_magic_symbols_escaped.

(* for every string: escape yields only `\c` pairs and characters that are magic under no flag set *)
Theorem C09_escape_output_shape : forall b s, Forall (piece b) (map (escape_ch b) s).
Proof. exact escape_pieces. Qed.
Print Assumptions C09_escape_output_shape.

Theorem C09_is_magic_spec : forall b fl p,
  is_magic b fl p = true <-> exists c, In c (magic_symbols b fl) /\ In c p.
Proof. exact is_magic_spec. Qed.
Print Assumptions C09_is_magic_spec.

(* parser side, fnmatch mode (no PATHNAME, Unix rules): for EVERY string s the regex text produced for escape(s) is
   the literal regex of s - each character re.escape()d, `/` as the class `[/]` - whatever the other flags are *)
Theorem C09_parse_escaped_literal : forall flags isb s,
  has flags PATHNAME = false -> is_unix_style linux flags = true ->
  has flags u_ANCHOR = false -> has flags MATCHBASE = false -> has flags u_EXTMATCHBASE = false ->
  has flags u_TRANSLATE = false ->
  wcparse linux flags isb (escape isb s) =
  inl (S_ "^(?s" ++ (if get_case linux flags then [] else S_ "i") ++ S_ ":" ++ flat_map lit_ch0 s ++ S_ ")$").
Proof. exact wcparse_escape_literal. Qed.
Print Assumptions C09_parse_escaped_literal.

(* ... in particular for every flag word a caller of the fnmatch entry points can pass (translated _flag_transform) *)
Theorem C09_fnmatch_escape_literal : forall f isb s,
  is_unix_style linux (fnmatch_flag_transform linux f) = true ->
  wcparse linux (fnmatch_flag_transform linux f) isb (escape isb s) =
  inl (S_ "^(?s" ++ (if get_case linux (fnmatch_flag_transform linux f) then [] else S_ "i") ++ S_ ":" ++
       flat_map lit_ch0 s ++ S_ ")$").
Proof. exact fnmatch_escape_literal. Qed.
Print Assumptions C09_fnmatch_escape_literal.
