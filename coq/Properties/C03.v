(* C03 - hidden names and the special directories are never matched by wildcards.  Statements only. *)
From WC Require Import Str Spec WcParse Expand.
From WC.Gen Require Import Consts FlagFuns.
From WC.Proofs Require Import SpecLemmas Bits C03Lemmas.
Import Mwcparse.
Open Scope Z_scope.

(* in the spec no wildcard class ever contains the protected dot: for every bracket expression and case mode *)
Theorem C03_spec_wildcards_never_match_protected_dot : forall ci path neg items,
  rx_match ci (den_pat false path (PBr neg items)) [DOT0] = false
  /\ rx_match ci (den_pat false path PQm) [DOT0] = false
  /\ rx_match ci (den_pat false path PStar) [DOT0] = false.
Proof. exact spec_wild_no_dot0. Qed.
Print Assumptions C03_spec_wildcards_never_match_protected_dot.

(* Exclusion patterns (inline NEGATE ones) are always handed to the single-pattern parser with DOTMATCH set:
   two parsers that agree on every flag word whose DOTMATCH bit is set yield the same exclusion regexes in the
   modelled list loop (tied to the code by the correspondence check), whatever they do without DOTMATCH.
   For every flag set, limit, mask that keeps the bit (both masks the code uses do) and item list. *)
Theorem C03_exclusions_forced_dotmatch :
  forall parse1 parse2 : Z -> str -> str + perr,
    (forall f p, Z.testbit f 6 = true -> parse1 f p = parse2 f p) ->
  forall pm : Z -> Z, (forall f, Z.testbit f 6 = true -> Z.testbit (pm f) 6 = true) ->
  forall fl limit items st1 st2 r1 r2,
    l_neg st1 = l_neg st2 -> l_seen st1 = l_seen st2 -> l_total st1 = l_total st2 ->
    items_loop parse1 fl limit pm items st1 = inl r1 ->
    items_loop parse2 fl limit pm items st2 = inl r2 ->
    l_neg r1 = l_neg r2 /\ l_seen r1 = l_seen r2 /\ l_total r1 = l_total r2.
Proof. exact items_loop_neg_same. Qed.
Print Assumptions C03_exclusions_forced_dotmatch.

(* both masks used by the code keep the DOTMATCH bit; the `exclude=` route ORs DOTMATCH into the flags *)
Theorem C03_masks_keep_dotmatch : forall f,
  Z.testbit (Z.land f FLAG_MASK) 6 = Z.testbit f 6 /\ Z.testbit (Z.lor f DOTMATCH) 6 = true
  /\ has f DOTMATCH = Z.testbit f 6.
Proof. exact (fun f => conj (Bits.testbit_land_mask_6 f) (conj (Bits.testbit_lor_DOTMATCH f) (Bits.has_DOTMATCH f))). Qed.
Print Assumptions C03_masks_keep_dotmatch.

(* ---- on the flat fragments proved end to end (C01Flat / C02Path): a leading dot needs a written dot ------------------
   fnmatch mode: the documented meaning C01Flat.Den without DOTMATCH holds of a name starting with `.` only if the pattern
   starts with a written `.`; path mode: a piece starting with `.` is matched only if its segment starts with a written
   `.`, or with a `*` that consumes nothing (the dot then belongs to what follows: finding C03-star-guard-inside-optional) -
   never by a segment-initial `?`, never by the characters a segment-initial `*` consumes. *)
From WC.Proofs Require C01Flat C02Path.

Theorem C03_flat_leading_dot : forall ts n',
  C01Flat.Den false true ts (46%N :: n') -> exists c r, (ts = C01Flat.TLit c :: r \/ ts = C01Flat.TEsc c :: r) /\ c = 46%N.
Proof. exact C01Flat.flat_leading_dot. Qed.
Print Assumptions C03_flat_leading_dot.

Theorem C03_path_hidden_piece : forall ts (s' : str),
  C02Path.DenSeg false true ts (46%N :: s') ->
  (exists r, ts = C01Flat.TLit 46%N :: r) \/ (exists c r, ts = C01Flat.TEsc c :: r /\ c = 46%N) \/
  (exists r, ts = C01Flat.TStar :: r /\ C02Path.DenSeg false false r (46%N :: s')).
Proof. exact C02Path.hidden_piece_needs_written_dot. Qed.
Print Assumptions C03_path_hidden_piece.

(* `**` without DOTMATCH: a name matched by the lone pattern `**` neither starts with `.` nor contains "/." - a `**`
   never descends into (or lists) a hidden entry *)
From WC.Proofs Require C02Glob.
Theorem C03_lone_globstar_no_hidden : forall n,
  C02Path.nonl n -> C02Glob.DenG false true [C02Glob.PGstar] n ->
  (forall y, n <> 46%N :: y) /\ (forall u v, n <> u ++ 47%N :: 46%N :: v).
Proof. exact C02Glob.lone_globstar_no_hidden. Qed.
Print Assumptions C03_lone_globstar_no_hidden.

(* the public masks of glob and pathlib let the two dot flags through: DOTMATCH (hidden files) and NODOTDIR (`.`/`..`) *)
Theorem C03_front_end_masks_keep_dot_flags :
  Z.land Mglob.FLAG_MASK DOTMATCH = DOTMATCH /\ Z.land Mglob.FLAG_MASK NODOTDIR = NODOTDIR /\
  Z.land Mpathlib.FLAG_MASK DOTMATCH = DOTMATCH /\ Z.land Mpathlib.FLAG_MASK NODOTDIR = NODOTDIR /\
  Z.land Mfnmatch.FLAG_MASK DOTMATCH = DOTMATCH.
Proof. exact (conj eq_refl (conj eq_refl (conj eq_refl (conj eq_refl eq_refl)))). Qed.
Print Assumptions C03_front_end_masks_keep_dot_flags.
