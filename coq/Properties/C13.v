(* C13 - multi-pattern glob is the de-duplicated union minus exclusions.  Statements only.
   `emit` is the output stage every hit of every pattern goes through in Glob.glob (exclusion test with the
   directory slash added, formatting, uniqueness); the `seen` set is threaded through all patterns of one call. *)
From WC Require Import Str Glob.
From WC.Proofs Require Import GlobLemmas.

(* NOUNIQUE: concatenation, in order, of the formatted non-excluded hits, duplicates kept *)
Theorem C13_nounique_concatenation : forall exclmatch cf seen hits dir_only,
  emit exclmatch cf seen true hits dir_only = (map (fmt cf dir_only) (filter (kept exclmatch cf) hits), seen).
Proof. exact emit_nounique. Qed.
Print Assumptions C13_nounique_concatenation.

(* default: under whichever case rule is in force (key_of lower-cases when case-insensitive and applies pathlib
   normalisation for pathlib callers) no key is returned twice -- neither within this pattern nor if it was already
   seen from an earlier pattern -- every returned path is a formatted non-excluded hit, and every non-excluded hit's
   key is in the seen set afterwards (so it was returned now or earlier).  For every configuration, exclusion
   matcher, seen set and hit list. *)
Theorem C13_unique_union : forall exclmatch cf seen0 hits dir_only out seen,
  emit exclmatch cf seen0 false hits dir_only = (out, seen) ->
  uinv cf seen0 out seen /\
  (forall o, In o out -> exists h, In h hits /\ kept exclmatch cf h = true /\ o = fmt cf dir_only h) /\
  (forall h, In h hits -> kept exclmatch cf h = true -> In (key_of cf (fmt cf dir_only h)) seen).
Proof. exact emit_unique. Qed.
Print Assumptions C13_unique_union.

(* exclusion patterns are tested against the path with a trailing separator when the entry is a directory *)
Theorem C13_exclusion_sees_directory_slash : forall exclmatch cf path,
  g_has_excl cf = true -> ends_with [cSLc] path = false ->
  is_excluded exclmatch cf path true = exclmatch (path ++ [cSLc]) /\ is_excluded exclmatch cf path false = exclmatch path.
Proof. exact excluded_dir_slash. Qed.
Print Assumptions C13_exclusion_sees_directory_slash.

(* NEGATE vs exclude=: once an `exclude=` argument is given (even an empty one) the pattern list is read without NEGATE,
   for every flag word (Glob.__init__ translated from the source on every run) *)
From WC.Gen Require FlagFuns.
From WC.Proofs Require GlobInit.
Theorem C13_exclude_disables_negate : forall P f,
  let '(_, _, _, _, _, _, _, _, _, _, _, negate, _, _, _, _, _, _) := FlagFuns.glob_init_flags P true f in negate = false.
Proof. exact GlobInit.glob_init_exclude_disables_negate. Qed.
Print Assumptions C13_exclude_disables_negate.
