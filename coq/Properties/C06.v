(* C06 - `**` does not traverse symlinked directories unless asked; glob terminates.  Statements only. *)
From WC Require Import Str Glob.
From WC.Proofs Require Import GlobLemmas GlobSplitLemmas.
From WC Require Import GlobSplit.

(* the walk descends into a listed entry only if it is a non-hidden directory that is not a symlink, unless links
   are followed (FOLLOW without GLOBSTARLONG) or the part is `***`: stated on the directories the deep walk lists,
   for every OS oracle, matcher, configuration and fuel *)
Theorem C06_descent_rule : forall scandir cf fuel curdir dir_only gf d,
  In d (listed scandir cf fuel curdir dir_only gf) ->
  d = curdir \/
  exists parent name isdir hidden islink,
    In parent (listed scandir cf fuel curdir dir_only gf) /\
    In (name, isdir, hidden, islink) (iter scandir cf parent dir_only) /\
    d = pjoin parent name /\ is_special name = false /\ hidden = false /\ isdir = true /\
    (islink = false \/ g_follow cf = true \/ gf = true).
Proof. exact listed_rule. Qed.
Print Assumptions C06_descent_rule.

(* a run of consecutive `**`/`***` segments becomes ONE part, and that part follows symlinks (globstarlong) iff
   one of the merged segments is `***` under GLOBSTARLONG *)
Theorem C06_globstar_runs_merge : forall cf v before last d,
  (gs_globstarlong cf && str_eqb v (S_ "***")) || (gs_globstar cf && str_eqb v (S_ "**")) = true ->
  gp_gstar last = true ->
  g_store cf v (before ++ [last]) d =
  before ++ [{| gp_text := v; gp_magic := g_is_magic cf v; gp_gstar := true;
                gp_gstarlong := (gs_globstarlong cf && str_eqb v (S_ "***")) || gp_gstarlong last;
                gp_dironly := d; gp_drive := false |}].
Proof. exact store_merges_globstars. Qed.
Print Assumptions C06_globstar_runs_merge.

(* ---- the symlink rule of REALPATH globmatch (model RealMatch.v of _fs_match) -------------------------------------------
   Along one captured `**` run the walk fails exactly at a checked prefix that is a link - checked = every component,
   except the last one when the run ends where the code's `at_end` says; an acceptance without FOLLOW means some
   inclusion regex matched with every captured run free of such links and no exclusion regex matched; FOLLOW only adds
   matches; exclusion patterns never look at links. *)
From WC Require RealMatch.
From WC.Proofs Require RealLemmas.

Theorem C06_run_walk_rule : forall islink parts base at_end,
  RealMatch.parts_ok islink base parts at_end =
  forallb (fun ql => negb ((negb at_end || negb (snd ql)) && islink (fst ql))) (RealLemmas.walk base parts).
Proof. exact RealLemmas.parts_ok_spec. Qed.
Print Assumptions C06_run_walk_rule.

Theorem C06_accepted_without_follow : forall islink pat rematch g include exclude root,
  RealLemmas.verdict_on islink pat rematch g include exclude false root = true ->
  (exists p groups, In p include /\ rematch p g = Some groups /\ forallb (RealMatch.group_ok islink root g) groups = true) /\
  (forall p, In p exclude -> rematch p g = None).
Proof. exact RealLemmas.accepted_without_follow. Qed.
Print Assumptions C06_accepted_without_follow.

Theorem C06_follow_only_adds : forall islink pat rematch g include exclude root,
  RealLemmas.verdict_on islink pat rematch g include exclude false root = true ->
  RealLemmas.verdict_on islink pat rematch g include exclude true root = true.
Proof. exact RealLemmas.follow_monotone. Qed.
Print Assumptions C06_follow_only_adds.

Theorem C06_exclusions_ignore_links : forall (islink : str -> bool) (pat : Type) (rematch : pat -> str -> RealMatch.mres) (islink2 : str -> bool) g exclude root,
  existsb (fun p => RealMatch.fs_match islink (rematch p g) g true root) exclude =
  existsb (fun p => RealMatch.fs_match islink2 (rematch p g) g true root) exclude.
Proof. exact RealLemmas.exclusions_ignore_links. Qed.
Print Assumptions C06_exclusions_ignore_links.

(* ---- the deep walk of a `**` part reaches exactly the chains of descendable directories --------------------------------
   descendable = not `.`/`..`, not hidden (unless DOTGLOB), a directory, and not a symbolic link unless FOLLOW is on or the
   part is a `***` (GlobWhole.descends); sound and complete for every listing oracle, matcher and depth *)
From WC Require Glob.
From WC.Proofs Require GlobWhole GlobLemmas.
Theorem C06_deep_walk_sound : forall scandir segmatch cf m dir_only gf fuel curdir hits,
  Glob.glob_dir scandir segmatch cf fuel curdir m dir_only true gf = Some hits ->
  forall h, In h hits -> exists d, GlobWhole.Desc scandir cf dir_only gf curdir d /\
                                   In h (GlobLemmas.shallow segmatch cf d m (Glob.iter scandir cf d dir_only)).
Proof. exact GlobWhole.deep_sound. Qed.
Print Assumptions C06_deep_walk_sound.

Theorem C06_deep_walk_complete : forall scandir segmatch cf m dir_only gf fuel curdir hits,
  Glob.glob_dir scandir segmatch cf fuel curdir m dir_only true gf = Some hits ->
  forall d h, GlobWhole.Desc scandir cf dir_only gf curdir d ->
              In h (GlobLemmas.shallow segmatch cf d m (Glob.iter scandir cf d dir_only)) -> In h hits.
Proof. exact GlobWhole.deep_complete. Qed.
Print Assumptions C06_deep_walk_complete.
