(* C06 - `**` does not traverse symlinked directories unless asked; glob terminates.  Statements only. *)
From WC Require Import Str Glob.
From WC.Proofs Require Import GlobLemmas.

(* the walk descends into a listed entry only if it is a non-hidden directory that is not a symlink, unless links
   are followed (FOLLOW without GLOBSTARLONG) or the part is `***`: stated on the directories the deep walk lists,
   for every OS oracle, matcher, configuration and fuel *)
Theorem C06_descent_rule : forall scandir cf fuel curdir dir_only gf d,
  In d (listed scandir cf fuel curdir dir_only gf) ->
  d = curdir \/
  exists parent name isdir hidden islink,
    In parent (listed scandir cf fuel curdir dir_only gf) /\
    In (name, isdir, hidden, islink) (iter scandir cf parent dir_only) /\
    d = pjoin parent name /\ is_special name = false /\ hidden = false /\ isdir = true /\
    (islink = false \/ g_follow cf = true \/ gf = true).
Proof. exact listed_rule. Qed.
Print Assumptions C06_descent_rule.
