(* C06 - `**` does not traverse symlinked directories unless asked; glob terminates.  Statements only. *)
From WC Require Import Str Glob.
From WC.Proofs Require Import GlobLemmas GlobSplitLemmas.
From WC Require Import GlobSplit.

(* the walk descends into a listed entry only if it is a non-hidden directory that is not a symlink, unless links
   are followed (FOLLOW without GLOBSTARLONG) or the part is `***`: stated on the directories the deep walk lists,
   for every OS oracle, matcher, configuration and fuel *)
Theorem C06_descent_rule : forall scandir cf fuel curdir dir_only gf d,
  In d (listed scandir cf fuel curdir dir_only gf) ->
  d = curdir \/
  exists parent name isdir hidden islink,
    In parent (listed scandir cf fuel curdir dir_only gf) /\
    In (name, isdir, hidden, islink) (iter scandir cf parent dir_only) /\
    d = pjoin parent name /\ is_special name = false /\ hidden = false /\ isdir = true /\
    (islink = false \/ g_follow cf = true \/ gf = true).
Proof. exact listed_rule. Qed.
Print Assumptions C06_descent_rule.

(* a run of consecutive `**`/`***` segments becomes ONE part, and that part follows symlinks (globstarlong) iff
   one of the merged segments is `***` under GLOBSTARLONG *)
Theorem C06_globstar_runs_merge : forall cf v before last d,
  (gs_globstarlong cf && str_eqb v (S_ "***")) || (gs_globstar cf && str_eqb v (S_ "**")) = true ->
  gp_gstar last = true ->
  g_store cf v (before ++ [last]) d =
  before ++ [{| gp_text := v; gp_magic := g_is_magic cf v; gp_gstar := true;
                gp_gstarlong := (gs_globstarlong cf && str_eqb v (S_ "***")) || gp_gstarlong last;
                gp_dironly := d; gp_drive := false |}].
Proof. exact store_merges_globstars. Qed.
Print Assumptions C06_globstar_runs_merge.
