(* C17 - case and platform flags select a consistent matching mode.  Statements only. *)
From WC Require Import Str Spec WcParse.
From WC.Gen Require Import Consts FlagFuns.
From WC.Proofs Require Import Bits C17Lemmas.
Open Scope Z_scope.

(* bits: 0 CASE, 1 IGNORECASE, 10 REALPATH, 16 FORCEWIN, 17 FORCEUNIX (pinned by Bits.*_bit against the
   regenerated constants).  get_case (translated from the source on every run) is case-INsensitive exactly when
   CASE is off and (IGNORECASE, or FORCEWIN, or neither force flag on a case-insensitive platform). *)
Theorem C17_mode : forall P f,
  get_case P f =
  negb (negb (Z.testbit f 0) &&
        (Z.testbit f 1 || Z.testbit f 16 || (negb (Z.testbit f 17) && negb (fs_case_sensitive P)))).
Proof. exact get_case_table. Qed.
Print Assumptions C17_mode.

Theorem C17_unix_style : forall P f,
  is_unix_style P f =
  (negb (plat_windows P) || (negb (Z.testbit f 10) && Z.testbit f 17)) && negb (Z.testbit f 16).
Proof. exact is_unix_style_table. Qed.
Print Assumptions C17_unix_style.

(* FORCEWIN together with FORCEUNIX cancel out; CASE/IGNORECASE pass through (fnmatch entry points) *)
Theorem C17_cancel_fnmatch : forall P f,
  Z.testbit (fnmatch_flag_transform P f) 16 = Z.testbit f 16 && negb (Z.testbit f 17) /\
  Z.testbit (fnmatch_flag_transform P f) 17 = Z.testbit f 17 && negb (Z.testbit f 16).
Proof. exact fnmatch_transform_force. Qed.
Print Assumptions C17_cancel_fnmatch.

Theorem C17_case_bits_fnmatch : forall P f,
  Z.testbit (fnmatch_flag_transform P f) 0 = Z.testbit f 0 /\ Z.testbit (fnmatch_flag_transform P f) 1 = Z.testbit f 1.
Proof. exact fnmatch_transform_case. Qed.
Print Assumptions C17_case_bits_fnmatch.

(* glob entry points (non-Windows platform): PATHNAME forced, cancellation, REALPATH drops FORCEWIN *)
Theorem C17_cancel_glob : forall P f, plat_windows P = false ->
  Z.testbit (glob_flag_transform P f) 5 = true /\
  Z.testbit (glob_flag_transform P f) 16 = Z.testbit f 16 && negb (Z.testbit f 17) && negb (Z.testbit f 10) /\
  Z.testbit (glob_flag_transform P f) 17 = Z.testbit f 17 && negb (Z.testbit f 16).
Proof. exact glob_transform_force. Qed.
Print Assumptions C17_cancel_glob.

(* in case-insensitive mode the documented language is closed under ASCII case changes of the name: for every
   regular expression of the spec algebra (hence every pattern, fnmatch or path) and every name *)
Theorem C17_spec_case_closed : forall n r, rx_match true r (map swapcase n) = rx_match true r n.
Proof. exact rx_match_swapcase. Qed.
Print Assumptions C17_spec_case_closed.

(* ---- Windows drives and UNC prefixes (model WinDrive.v of _get_win_drive, used by the parser model's root) ------------
   `c:` followed by a separator or the end is recognised as a drive for every letter `re.I` accepts and whatever follows;
   `//server/share/...` with plain names (the first neither `.` nor `?`) yields exactly [server; share]; the offset the
   parser advances by never exceeds the pattern.  The regex text of a drive is built by WcParse.drive_regex: the parts
   `re.escape`d - wrapped in `(?i:...)` when the rest of the pattern is case-sensitive - and joined by `[\\/]`. *)
From WC Require WinDrive.
From WC.Proofs Require WinDriveLemmas.
Theorem C17_drive_letter_recognised : forall c rest,
  WinDrive.drive_letter c = true -> (rest = [] \/ exists r, rest = 47%N :: r) ->
  WinDrive.get_win_drive (c :: 58%N :: rest) =
  (true, WinDrive.DLetter [c; 58%N], match rest with [] => false | _ => true end, match rest with [] => 2%N | _ => 3%N end).
Proof. exact WinDriveLemmas.drive_letter_recognised. Qed.
Print Assumptions C17_drive_letter_recognised.

Theorem C17_unc_share_recognised : forall server share rest,
  WinDriveLemmas.plain_name server -> WinDriveLemmas.plain_name share ->
  str_eqb (WinDrive.lower server) (S_ ".") || str_eqb (WinDrive.lower server) (S_ "?") = false ->
  WinDrive.get_win_drive (47%N :: 47%N :: server ++ 47%N :: share ++ 47%N :: rest) =
  (true, WinDrive.DUnc [server; share], true, N.of_nat (2 + length server + 1 + length share + 1)).
Proof. exact WinDriveLemmas.unc_share_recognised. Qed.
Print Assumptions C17_unc_share_recognised.

Theorem C17_drive_end_within : forall p rs d sl e,
  WinDrive.get_win_drive p = (rs, d, sl, e) -> (N.to_nat e <= length p)%nat.
Proof. exact WinDriveLemmas.drive_end_within. Qed.
Print Assumptions C17_drive_end_within.
