(* Mirror of _wcmatch._Match.match, non-REALPATH branch (lines 233-246): include-any and exclude-none.
   The regex engine is a parameter. *)
From WC Require Import Str.

Section Match.
  Variable fullmatch : str -> str -> bool.      (* regex text -> name -> bool *)
  Definition match_model (incl excl : list str) (n : str) : bool :=
    existsb (fun r => fullmatch r n) incl && negb (existsb (fun r => fullmatch r n) excl).
  Definition filter_model (incl excl : list str) (names : list str) : list str :=
    filter (match_model incl excl) names.
End Match.
