(* Functional mirror of wcmatch/util.py norm_pattern (81-128): RE_NORM / RE_BNORM as a leftmost-first scanner and
   the norm() callback.  unicodedata.lookup is a parameter.  No proofs in this file.
   The alternation order modelled here is pinned to the regex source text by Gen.ReSrc (see Proofs/C20Lemmas). *)
From WC Require Import Str.
From WC.Gen Require Import Consts.
Open Scope N_scope.

Inductive nerr := NSyntax | NLookup.       (* SyntaxError (incomplete escape, code point out of range) | KeyError (unknown \N{name}) *)

Definition is_hex (c : ch) : bool :=
  ((48 <=? c) && (c <=? 57)) || ((97 <=? c) && (c <=? 102)) || ((65 <=? c) && (c <=? 70)).
Definition hexval (c : ch) : N :=
  if (48 <=? c) && (c <=? 57) then c - 48 else if (97 <=? c) && (c <=? 102) then c - 87 else c - 55.
Definition is_oct (c : ch) : bool := (48 <=? c) && (c <=? 55).
Definition hexnum (s : str) : N := fold_left (fun a c => a * 16 + hexval c) s 0.
Definition octnum (s : str) : N := fold_left (fun a c => a * 8 + (c - 48)) s 0.

(* n hex digits at the head of s *)
Fixpoint take_hex (n : nat) (s : str) : option (str * str) :=
  match n with
  | O => Some ([], s)
  | S n' => match s with
            | c :: s' => if is_hex c then
                           match take_hex n' s' with Some (h, r) => Some (c :: h, r) | None => None end
                         else None
            | [] => None
            end
  end.
(* up to 3 octal digits, at least one: greedy *)
Fixpoint take_oct (n : nat) (s : str) : str * str :=
  match n with
  | O => ([], s)
  | S n' => match s with
            | c :: s' => if is_oct c then let '(h, r) := take_oct n' s' in (c :: h, r) else ([], s)
            | [] => ([], s)
            end
  end.
(* `[^}]*?\}` : shortest text up to the first `}` *)
Fixpoint take_name (s : str) : option (str * str) :=
  match s with
  | [] => None
  | c :: s' => if c =? 125 then Some ([], s')
               else match take_name s' with Some (nm, r) => Some (c :: nm, r) | None => None end
  end.

Definition simple_escapes : str := S_ "abfnrtv\".

Section Norm.
  Variable uname : str -> option ch.        (* unicodedata.lookup *)
  Variables is_bytes normalize raw : bool.

  Definition bst : list (str * str) :=
    if is_bytes then Util.BACK_SLASH_TRANSLATION_b else Util.BACK_SLASH_TRANSLATION_s.
  Fixpoint assoc (k : str) (l : list (str * str)) : option str :=
    match l with [] => None | (a, b) :: l' => if str_eqb k a then Some b else assoc k l' end.

  (* one regex match attempt at the head of s: Some (replacement or error, rest) | None (no alternative matches) *)
  Definition norm_at (s : str) : option ((str + nerr) * str) :=
    match s with
    | [] => None
    | c0 :: r0 =>
      if c0 =? 47 then Some (inl [47], r0)                                  (* group 1: `/` *)
      else if negb (c0 =? 92) then None
      else
      match r0 with
      | [] => None
      | c :: r =>
      if c =? 47 then Some (inl (if normalize then [92; 92; 92; 92] else [92; 47]), r)   (* group 1: `\/` *)
      else
      if ch_in c simple_escapes then                                        (* group 2 *)
        Some (inl (if raw then match assoc [92; c] bst with Some v => v | None => [92; c] end else [92; c]), r)
      else
        let g3 : option (str * str * bool) :=                               (* group 3 (value digits, rest, is_octal) *)
          if negb is_bytes && (c =? 85) then
            match take_hex 8 r with Some (h, r') => Some (h, r', false) | None => None end
          else if negb is_bytes && (c =? 117) then
            match take_hex 4 r with Some (h, r') => Some (h, r', false) | None => None end
          else if c =? 120 then
            match take_hex 2 r with Some (h, r') => Some (h, r', false) | None => None end
          else if is_oct c then let '(h, r') := take_oct 3 (c :: r) in Some (h, r', true)
          else None in
        match g3 with
        | Some (digits, r', true) =>
            if raw then Some (inl [if is_bytes then N.land (octnum digits) 255 else octnum digits], r')
            else Some (inl (92 :: digits), r')
        | Some (digits, r', false) =>
            if raw then
              let v := hexnum digits in
              if v <? 1114112 then Some (inl [v], r') else Some (inr NSyntax, r')   (* chr() failed: SyntaxError *)
            else Some (inl (92 :: c :: digits), r')
        | None =>
          let g5 : option (str * str) :=                                    (* group 5: \N{...} (str only) *)
            if negb is_bytes && (c =? 78) then
              match r with 123 :: r1 => take_name r1 | _ => None end
            else None in
          match g5 with
          | Some (nm, r') =>
              if raw then match uname nm with Some u => Some (inl [u], r') | None => Some (inr NLookup, r') end
              else Some (inl (92 :: 78 :: 123 :: nm ++ [125]), r')
          | None =>
            let special := if is_bytes then (c =? 120) else ((c =? 78) || (c =? 85) || (c =? 117) || (c =? 120)) in
            if negb special then Some (inl [92; c], r)                      (* group 6 / 5(bytes): `\c` untouched *)
            else if raw then Some (inr NSyntax, r)                          (* group 7 / 6(bytes): incomplete escape *)
            else Some (inl [92; c], r)
          end
        end
      end
    end.

  Fixpoint norm_go (fuel : nat) (s : str) : str + nerr :=
    match fuel with
    | O => inl s
    | S f =>
      match s with
      | [] => inl []
      | c :: s' =>
        match norm_at s with
        | Some (inl rep, r) => match norm_go f r with inl t => inl (rep ++ t) | inr e => inr e end
        | Some (inr e, _) => inr e
        | None => match norm_go f s' with inl t => inl (c :: t) | inr e => inr e end
        end
      end
    end.

  Definition norm_pattern (p : str) : str + nerr :=
    if negb normalize && negb raw then inl p else norm_go (S (length p)) p.
End Norm.
