(* Functional mirror of wcmatch/wcmatch.py WcMatch._walk / imatch / kill / reset (lines 242-314) over a model of
   os.walk (top-down, in-place pruning, followlinks).  The operating system (directory listings, islink) and the
   per-entry decisions of _valid_folder / _valid_file (which contain the pattern matching and the user hooks) are
   parameters; every hook may additionally request a kill().  No proofs in this file. *)
From WC Require Import Str Glob.

Inductive fres := FValid | FInvalid | FRaised.     (* _valid_file returned True / False / raised (-> on_error) *)

Record wst := { w_abort : bool; w_skipped : nat; w_visited : nat; w_out : list (str * str) (* yielded, oldest first *) }.

Section WM.
  Variable listing : str -> option (list str * list str).   (* os.walk triple of a directory: (dirs, nondirs) *)
  Variable islink : str -> bool.
  Variable followlinks : bool.
  (* (result, kill requested while the hooks of this entry ran) *)
  Variable vfolder : str -> str -> bool * bool.
  Variable vfile : str -> str -> fres * bool.
  Variable match_kill : str -> str -> bool.          (* kill() called from on_match *)
  Variable skip_kill : str -> str -> bool.           (* kill() called from on_skip / on_error *)

  Definition set_abort (st : wst) (k : bool) : wst :=
    {| w_abort := w_abort st || k; w_skipped := w_skipped st; w_visited := w_visited st; w_out := w_out st |}.

  (* `for name in dirs[:]` : returns the pruned dirs list *)
  Fixpoint dirs_loop (base : str) (ds : list str) (st : wst) : list str * wst :=
    match ds with
    | [] => ([], st)
    | name :: ds' =>
      let '(valid, k) := vfolder base name in
      let st1 := set_abort st k in
      if w_abort st1 then ((if valid then [name] else []) ++ ds', st1)       (* break: the rest is left as it is *)
      else let '(kept, st2) := dirs_loop base ds' st1 in ((if valid then name :: kept else kept), st2)
    end.

  (* `for name in files` *)
  Fixpoint files_loop (base : str) (fs : list str) (st : wst) : wst :=
    match fs with
    | [] => st
    | name :: fs' =>
      let '(r, k1) := vfile base name in
      let st1 := set_abort st k1 in
      let st2 :=
        match r with
        | FValid =>
            set_abort {| w_abort := w_abort st1; w_skipped := w_skipped st1; w_visited := S (w_visited st1);
                         w_out := w_out st1 ++ [(base, name)] |} (match_kill base name)
        | _ =>
            set_abort {| w_abort := w_abort st1; w_skipped := S (w_skipped st1); w_visited := S (w_visited st1);
                         w_out := w_out st1 |} (skip_kill base name)
        end in
      if w_abort st2 then st2 else files_loop base fs' st2
    end.

  (* os.walk(top-down) interleaved with the loop body of _walk *)
  Fixpoint walk (fuel : nat) (base : str) (st : wst) : wst :=
    match fuel with
    | O => st
    | S f =>
      match listing base with
      | None => st
      | Some (dirs, files) =>
        if w_abort st then st                                  (* `if self.is_aborted(): break` *)
        else
          let '(kept, st1) := dirs_loop base dirs st in
          let st2 := if w_abort st1 then st1 else files_loop base files st1 in   (* `if files and not self.is_aborted()` *)
          fold_left (fun s d =>
                       if w_abort s then s
                       else if followlinks || negb (islink (pjoin base d)) then walk f (pjoin base d) s else s)
                    kept st2
      end
    end.

  (* imatch(): on_reset, skipped := 0, then _walk; the abort flag persists between runs until reset() *)
  Definition imatch (fuel : nat) (root : str) (aborted : bool) : wst :=
    walk fuel root {| w_abort := aborted; w_skipped := 0; w_visited := 0; w_out := [] |}.
End WM.
