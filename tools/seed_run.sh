#!/bin/bash
# usage: seed_run.sh <seed-id> <CHECK-ID>...   applies seeded/<id>/patch.diff to /repo, runs the checks, reverts
sid=$1; shift
cd /verif
git -C /repo apply /verif/seeded/$sid/patch.diff || { echo "patch does not apply"; exit 2; }
for c in "$@"; do
  /venv/bin/python tools/check.py $c --tier quick 2>&1 | grep -v "^WARNING" | tail -${TAILN:-6}
  echo "== $sid $c rc=${PIPESTATUS[0]}"
done
git -C /repo checkout -- .
git -C /repo status --short | head -3
