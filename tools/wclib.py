"""Shared helpers for the checks: model process, string codec, implementation access."""
import os
import sys
import subprocess
import itertools
import random

VERIF = os.path.dirname(os.path.dirname(os.path.abspath(__file__)))
REPO = os.environ.get('WCMATCH_REPO', '/repo')
MODEL_BIN = os.environ.get('WCMODEL_BIN') or os.path.join(VERIF, 'driver', 'wcmodel')


def import_impl():
    """Import wcmatch from REPO (never from site-packages)."""
    if REPO not in sys.path:
        sys.path.insert(0, REPO)
    for m in list(sys.modules):
        if m == 'wcmatch' or m.startswith('wcmatch.'):
            f = getattr(sys.modules[m], '__file__', '') or ''
            if not f.startswith(REPO):
                del sys.modules[m]
    import wcmatch
    assert wcmatch.__file__.startswith(REPO + '/'), wcmatch.__file__
    return wcmatch


def enc(s):
    """str/bytes -> wire form ('.'-separated hex code points, '-' = empty)."""
    if isinstance(s, bytes):
        cps = list(s)
    else:
        cps = [ord(c) for c in s]
    return '.'.join('%x' % c for c in cps) if cps else '-'


def dec(w, as_bytes=False):
    if w == '-':
        cps = []
    else:
        cps = [int(h, 16) for h in w.split('.')]
    return bytes(cps) if as_bytes else ''.join(chr(c) for c in cps)


class Model:
    """Batch interface to the extracted model: send all requests, read all replies."""

    def __init__(self, binary=MODEL_BIN):
        self.binary = binary

    def run(self, requests, nproc=1):
        if not requests:
            return []
        if nproc <= 1 or len(requests) < 2000:
            p = subprocess.run([self.binary], input='\n'.join(requests) + '\n', capture_output=True, text=True)
            out = p.stdout.split('\n')
            if out and out[-1] == '':
                out.pop()
            if len(out) != len(requests):
                raise RuntimeError('model produced %d replies for %d requests (stderr: %s)' % (
                    len(out), len(requests), p.stderr[-500:]))
            return out
        chunk = (len(requests) + nproc - 1) // nproc
        procs = []
        for i in range(0, len(requests), chunk):
            part = requests[i:i + chunk]
            pr = subprocess.Popen([self.binary], stdin=subprocess.PIPE, stdout=subprocess.PIPE, text=True)
            procs.append((pr, part))
        # feed & collect (each in a thread to avoid pipe deadlock)
        import threading
        results = [None] * len(procs)

        def work(k):
            pr, part = procs[k]
            o, _ = pr.communicate('\n'.join(part) + '\n')
            lines = o.split('\n')
            if lines and lines[-1] == '':
                lines.pop()
            results[k] = lines
        ths = [threading.Thread(target=work, args=(k,)) for k in range(len(procs))]
        for t in ths:
            t.start()
        for t in ths:
            t.join()
        out = []
        for k, (pr, part) in enumerate(procs):
            if len(results[k]) != len(part):
                raise RuntimeError('model shard %d produced %d replies for %d requests' % (k, len(results[k]), len(part)))
            out.extend(results[k])
        return out


def strings_upto(alphabet, maxlen):
    for n in range(0, maxlen + 1):
        for t in itertools.product(alphabet, repeat=n):
            yield ''.join(t)


def seeded_rng(tag=''):
    seed = int(os.environ.get('VERIF_SEED', '0') or 0)
    return random.Random('%d/%s' % (seed, tag)), seed
