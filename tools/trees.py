"""Directory-tree generator and file-system recorder for the walker checks.

Trees are created NEST levels deep inside a private scratch directory so that patterns containing `..` cannot walk
out of it (the upper levels contain nothing but the next level)."""
import os
import shutil
import tempfile

NEST = 3


class Tree:
    def __init__(self, spec):
        """spec: list of (relative path, kind, target) ; kind in 'f' file, 'd' dir, 'l' symlink (target text)."""
        self.spec = spec
        self.base = tempfile.mkdtemp(prefix='wctree_')
        self.root = self.base
        for i in range(NEST):
            self.root = os.path.join(self.root, 'n%d' % i)
        os.makedirs(self.root)
        for rel, kind, target in spec:
            p = os.path.join(self.root, rel)
            os.makedirs(os.path.dirname(p), exist_ok=True)
            if kind == 'd':
                os.makedirs(p, exist_ok=True)
            elif kind == 'f':
                if not os.path.lexists(p):
                    open(p, 'w').close()
            elif kind == 'l':
                if not os.path.lexists(p):
                    os.symlink(target, p)

    def entries(self):
        """every entry of the tree as a root-relative path (not following links)"""
        out = []
        for dp, dns, fns in os.walk(self.root, followlinks=False):
            for n in dns + fns:
                out.append(os.path.relpath(os.path.join(dp, n), self.root))
        return sorted(out)

    def entries_follow(self, maxdepth=4):
        """entries reachable also through symlinked directories, up to a depth (paths as a user could write them)"""
        out = set()

        def rec(rel, depth):
            p = os.path.join(self.root, rel) if rel else self.root
            try:
                names = os.listdir(p)
            except OSError:
                return
            for n in names:
                r = (rel + '/' + n) if rel else n
                out.add(r)
                if depth < maxdepth and os.path.isdir(os.path.join(self.root, r)):
                    rec(r, depth + 1)
        rec('', 1)
        return sorted(out)

    def cleanup(self):
        shutil.rmtree(self.base, ignore_errors=True)

    def __enter__(self):
        return self

    def __exit__(self, *a):
        self.cleanup()


def random_spec(rng, size=10, links=True, hidden=True, case=False, cycles=True):
    names = ['a', 'b', 'ab', 'c', 'a.txt', 'b.py', 'x']
    if hidden:
        names += ['.h', '.a']
    if case:
        names += ['A', 'Ab']
    dirs = ['']
    spec = []
    used = set()
    for _ in range(size):
        parent = rng.choice(dirs)
        if parent.count('/') >= 2 and parent:
            parent = rng.choice(dirs[:3])
        n = rng.choice(names)
        rel = (parent + '/' + n) if parent else n
        if rel in used:
            continue
        used.add(rel)
        r = rng.random()
        if r < 0.40:
            spec.append((rel, 'd', None))
            dirs.append(rel)
        elif r < 0.80 or not links:
            spec.append((rel, 'f', None))
        else:
            k = rng.random()
            depth = rel.count('/')
            if k < 0.35 and len(dirs) > 1:
                tgt = rng.choice(dirs[1:])
                target = '../' * depth + tgt                     # link to a directory (maybe a sibling / descendant)
            elif k < 0.55 and cycles:
                target = '../' * depth + (parent.split('/')[0] if parent else '.') if depth else '.'   # to an ancestor: cycle
                if not depth:
                    target = '.'
            elif k < 0.8:
                files = [s for s in spec if s[1] == 'f']
                target = ('../' * depth + rng.choice(files)[0]) if files else 'nowhere'
            elif k < 0.9:
                target = 'nowhere'                               # dangling
            else:
                target = n                                       # points at itself: ELOOP
            spec.append((rel, 'l', target))
    return spec


class FSRecorder:
    """Wraps os.scandir / os.path.lexists while the implementation runs; records answers keyed root-relative."""

    def __init__(self, root):
        self.root = root
        self.scandirs = {}     # key -> None (OSError) | list of (name, is_dir ('E' if raised), is_symlink)
        self.lexists = {}
        self.scandir_calls = []

    def key(self, p):
        if isinstance(p, bytes):
            p = p.decode('latin-1')
        if p == self.root:
            return ''
        if p.startswith(self.root + '/'):
            return p[len(self.root) + 1:]
        return p

    def __enter__(self):
        import os as _os
        self._os = _os
        self._scandir = _os.scandir
        self._lexists = _os.path.lexists
        rec = self

        class Scan:
            def __init__(self, ents):
                self.ents = ents

            def __enter__(self):
                return iter(self.ents)

            def __exit__(self, *a):
                return False

            def __iter__(self):
                return iter(self.ents)

            def close(self):
                pass

        def scandir(path='.'):
            k = rec.key(path)
            rec.scandir_calls.append(k)
            try:
                with rec._scandir(path) as it:
                    ents = list(it)
            except OSError:
                rec.scandirs[k] = None
                raise
            row = []
            for f in ents:
                try:
                    d = f.is_dir()
                except OSError:
                    d = 'E'
                nm = f.name.decode('latin-1') if isinstance(f.name, bytes) else f.name
                row.append((nm, d, f.is_symlink()))
            rec.scandirs[k] = row
            return Scan(ents)

        def lexists(path):
            r = rec._lexists(path)
            rec.lexists[rec.key(path)] = r
            return r
        _os.scandir = scandir
        _os.path.lexists = lexists
        return self

    def __exit__(self, *a):
        self._os.scandir = self._scandir
        self._os.path.lexists = self._lexists


DESIGNED = [
    [('real', 'd', None), ('real/x.txt', 'f', None), ('real/sub', 'd', None), ('real/sub/y.txt', 'f', None), ('vis', 'l', 'real'),
     ('.link', 'l', 'real'), ('f', 'f', None), ('lf', 'l', 'f'), ('dang', 'l', 'nowhere'), ('.hf', 'f', None)],
    [('data', 'd', None), ('data/one.txt', 'f', None), ('DATA', 'd', None), ('DATA/two.txt', 'f', None), ('other', 'd', None),
     ('other/three.txt', 'f', None), ('a', 'd', None), ('a/x', 'f', None), ('A', 'd', None), ('A/y', 'f', None), ('ab', 'f', None), ('Ab', 'f', None)],
    [('sub', 'd', None), ('a', 'd', None), ('a/sub', 'd', None), ('a/b', 'd', None), ('a/b/sub', 'd', None), ('c', 'd', None), ('c/sub', 'f', None),
     ('.hd', 'd', None), ('.hd/sub', 'd', None), ('top.txt', 'f', None), ('a/b/sub/deep.txt', 'f', None)],
    [('d', 'd', None), ('d/up', 'l', '..'), ('d/f', 'f', None), ('loop', 'l', 'loop'), ('e', 'd', None), ('e/side', 'l', '../d'), ('e/g', 'f', None)],
    [('p1', 'd', None), ('p1/x', 'd', None), ('p1/x/f', 'f', None), ('p1/lnk', 'l', '../outside'), ('p2', 'd', None), ('p2/x', 'd', None), ('p2/x/f', 'f', None),
     ('p2/lnk', 'l', '../outside'), ('outside', 'd', None), ('outside/x', 'd', None), ('outside/x/secret', 'f', None)],
    [('p', 'd', None), ('p/a', 'd', None), ('real', 'd', None), ('real/x', 'f', None), ('real/r', 'd', None), ('real/r/x', 'f', None),
     ('p/a/q', 'l', '../../real'), ('p/a/d', 'd', None), ('p/a/d/x', 'f', None)],
    # names that are harmless on a Unix file system but special somewhere in the library: a backslash at the end of a file
    # name (a separator under Windows rules only), a line feed inside a directory name, pattern metacharacters
    [('e\\', 'f', None), ('w', 'd', None), ('w/a\\', 'f', None), ('w/a\\.', 'f', None), ('nl\nd', 'd', None), ('nl\nd/f', 'f', None),
     ('@(a', 'd', None), ('@(a/[b', 'f', None), ('x|y', 'f', None), ('plain', 'f', None)],
]
# names that END in a line feed (`$` matches before it, `\Z` and fullmatch do not), beside their twins without it; kept out of
# DESIGNED because `**` and the `.`/`..` guards have known findings on such names (C02-globstar-div-newline, C02-dotdir-guard-newline)
NEWLINE_TREE = [('b', 'f', None), ('b\n', 'f', None), ('c\n', 'f', None), ('d', 'd', None), ('d/e', 'f', None), ('d\n', 'd', None), ('d\n/e', 'f', None),
                ('d\n/e\n', 'f', None), ('\n', 'f', None), ('sub', 'd', None), ('sub/x\n', 'f', None), ('sub/x', 'f', None)]
