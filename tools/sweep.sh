#!/bin/bash
# usage: sweep.sh <seed>... ; runs every check (quick) per seed, prints the failing ones
cd /verif
for sd in "$@"; do
  for c in C01 C02 C03 C04 C05 C06 C07 C08 C09 C10 C11 C12 C13 C14 C15 C16 C17 C18 C19 C20; do
    out=$(VERIF_SEED=$sd /venv/bin/python tools/check.py $c --tier ${TIER:-quick} 2>&1 | grep -v "^WARNING" | tail -4)
    rc=$?
    echo "$out" | grep -q " ok tier" || { echo "=== seed $sd $c"; echo "$out"; }
  done
  echo "seed $sd done"
done
