import sys, os, itertools, time
sys.path.insert(0, os.path.dirname(os.path.abspath(__file__)))
from wclib import *
wc = import_impl()
from wcmatch import _wcparse as W
toks = sys.argv[1].split(' ')
maxn = int(sys.argv[2])
flagsets = [int(x, 0) for x in sys.argv[3].split(',')]
pats = sorted(set(''.join(t) for n in range(maxn + 1) for t in itertools.product(toks, repeat=n)))
m = Model()
tot = 0
for fl in flagsets:
    for isb in (0, 1):
        reqs = ['wcparse %d %d %s' % (fl, isb, enc(p)) for p in pats]
        outs = m.run(reqs, nproc=16)
        nb = 0
        for p, o in zip(pats, outs):
            try:
                pp = p.encode('latin-1') if isb else p
                exp = 'ok ' + enc(W.WcParse(pp, fl).parse())
            except ValueError:
                exp = 'valueerror'
            except Exception as e:
                exp = 'EXC ' + type(e).__name__
            if o != exp:
                nb += 1
                if nb <= 4:
                    print('DIFF flags=%#x bytes=%d pat=%r\n   impl=%s\n  model=%s' % (fl, isb, p, dec(exp[3:]) if exp.startswith('ok ') else exp, dec(o[3:]) if o.startswith('ok ') else o))
        print('flags=%#x bytes=%d: %d patterns, %d diffs' % (fl, isb, len(pats), nb))
        tot += nb
sys.exit(1 if tot else 0)
