"""Generators of pattern ASTs in the wire format understood by driver/main.ml (Spec.v ASTs).

 tok  := l<hex> | e<hex> | s | q | b<0|1>[item,...] | x<K>(seq;seq;...)
 item := c<hex> | r<hex>-<hex> | p<name>
 seq  := tok.tok....   ('' = empty)
 ppat := (R|r):seg/seg/...:(T|t)     seg := g | G | seq
"""
import itertools
import random

LITS = 'ab.'
BRACKETS = ['b0[c61,c62]', 'b1[c61]', 'b0[r61-63]', 'b0[palpha]', 'b0[c2e]', 'b1[c2e]', 'b0[pdigit,c5f]',
            'b1[r30-39]', 'b0[c2d,c61]', 'b0[ppunct]', 'b0[r2b-30]', 'b0[pdigit,r61-66]', 'b1[pdigit,c5f,r61-66]',
            'b0[r61-63,palpha]', 'b0[pupper,c2e,r61-62]', 'b0[c5d,c61]', 'b1[c5d]', 'b0[pspace,pxdigit]',
            'b0[r61-62,r78-7a]', 'b0[pword,c2d]']


def lit(c):
    return 'l%x' % ord(c)


def esc(c):
    return 'e%x' % ord(c)


FLAT_TOKENS = [lit('a'), lit('b'), lit('.'), esc('*'), esc('a'), esc('.'), 's', 'q'] + BRACKETS[:6]


def flat_seqs(maxlen, tokens=None):
    tokens = tokens or FLAT_TOKENS
    for n in range(1, maxlen + 1):
        for t in itertools.product(tokens, repeat=n):
            # the parser collapses consecutive stars; `**` is the same language, keep it (cheap)
            yield list(t)


def seq_str(toks):
    return '.'.join(toks) if toks else '-'


def chars_of(ast):
    """literal code points mentioned in an AST wire string"""
    import re
    cs = set()
    for m in re.finditer(r'[lec]([0-9a-f]+)', ast):
        cs.add(int(m.group(1), 16))
    for m in re.finditer(r'r([0-9a-f]+)-([0-9a-f]+)', ast):
        cs.add(int(m.group(1), 16))
        cs.add(int(m.group(2), 16))
    return cs


class Gen:
    def __init__(self, rng, lits=LITS, path=False):
        self.rng = rng
        self.lits = lits
        self.path = path

    def token(self, depth, allow_neg=True, top=False):
        r = self.rng.random()
        if r < 0.28:
            return lit(self.rng.choice(self.lits))
        if r < 0.36:
            return esc(self.rng.choice('a*.?[(!'))
        if r < 0.50:
            return 's'
        if r < 0.60:
            return 'q'
        if r < 0.70:
            return self.rng.choice(BRACKETS)
        if r < 0.76:
            return random_bracket(self.rng)
        if depth <= 0:
            return lit(self.rng.choice(self.lits))
        kinds = 'QSPA' + ('N' if (allow_neg and top) else '')
        k = self.rng.choice(kinds)
        nalt = self.rng.choice([1, 1, 2, 2, 3])
        alts = []
        for _ in range(nalt):
            n = self.rng.choice([1, 1, 2, 2, 3]) if k != 'N' else self.rng.choice([1, 1, 2])
            toks = []
            for _ in range(n):
                t = self.token(depth - 1, allow_neg=False)
                if toks and toks[-1] == 's' and t.startswith('xS'):
                    toks.append(lit('a'))     # `*` directly before `*(` would print `**(` (known C01 finding, tested separately)
                toks.append(t)
            alts.append('.'.join(toks))
        return 'x%s(%s)' % (k, ';'.join(alts))

    def seq(self, maxlen=4, depth=2):
        n = self.rng.randint(1, maxlen)
        toks = []
        for i in range(n):
            t = self.token(depth, top=True)
            if t.startswith('xN'):
                # !(list) is specified standing alone or followed only by literal text
                toks.append(t)
                for _ in range(self.rng.randint(0, 2)):
                    toks.append(lit(self.rng.choice(self.lits)))
                break
            toks.append(t)
        # a `*` directly followed by an extended group `*(`/`?(`... would re-tokenise: avoid s followed by x? where
        # the printed form would read differently (`*` then `?(` prints `*?(`: fine; `s` then `xS` prints `**(`)
        out = []
        for t in toks:
            if out and out[-1] == 's' and t == 's':
                continue    # `**` would read as a globstar segment in path mode; same language as `*`
            if out and out[-1] == 's' and t.startswith('xS'):
                out.append(lit('a'))
            # a literal '!', '?', '*', '+', '@' before '(' cannot arise: literals are letters/dot only
            out.append(t)
        return out

    def ppat(self, maxsegs=3, globstar=True, long_=False):
        n = self.rng.randint(1, maxsegs)
        segs = []
        for i in range(n):
            r = self.rng.random()
            if globstar and r < 0.25:
                segs.append('G' if (long_ and self.rng.random() < 0.4) else 'g')
            else:
                segs.append('.'.join(self.seq(maxlen=3, depth=1)))
        root = 'R' if self.rng.random() < 0.12 else 'r'
        trail = 'T' if self.rng.random() < 0.25 else 't'
        return '%s:%s:%s' % (root, '/'.join(segs), trail)


def random_bracket(rng):
    """A random bracket expression AST (wire) mixing classes, ranges and characters."""
    items = []
    for _ in range(rng.randint(1, 4)):
        r = rng.random()
        if r < 0.35:
            items.append('p' + rng.choice(['alnum', 'alpha', 'ascii', 'blank', 'cntrl', 'digit', 'graph', 'lower',
                                           'print', 'punct', 'space', 'upper', 'word', 'xdigit']))
        elif r < 0.7:
            lo = rng.choice('aAbx0+_')
            hi = chr(min(0x7a, ord(lo) + rng.randint(0, 6)))
            if hi == '/':
                hi = '0'      # a written `/` would end the segment in path mode
            items.append('r%x-%x' % (ord(lo), ord(hi)))
        else:
            items.append('c%x' % ord(rng.choice('abxz._0')))
    # a range item directly after a class prints `[:cls:]a-f` (fine); a char '-' only first
    return 'b%d[%s]' % (rng.randint(0, 1), ','.join(items))


def names_upto(alphabet, maxlen, minlen=1):
    for n in range(minlen, maxlen + 1):
        for t in itertools.product(alphabet, repeat=n):
            yield ''.join(t)
