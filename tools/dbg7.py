import sys, os, random, json, collections
sys.path.insert(0, os.path.dirname(os.path.abspath(__file__)))
from corr import *
import trees, astgen, specwalk
import_impl()
from wcmatch import glob as Gm
rng = random.Random(int(sys.argv[1]) if len(sys.argv) > 1 else 1)
g = astgen.Gen(rng, lits='abx.', path=True)
m = Model()
tot = 0
cls = collections.Counter()
for t in range(int(sys.argv[2]) if len(sys.argv) > 2 else 10):
    spec = trees.random_spec(rng, size=rng.randint(5, 14), cycles=False)
    with trees.Tree(spec) as T:
        pps = sorted(set(g.ppat(long_=True) for _ in range(40)))
        pps = [p for p in pps if p.startswith('r:')]
        outs = m.run(['pden 0 0 0 1 0 0 %s []' % p for p in pps])
        for pp, o in zip(pps, outs):
            pattern = dec(o.split(' ')[0])
            for cfgs in (dict(), dict(dot=True), dict(globstar=False), dict(scandotdir=True), dict(matchbase=True), dict(nodir=True), dict(globstarlong=True), dict(follow=True)):
                c = dict(dot=False, globstar=True, globstarlong=False, follow=False, scandotdir=False, matchbase=False, nodir=False); c.update(cfgs)
                fv = (Gm.DOTGLOB if c['dot'] else 0) | (Gm.GLOBSTAR if c['globstar'] else 0) | (Gm.GLOBSTARLONG if c['globstarlong'] else 0) | (Gm.FOLLOW if c['follow'] else 0) | \
                     (Gm.SCANDOTDIR if c['scandotdir'] else 0) | (Gm.MATCHBASE if c['matchbase'] else 0) | (Gm.NODIR if c['nodir'] else 0) | (Gm.EXTGLOB if 'x' in pp else 0)
                sw = specwalk.SpecWalker(T.root, **c)
                lb, ub = sw.glob(pp)
                got = set(x.rstrip('/') for x in Gm.glob(pattern, flags=fv, root_dir=T.root))
                tot += 1
                extra = got - ub
                gf = any(sg.startswith('x') for sg in pp.split(':')[1].split('/'))
                sw_ = any(len(t)>=2 and t[0]=='s' and t[1][0] in 'qbx' for t in [sg.split('.') for sg in pp.split(':')[1].split('/')])
                def hid(p): return any(c.startswith('.') for c in p.split('/'))
                if extra and (gf or sw_) and all(hid(x) for x in extra): continue
                if not (lb <= got <= ub):
                    cls[(pattern, corr_flag := flag_names(fv))] += 1
                    if len(cls) <= 25:
                        print(repr(pattern), flag_names(fv), 'missing', sorted(lb - got)[:4], 'extra', sorted(got - ub)[:4], '| tree', [s for s in spec][:12])
print('total', tot, 'bad', len(cls))
