#!/usr/bin/env python3
"""Entry point of every registered check:  tools/check.py Cnn [--tier quick|thorough] [--replay file]

Run-time protocol (DESIGN.md 2.3):
 1. regenerate coq/Gen from /repo (translator), rebuild what depends on it (flock-protected make)
 2. compile coq/Properties/Cnn.v (re-checks the property theorems, captures Print Assumptions)
 3. correspondence: extracted model vs implementation on the same inputs
 4. replay known findings
 5. search the implementation against the executable spec
 6. verdict, evidence/Cnn.json, VIOLATION / KNOWN-FINDING lines
"""
import argparse
import fcntl
import hashlib
import importlib
import json
import os
import re
import subprocess
import sys
import time

TOOLS = os.path.dirname(os.path.abspath(__file__))
VERIF = os.path.dirname(TOOLS)
sys.path.insert(0, TOOLS)
os.environ.setdefault('PYTHONHASHSEED', '0')

COQ = os.path.join(VERIF, 'coq')
TRUSTED_BASE = [
    'Coq 8.16.1 kernel (coqc), including vm_compute conversion; native_compute not used',
    'tools/py2v.py translator (Python ast -> coq/Gen/*.v) and the Python ast module',
    'Coq extraction (ExtrOcamlBasic only, no Extract Constant/Inductive of ours), OCaml 4.13.1, driver/main.ml',
    'correspondence harness tools/corr*.py (sampling): hand-written models are validated by it, not verified against the Python source',
    'CPython re semantics as read through RegexSem.v; bracex, os.* and unicodedata as oracles',
    'platform parameters fixed to Linux (plat_windows=false, os_nt=false, fs_case_sensitive=true)',
]


class Ctx:
    def __init__(self, pid, tier, seed):
        self.pid, self.tier, self.seed = pid, tier, seed
        self.t0 = time.time()
        self.violations = []      # dicts: {kind, found_input, replay(dict)}
        self.known_lines = []
        self.coverage = {'obligations': 0, 'discharged': 0, 'checker_cmd': '', 'trusted_base': list(TRUSTED_BASE),
                         'evaluations': 0, 'distinct_nontrivial': 0, 'rule': '', 'samples': [], 'theorems': [],
                         'axioms': [], 'correspondence': {}, 'search': {}}
        self.assumptions = []
        self.build = None
        self.known = load_known().get(pid, [])
        self.quick = tier == 'quick'

    # ---- proofs -------------------------------------------------------------------------------
    def proof(self, relfile):
        """Compile a Properties file; every Theorem in it is an obligation."""
        path = os.path.join(COQ, relfile)
        src = open(path).read()
        names = re.findall(r'^\s*(?:Theorem|Lemma|Corollary|Example)\s+([A-Za-z0-9_\']+)', src, re.M)
        self.coverage['obligations'] += len(names)
        cmd = ['coqc', '-q', '-R', '.', 'WC', relfile]
        self.coverage['checker_cmd'] = 'make -C coq (full .vo build) && cd coq && ' + ' '.join(cmd)
        deps_ok = self.build['ok'] if self.build else True
        p = subprocess.run(['timeout', '600'] + cmd, cwd=COQ, capture_output=True, text=True)
        out = p.stdout + p.stderr
        if p.returncode != 0:
            self.coverage['theorems'] += [{'name': n, 'file': relfile, 'status': 'NOT CHECKED'} for n in names]
            self.violations.append({'kind': 'proof-broken', 'found_input': False,
                                    'replay': {'theorem_file': relfile, 'theorems': names,
                                               'coqc_output': out[-3000:],
                                               'build_failures': (self.build or {}).get('failures', [])}})
            return False
        self.coverage['discharged'] += len(names)
        self.coverage['theorems'] += [{'name': n, 'file': relfile, 'status': 'checked'} for n in names]
        ax = set()
        for blk in re.findall(r'Axioms:\n((?:.+\n)+?)(?=\S|\Z)', out):
            for line in blk.split('\n'):
                m = re.match(r'^([A-Za-z0-9_.\']+)\s*:', line)
                if m:
                    ax.add(m.group(1))
        closed = out.count('Closed under the global context')
        self.coverage['axioms'] = sorted(ax)
        self.coverage['print_assumptions_closed'] = closed
        return True

    # ---- correspondence ------------------------------------------------------------------------
    def corr(self, name, res):
        c = self.coverage
        c['evaluations'] += res['evaluations']
        c['distinct_nontrivial'] += res['distinct_nontrivial']
        c['correspondence'][name] = {k: res[k] for k in ('evaluations', 'distinct_nontrivial', 'n_disagreements',
                                                         'distribution')}
        for s in res['samples'][:3]:
            if len(c['samples']) < 12:
                c['samples'].append({'corr': name, 'case': s})
        if res['n_disagreements']:
            self.violations.append({'kind': 'correspondence-broken', 'found_input': False,
                                    'replay': {'correspondence': name, 'n_disagreements': res['n_disagreements'],
                                               'first': res['disagreements'][:5],
                                               # (pattern, flags, name) on which the regex now produced and the regex of the
                                               # verified model behave differently under `re` - the place to look
                                               'behaviour_differs_on': res.get('semantic_examples', [])[:8]}})
        return res['n_disagreements'] == 0

    def counted(self, name, evals, nontrivial, samples=(), extra=None):
        c = self.coverage
        c['evaluations'] += evals
        c['distinct_nontrivial'] += nontrivial
        c['search'][name] = dict({'evaluations': evals, 'distinct_nontrivial': nontrivial}, **(extra or {}))
        for s in list(samples)[:3]:
            if len(c['samples']) < 12:
                c['samples'].append({'search': name, 'case': s})

    # ---- violations -----------------------------------------------------------------------------
    def counterexample(self, what, replay):
        """A concrete input on which the implementation contradicts the spec."""
        self.violations.append({'kind': 'counterexample', 'found_input': True, 'replay': dict(replay, what=what)})

    def known_finding(self, kid, text):
        self.known_lines.append('KNOWN-FINDING: property=%s %s: %s' % (self.pid, kid, text))

    def is_known(self, pred):
        """pred(entry) -> bool over the committed known-finding entries (kind == 'finding') of this property."""
        for e in self.known:
            if e.get('kind') == 'finding' and pred(e):
                return e
        return None

    # ---- finish ------------------------------------------------------------------------------------
    def finish(self, rule, level_note=None):
        c = self.coverage
        c['rule'] = rule
        if not c['samples']:
            c['samples'] = [{'note': 'no sample recorded'}]
        real = [v for v in self.violations if v['found_input']]
        broken = [v for v in self.violations if not v['found_input']]
        lines = []
        os.makedirs(os.path.join(VERIF, 'replay'), exist_ok=True)

        def write(v, suffix):
            body = json.dumps(dict(v['replay'], property=self.pid, kind=v['kind'], seed=self.seed), indent=1,
                              default=repr, sort_keys=True)
            h = hashlib.sha1(body.encode()).hexdigest()[:12]
            path = os.path.join(VERIF, 'replay', '%s-%s.json' % (self.pid, h))
            with open(path, 'w') as fh:
                fh.write(body)
            lines.append('VIOLATION property=%s replay=%s%s' % (self.pid, path, suffix))
        if real:
            # at most five replays, different kinds of violation first (one per distinct beginning of the description)
            firsts, seen_kinds = [], set()
            for v in real:
                k = str(v['replay'].get('what', ''))[:32]
                if k not in seen_kinds:
                    seen_kinds.add(k)
                    firsts.append(v)
            chosen = firsts[:5] + [v for v in real if v not in firsts][:max(0, 5 - len(firsts))]
            for v in chosen[:5]:
                write(v, '')
        elif broken:
            # the tie or a proof obligation broke and the search found no failing input
            merged = {'kind': 'no-failing-input-found', 'found_input': False,
                      'replay': {'broken': [dict(b['replay'], kind=b['kind']) for b in broken]}}
            merged['kind'] = broken[0]['kind']
            write(merged, ' no-failing-input-found')
        ev = {'property_id': self.pid, 'tier': self.tier, 'seed': self.seed, 'level': 'proof', 'coverage': c,
              'assumptions': self.assumptions + (self.build or {}).get('notes', []),
              'wall_s': round(time.time() - self.t0, 2), 'violations': len(real) + (1 if (broken and not real) else 0)}
        c['known_findings_replayed'] = len(self.known_lines)
        c['gen_changed'] = (self.build or {}).get('changed', [])
        os.makedirs(os.path.join(VERIF, 'evidence'), exist_ok=True)
        with open(os.path.join(VERIF, 'evidence', self.pid + '.json'), 'w') as fh:
            json.dump(ev, fh, indent=1, default=repr)
        for l in self.known_lines:
            print(l)
        for l in lines:
            print(l)
        print('%s %s tier=%s obligations=%d/%d evaluations=%d distinct_nontrivial=%d wall=%.1fs' % (
            self.pid, 'FAIL' if lines else 'ok', self.tier, c['discharged'], c['obligations'], c['evaluations'],
            c['distinct_nontrivial'], time.time() - self.t0))
        return 1 if lines else 0


def load_known():
    path = os.path.join(VERIF, 'known_findings.json')
    if not os.path.exists(path):
        return {}
    data = json.load(open(path))
    out = {}
    for e in data.get('findings', []):
        for p in [e['property']] + list(e.get('also', [])):
            out.setdefault(p, []).append(e)
    return out


def ensure_built():
    """Translator + make, under a lock.  Returns dict(ok, changed, failures, notes)."""
    info = {'ok': True, 'changed': [], 'failures': [], 'notes': []}
    lock = open(os.path.join(VERIF, '.build.lock'), 'w')
    fcntl.flock(lock, fcntl.LOCK_EX)
    try:
        import py2v
        importlib.reload(py2v)
        try:
            info['changed'] = py2v.generate(os.path.join(COQ, 'Gen'))
        except py2v.TranslationError as e:
            info['ok'] = False
            info['failures'].append({'stage': 'translator', 'error': str(e)})
            info['notes'].append('translator failed: %s (coq/Gen is stale)' % e)
        except SyntaxError as e:
            info['ok'] = False
            info['failures'].append({'stage': 'translator', 'error': 'source does not parse: %s' % e})
        mk, cp = os.path.join(COQ, 'Makefile'), os.path.join(COQ, '_CoqProject')
        if not os.path.exists(mk) or os.path.getmtime(mk) < os.path.getmtime(cp):
            subprocess.run(['coq_makefile', '-f', '_CoqProject', '-o', 'Makefile'], cwd=COQ, capture_output=True)
        p = subprocess.run(['timeout', '1500', 'make', '-k', '-j16'], cwd=COQ, capture_output=True, text=True)
        if p.returncode != 0:
            info['ok'] = False
            out = p.stdout + p.stderr
            for m in re.finditer(r'File "\./([^"]+)", line (\d+)[^\n]*\n((?:.*\n){0,12}?)(?=make|File|COQC|\Z)', out):
                info['failures'].append({'stage': 'coq', 'file': m.group(1), 'line': int(m.group(2)),
                                         'error': m.group(3)[-600:]})
        d = subprocess.run(['timeout', '300', 'make'], cwd=os.path.join(VERIF, 'driver'), capture_output=True, text=True)
        if d.returncode != 0 or not os.path.exists(os.path.join(VERIF, 'driver', 'wcmodel')):
            info['ok'] = False
            info['failures'].append({'stage': 'driver', 'error': (d.stdout + d.stderr)[-800:]})
    finally:
        fcntl.flock(lock, fcntl.LOCK_UN)
        lock.close()
    return info


def dep_closure(target):
    """transitive .vo dependencies of a .vo target, read from coq/.Makefile.d (written by coq_makefile's coqdep run)"""
    deps = {}
    try:
        for line in open(os.path.join(COQ, '.Makefile.d')):
            if ':' not in line:
                continue
            lhs, rhs = line.split(':', 1)
            tg = [t for t in lhs.split() if t.endswith('.vo')]
            if not tg:
                continue
            deps.setdefault(tg[0], set()).update(d for d in rhs.split() if d.endswith('.vo'))
    except OSError:
        return None
    seen, todo = set(), [target]
    while todo:
        t = todo.pop()
        if t in seen:
            continue
        seen.add(t)
        todo.extend(deps.get(t, ()))
    return seen


def relevant_failures(pid, failures):
    """the build failures that concern property pid: translator / driver failures always, a Coq file only when the
    property's statement file or the extraction depends on it; unparsed failures (empty list) count as relevant"""
    if not failures:
        return [{'stage': 'make', 'error': 'the build failed without a located error'}]
    closure = None
    a, b = dep_closure('Properties/%s.vo' % pid), dep_closure('Extract.vo')
    if a is not None and b is not None:
        closure = a | b
    out = []
    for f in failures:
        if f.get('stage') != 'coq' or closure is None or (f.get('file', '')[:-2] + '.vo') in closure:
            out.append(f)
    return out


def main():
    ap = argparse.ArgumentParser()
    ap.add_argument('pid')
    ap.add_argument('--tier', default=os.environ.get('VERIF_TIER', 'quick') or 'quick')
    ap.add_argument('--replay')
    a = ap.parse_args()
    pid = a.pid.upper()
    seed = int(os.environ.get('VERIF_SEED', '0') or 0)
    tier = a.tier if a.tier in ('quick', 'thorough') else 'quick'
    mod = importlib.import_module('props.' + pid.lower())
    if a.replay:
        sys.exit(mod.replay(json.load(open(a.replay))))
    ctx = Ctx(pid, tier, seed)
    ctx.build = ensure_built()
    if not ctx.build['ok']:
        # the tie between model and source (translator / proofs over Gen / extraction) no longer checks - as far as this
        # property is concerned: a Coq file that fails counts only when Properties/<pid>.v or the extracted models depend on it
        rel = relevant_failures(pid, ctx.build['failures'])
        if rel:
            ctx.violations.append({'kind': 'build-broken', 'found_input': False, 'replay': {'build_failures': rel}})
        else:
            ctx.build = dict(ctx.build, ok=True, notes=ctx.build.get('notes', []) + ['build failures outside the dependencies of this property: %s' %
                                                                                  sorted(set(f.get('file', f.get('stage')) for f in ctx.build['failures']))],
                             failures=[])
    try:
        rc = mod.run(ctx)
    except Exception as e:
        # the harness itself fell over (typically: the implementation raised somewhere the harness did not expect).
        # The property is then not shown to hold: report it, naming the exception, instead of dying silently.
        import traceback
        tb = traceback.format_exc()
        sys.stderr.write(tb)
        ctx.violations.append({'kind': 'harness-exception', 'found_input': False,
                               'replay': {'exception': type(e).__name__, 'message': str(e)[:300], 'traceback': tb[-1500:]}})
        rc = ctx.finish('harness exception: %s' % type(e).__name__)
    sys.exit(rc)


if __name__ == '__main__':
    main()
