import sys, os, random, json
sys.path.insert(0, os.path.dirname(os.path.abspath(__file__)))
from corr import *
from wclib import *
import_impl()
pats = list(strings_upto('a|\\[]!(@*/)', 5))
r = corr_wcsplit(pats, [fl('SPLIT'), fl('SPLIT','EXTMATCH'), fl('SPLIT','EXTMATCH','PATHNAME'), fl('SPLIT','FORCEWIN','EXTMATCH'), fl('SPLIT','FORCEWIN','PATHNAME','EXTMATCH')])
print('wcsplit', r['evaluations'], r['distinct_nontrivial'], r['n_disagreements'], json.dumps(r['disagreements'][:3]))
rng = random.Random(1)
toks = ['a','b','*','?','!','-','|','{a,b}','{1..3}','{a,b}{c,d}','x','!(a)','[ab]','/','.', '**']
cases = []
for i in range(4000):
    n = rng.randint(0,3)
    ps = [''.join(rng.choice(toks) for _ in range(rng.randint(0,4))) for _ in range(n)]
    ex = None if rng.random()<0.5 else [''.join(rng.choice(toks) for _ in range(rng.randint(0,3))) for _ in range(rng.randint(0,2))]
    f = 0
    for nm in ['NEGATE','MINUSNEGATE','NEGATEALL','SPLIT','BRACE','EXTMATCH','DOTMATCH','NODIR','PATHNAME','GLOBSTAR','IGNORECASE','REALPATH']:
        if rng.random()<0.4: f |= fl(nm)
    cases.append((rng.randint(0,1), rng.randint(0,1), f, rng.choice([0,1,2,3,4,5,1000,-1]), ps, ex))
r = corr_lists(cases)
print('lists', r['evaluations'], r['distinct_nontrivial'], r['n_disagreements'], r['distribution'])
for d in r['disagreements'][:5]: print(json.dumps(d))
