"""Grammar-guided random pattern *texts* (structured, mostly valid, nested) for the regex-text correspondence.

The bounded-exhaustive strings cover every short token order; these cover the long-range state of the parser
(what an earlier group / segment / bracket leaves behind for a later one): several segments, groups in several
segments, groups inside groups, dots at the start of alternatives, negated groups followed by more text."""

ITEMS_LIT = ['a', 'b', '.', 'c', '.a', '..', '.b']
ITEMS_WILD = ['*', '?', '**', '***', '*?', '?*']
ITEMS_BR = ['[ab]', '[!a]', '[[:alpha:]]', '[.]', '[a-c]', '[+-0]', '[!.]', '[]a]', '[^b]', '[[:punct:]]', '[a/b]', '[!-~]', '[a\\]b]']
ITEMS_ESC = ['\\a', '\\.', '\\*', '\\?', '\\/', '\\[', '\\(', '\\!', '\\|', '\\)', '\\\\']


def item(rng, depth, in_group=False):
    r = rng.random()
    if r < 0.30:
        return rng.choice(ITEMS_LIT)
    if r < 0.44:
        return rng.choice(ITEMS_WILD)
    if r < 0.54:
        return rng.choice(ITEMS_BR)
    if r < 0.60:
        return rng.choice(ITEMS_ESC)
    if r < 0.64 and in_group:
        return '/'
    if depth > 0:
        k = rng.choice('?*+@!!')
        alts = [seq(rng, depth - 1, rng.choice([0, 1, 1, 2, 2, 3]), True) for _ in range(rng.choice([1, 1, 2, 2, 3]))]
        return k + '(' + '|'.join(alts) + ')'
    return rng.choice('ab')


def seq(rng, depth, n, in_group=False):
    return ''.join(item(rng, depth, in_group) for _ in range(n))


def flat(rng, depth=2):
    return seq(rng, depth, rng.randint(1, 4))


def path(rng, depth=2):
    segs = []
    for _ in range(rng.randint(1, 4)):
        r = rng.random()
        if r < 0.22:
            segs.append(rng.choice(['**', '**', '***', '*', '.', '..']))
        else:
            segs.append(seq(rng, depth, rng.randint(1, 3)))
    s = rng.choice(['/', '//', '\\/']) .join(segs) if rng.random() < 0.12 else '/'.join(segs)
    if rng.random() < 0.10:
        s = '/' + s
    if rng.random() < 0.20:
        s += '/'
    return s


def corpus(rng, n, path_share=0.6):
    out = set()
    for _ in range(n):
        out.add(path(rng) if rng.random() < path_share else flat(rng))
    return sorted(out)
