"""debug: mixed `**`/`***` merging on the designed p1/p2/outside tree"""
import sys
sys.path.insert(0, '/verif/tools')
import trees
from wclib import import_impl
import_impl()
from wcmatch import glob as G

with trees.Tree(trees.DESIGNED[4]) as T:
    fl = G.GLOBSTAR | G.GLOBSTARLONG
    for p in ['**/***/**/', '***/**/', '**/***/', '***/', 'p1/***/**/', '**/***/x/', '***/**/x/', '***/**', '**/***', '***/***/', '**/**/', '*/***/**/', '**/*/**/']:
        print(p, sorted(G.glob(p, flags=fl, root_dir=T.root)))
    print(G.translate('**/***/**/', flags=fl))
    print(G.translate('***/**/', flags=fl))
    print(G.globmatch('p1/lnk/x/', '**/***/**/', flags=fl, root_dir=T.root))
    print(G.globmatch('p1/lnk/x/', '**/***/**/', flags=fl | G.REALPATH, root_dir=T.root))
