#!/usr/bin/env python3
"""Verify seeded changes (patch.diff + demo.py) in a scratch worktree of /repo HEAD and file them under /verif/seeded/<id>/.
usage: seed_verify.py <srcdir> <seed-id> <property>"""
import json, os, shutil, subprocess, sys, tempfile
src, sid, prop = sys.argv[1:4]
VERIF = os.path.dirname(os.path.dirname(os.path.abspath(__file__)))
wt = tempfile.mkdtemp(prefix='seedwt_', dir='/tmp')
os.rmdir(wt)
def sh(cmd, **kw):
    return subprocess.run(cmd, shell=True, capture_output=True, text=True, **kw)
r = sh('git -C /repo worktree add --detach %s HEAD' % wt)
meta = {'id': sid, 'property': prop, 'base_commit': sh('git -C /repo rev-parse --short HEAD').stdout.strip()}
try:
    env = dict(os.environ, PYTHONPATH=wt)
    d0 = subprocess.run(['/venv/bin/python', os.path.join(src, 'demo.py')], cwd='/tmp', env=env, capture_output=True, text=True, timeout=600)
    meta['demo_clean_exit'] = d0.returncode
    a = sh('git -C %s apply %s' % (wt, os.path.join(src, 'patch.diff')))
    if a.returncode != 0:
        a = sh('git -C %s apply --3way %s' % (wt, os.path.join(src, 'patch.diff')))
    meta['patch_applies'] = a.returncode == 0
    if a.returncode == 0:
        # regenerate the patch against HEAD so that it applies to /repo as it is now
        patch = sh('git -C %s diff HEAD -- wcmatch' % wt).stdout
        t = subprocess.run('cd %s && /venv/bin/python -m pytest -q -p no:cacheprovider -q 2>&1 | tail -4' % wt, shell=True, env=env, capture_output=True, text=True, timeout=900)
        meta['tests_tail'] = t.stdout.strip().split('\n')[-3:]
        failed = [l for l in t.stdout.split('\n') if l.startswith('FAILED')]
        meta['tests_only_baseline_failures'] = all('case31' in l for l in failed) and len(failed) <= 2 and 'error' not in t.stdout.lower().split('short test summary')[0][-200:]
        d1 = subprocess.run(['/venv/bin/python', os.path.join(src, 'demo.py')], cwd='/tmp', env=env, capture_output=True, text=True, timeout=600)
        meta['demo_patched_exit'] = d1.returncode
        meta['demo_patched_output'] = (d1.stdout + d1.stderr)[-600:]
    ok = meta.get('patch_applies') and meta.get('tests_only_baseline_failures') and meta.get('demo_patched_exit') == 1 and meta['demo_clean_exit'] == 0
    meta['confirmed'] = bool(ok)
    notes = open(os.path.join(src, 'notes.md')).read() if os.path.exists(os.path.join(src, 'notes.md')) else ''
    meta['needs'] = notes[:1500]
    meta['ran'] = ['git worktree add (scratch, /repo HEAD)', 'demo.py on clean tree', 'git apply patch.diff', 'pytest (full suite)', 'demo.py on patched tree']
    if ok:
        dst = os.path.join(VERIF, 'seeded', sid)
        os.makedirs(dst, exist_ok=True)
        open(os.path.join(dst, 'patch.diff'), 'w').write(patch)
        shutil.copy(os.path.join(src, 'demo.py'), os.path.join(dst, 'demo.py'))
        json.dump(meta, open(os.path.join(dst, 'meta.json'), 'w'), indent=1)
    print(sid, 'CONFIRMED' if ok else 'REJECTED', json.dumps({k: meta[k] for k in meta if k not in ('needs',)})[:400])
finally:
    sh('git -C /repo worktree remove --force %s' % wt)
