#!/usr/bin/env python3
"""Evaluate ONE library call in a fresh interpreter (reference for history independence): argv[1] = JSON call
{"api": ..., "pattern": ..., "flags": int, "name": ..., "root": ...}; prints the JSON result."""
import json
import os
import sys
sys.path.insert(0, os.path.dirname(os.path.abspath(__file__)))


def run_call(c):
    from wcmatch import glob as Gm, fnmatch as Fm, pathlib as PLm
    api, p, f, n, root = c['api'], c['pattern'], c['flags'], c.get('name'), c.get('root')
    try:
        if api == 'gtranslate':
            return list(map(list, Gm.translate(p, flags=f)))
        if api == 'globmatch':
            return Gm.globmatch(n, p, flags=f, root_dir=root)
        if api == 'globfilter':
            return Gm.globfilter(n, p, flags=f, root_dir=root)
        if api == 'gcompile':
            return Gm.compile(p, flags=f).match(n, root_dir=root)
        if api == 'glob':
            return sorted(Gm.glob(p, flags=f, root_dir=root))
        if api == 'pmatch':
            old = os.getcwd()
            os.chdir(root)
            try:
                return PLm.Path(n).match(p, flags=f)
            finally:
                os.chdir(old)
        if api == 'pure_match':
            return PLm.PurePosixPath(n).match(p, flags=f)
        if api == 'pure_globmatch':
            return PLm.PurePosixPath(n).globmatch(p, flags=f)
        if api == 'rglob':
            return sorted(str(x.relative_to(root)) for x in PLm.Path(root).rglob(p, flags=f))
        if api == 'ftranslate':
            return list(map(list, Fm.translate(p, flags=f)))
        if api == 'fnmatch':
            return Fm.fnmatch(n, p, flags=f)
    except Exception as e:
        return 'EXC ' + type(e).__name__
    return 'unknown api'


if __name__ == '__main__':
    from wclib import import_impl
    import_impl()
    print(json.dumps(run_call(json.loads(sys.argv[1]))))
