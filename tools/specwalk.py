"""Independent reference for glob(): interpret a pattern AST segment by segment against the real directory contents,
with the C02/C03 meaning of each segment taken from the executable Coq spec (Spec.den via the extracted model).

Returns lower/upper bound sets of root-relative result paths (trailing separators stripped) and the set of
directories the interpretation has to list."""
import os
from wclib import Model, enc, dec


class SpecWalker:
    def __init__(self, root, dot=False, globstar=True, globstarlong=False, follow=False, scandotdir=False, matchbase=False,
                 nodir=False, icase=False):
        self.root = root
        self.dot, self.gs, self.gl, self.follow = dot, globstar or globstarlong, globstarlong, follow and not globstarlong
        self.follow_flag = follow
        self.scandotdir, self.matchbase, self.nodir = scandotdir, matchbase, nodir
        self.icase = icase
        self.model = Model()
        self.cache = {}
        self.listed = set()

    # ---- file system (read directly, independent of wcmatch) ----
    def _p(self, rel):
        return os.path.join(self.root, rel) if rel else self.root

    def listdir(self, rel):
        self.listed.add(rel)
        try:
            return sorted(os.listdir(self._p(rel)))
        except OSError:
            return []

    def isdir(self, rel):
        return os.path.isdir(self._p(rel))

    def islink(self, rel):
        return os.path.islink(self._p(rel))

    def lexists(self, rel):
        return os.path.lexists(self._p(rel))

    # ---- segment matching through the Coq spec ----
    def seg_match(self, seg_ast, names):
        """-> dict name -> (lb, ub)"""
        need = [n for n in names if (seg_ast, n) not in self.cache]
        if need:
            reqs = []
            for lb in (0, 1):
                # `.` and `..` are protected even with DOTGLOB
                plain = [n for n in need if n not in ('.', '..')]
                special = [n for n in need if n in ('.', '..')]
                reqs.append('den %d %d %d %s %s' % (lb, int(self.icase), int(self.dot), seg_ast, ','.join(enc(n) for n in plain) or '[]'))
                reqs.append('den %d %d 0 %s %s' % (lb, int(self.icase), seg_ast, ','.join(enc(n) for n in special) or '[]'))
            outs = self.model.run(reqs)
            plain = [n for n in need if n not in ('.', '..')]
            special = [n for n in need if n in ('.', '..')]

            def bits(o, k):
                parts = o.split(' ')
                return parts[1] if len(parts) > 1 else ''
            ub = dict(zip(plain, bits(outs[0], 0)))
            ub.update(zip(special, bits(outs[1], 0)))
            lbv = dict(zip(plain, bits(outs[2], 0)))
            lbv.update(zip(special, bits(outs[3], 0)))
            for n in need:
                self.cache[(seg_ast, n)] = (lbv.get(n) == '1', ub.get(n) == '1')
        return {n: self.cache[(seg_ast, n)] for n in names}

    # ---- interpretation ----
    def hidden(self, name):
        return (not self.dot) and name.startswith('.')

    def chain_dirs(self, cur, follow_links, depth=0):
        """cur and every directory reachable below it through non-hidden directories, symlinks only if followed"""
        out = [cur]
        if depth > 12:
            return out
        for n in self.listdir(cur):
            if self.hidden(n):
                continue
            child = (cur + '/' + n) if cur else n
            if self.isdir(child) and (follow_links or not self.islink(child)):
                out.extend(self.chain_dirs(child, follow_links, depth + 1))
        return out

    def walk(self, cur, segs, trail, bound):
        """bound: 0 = lower, 1 = upper.  Yields (path, is_dir_like)."""
        if not segs:
            yield cur
            return
        seg, rest = segs[0], segs[1:]
        if seg in ('g', 'G') and ((seg == 'g' and self.gs) or (seg == 'G' and self.gl)):
            fl = self.follow or seg == 'G'
            dirs = self.chain_dirs(cur, fl)
            if not rest:
                if cur != '':
                    yield cur + '/'
                for d in dirs:
                    for n in self.listdir(d):
                        if not self.hidden(n):
                            child = (d + '/' + n) if d else n
                            if not trail or self.isdir(child):
                                yield child
            else:
                for d in dirs:
                    for x in self.walk(d, rest, trail, bound):
                        yield x
            return
        if seg in ('g', 'G'):
            seg = 's'     # `**`/`***` without the flag is a plain `*`
        need_dir = bool(rest) or trail
        lit = self.literal_text(seg)
        if lit is not None:
            if self.icase and lit not in ('.', '..'):
                cands = [n for n in self.listdir(cur) if n.lower() == lit.lower()]
            else:
                cands = [lit]
            for nm in cands:
                child = (cur + '/' + nm) if cur else nm
                if self.lexists(child) and (not need_dir or self.isdir(child)):
                    for x in self.walk(child, rest, trail, bound):
                        yield x
            return
        names = self.listdir(cur)
        cand = list(names) + (['.', '..'] if self.scandotdir else [])
        verdict = self.seg_match(seg, cand)
        for n in cand:
            if verdict[n][bound]:
                child = (cur + '/' + n) if cur else n
                if not need_dir or self.isdir(child):
                    for x in self.walk(child, rest, trail, bound):
                        yield x

    @staticmethod
    def literal_text(seg):
        """the literal name a non-magic segment denotes, or None if the segment is magic"""
        out = []
        for t in seg.split('.') if seg else []:
            if t.startswith('l'):
                out.append(chr(int(t[1:], 16)))
            elif t.startswith('e'):
                out.append(chr(int(t[1:], 16)))      # an escaped character is written literally
            else:
                return None
        return ''.join(out) if out else None

    def glob(self, ppat):
        root_flag, segs, trail = ppat.split(':')
        segs = segs.split('/') if segs else []
        trail = trail == 'T'
        if self.matchbase and len(segs) == 1 and not trail and root_flag == 'r':
            segs = [('G' if (self.gl and self.follow_flag) else 'g')] + segs
        saved = self.gs
        if self.matchbase and len(ppat.split(':')[1].split('/')) == 1 and not trail and root_flag == 'r':
            self.gs = True
        res = []
        for bound in (0, 1):
            out = set()
            for p in self.walk('', segs, trail, bound):
                q = p.rstrip('/')
                if q == '':
                    continue
                if self.nodir and os.path.isdir(self._p(q)):
                    continue
                out.add(q)
            res.append(out)
        self.gs = saved
        return res[0], res[1]
