#!/usr/bin/env python3
"""Regenerates MANIFEST.json from the table below (kept in one place so it always validates)."""
import json, os
VERIF = os.path.dirname(os.path.dirname(os.path.abspath(__file__)))
PY = '/venv/bin/python'
CHECKS = json.load(open(os.path.join(VERIF, 'tools', 'manifest_checks.json')))
props = [json.loads(l) for l in open(os.path.join(VERIF, 'properties.jsonl'))]
ids = [p['id'] for p in props]
checks = []
for pid in ids:
    c = CHECKS.get(pid)
    if not c or not c.get('claimed'):
        continue
    checks.append({
        'property_id': pid,
        'quick_cmd': '%s tools/check.py %s --tier quick' % (PY, pid),
        'thorough_cmd': '%s tools/check.py %s --tier thorough' % (PY, pid),
        'evidence_file': '/verif/evidence/%s.json' % pid,
        'replay_cmd_template': '%s tools/check.py %s --replay {path}' % (PY, pid),
        'engine': 'coq-proof+correspondence',
        'level_claimed': {'category': 'proof', 'text': c['text'], 'design_ref': c.get('design_ref', 'DESIGN.md section 6 ' + pid)},
        'level_note': c['note'],
        'technique': c['technique'],
    })
na = [{'property_id': pid, 'reason': CHECKS.get(pid, {}).get('na_reason', 'check not built yet in this round (model under construction); see DESIGN.md')}
      for pid in ids if not (CHECKS.get(pid) or {}).get('claimed')]
m = {
    'version': 1,
    'setup_cmd': 'cd coq && coq_makefile -f _CoqProject -o Makefile && (timeout 3000 make -k -j16 || true) && cd ../driver && make',
    'hooks': {'guard': 'WCMATCH_VERIF', 'enable': 'no source hooks: the harness monkey-patches bracex/os in its own process',
              'baseline_off_cmd': 'cd /repo && /venv/bin/python -m pytest -ra -q -p no:cacheprovider --timeout=900 --continue-on-collection-errors',
              'source_commits': [], 'add_only': True},
    'engines': [{'name': 'coq-proof+correspondence', 'path': 'tools/check.py',
                 'serves_properties': [c['property_id'] for c in checks],
                 'kind_free_text': 'Coq 8.16 development (coq/), translator tools/py2v.py regenerating coq/Gen from /repo on every run, extracted OCaml model (driver/) compared with the implementation'}],
    'checks': checks,
    'notes': 'See DESIGN.md. fix: commits in /repo are listed in known_findings.json (kind=fixed).',
    'not_applicable': na,
}
json.dump(m, open(os.path.join(VERIF, 'MANIFEST.json'), 'w'), indent=1)
print('claimed:', [c['property_id'] for c in checks])
