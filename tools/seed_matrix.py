#!/usr/bin/env python3
"""Run the quick checks against every seeded change and record the outcome.

usage: seed_matrix.py [--all-checks] [<seed-id>...]
For each /verif/seeded/<id>/: apply patch.diff to /repo, run the check of the seed's own property (plus the extra checks
listed below / every check with --all-checks), revert /repo, and write `detected_by` (check id -> 'input' | 'no-input' |
'miss' | 'broken') into meta.json.  NEVER run while another check or sweep is running (it edits /repo's working tree)."""
import json
import os
import re
import subprocess
import sys

ROOT = '/verif'
ALL = ['C%02d' % i for i in range(1, 21)]
EXTRA = {'C03-m2': ['C05', 'C06'], 'C04-m2': ['C07'], 'C06-m1': ['C05'], 'C06-m2': ['C04'], 'C02-m1': ['C01'], 'C05-m1': ['C12'],
         'C13-m1': ['C07'], 'C16-m2': ['C12'], 'C18-m1': ['C01'], 'C12-m2': ['C05']}


def sh(*a, **k):
    return subprocess.run(a, stdout=subprocess.PIPE, stderr=subprocess.STDOUT, text=True, **k)


def run_check(cid):
    env = dict(os.environ, VERIF_SEED=os.environ.get('VERIF_SEED', '1'))
    r = sh('/venv/bin/python', os.path.join(ROOT, 'tools/check.py'), cid, '--tier', 'quick', env=env, cwd=ROOT)
    vio = [l for l in r.stdout.splitlines() if l.startswith('VIOLATION')]
    if r.returncode == 0 and not vio:
        return 'miss', ''
    if not vio:
        return 'broken', r.stdout[-400:]
    with_input = [l for l in vio if not l.rstrip().endswith('no-failing-input-found')]
    return ('input' if with_input else 'no-input'), (with_input or vio)[0]


def main():
    args = [a for a in sys.argv[1:] if not a.startswith('--')]
    allc = '--all-checks' in sys.argv
    seeds = args or sorted(os.listdir(os.path.join(ROOT, 'seeded')))
    assert sh('git', '-C', '/repo', 'status', '--short').stdout.strip() == '', '/repo working tree is not clean'
    for sid in seeds:
        d = os.path.join(ROOT, 'seeded', sid)
        meta = json.load(open(os.path.join(d, 'meta.json')))
        a = sh('git', '-C', '/repo', 'apply', os.path.join(d, 'patch.diff'))
        if a.returncode != 0:
            print(sid, 'PATCH DOES NOT APPLY', a.stdout[-200:])
            meta['detected_by'] = {'_error': 'patch no longer applies to /repo HEAD'}
            json.dump(meta, open(os.path.join(d, 'meta.json'), 'w'), indent=1)
            continue
        try:
            checks = ALL if allc else [meta['property']] + EXTRA.get(sid, [])
            res = dict(meta.get('detected_by', {})) if allc else {}
            res.pop('_error', None)
            for c in checks:
                v, line = run_check(c)
                res[c] = v
                print(sid, c, v, line[:160], flush=True)
        finally:
            sh('git', '-C', '/repo', 'checkout', '--', '.')
        meta['detected_by'] = res
        meta['detected_at_repo_head'] = sh('git', '-C', '/repo', 'rev-parse', '--short', 'HEAD').stdout.strip()
        json.dump(meta, open(os.path.join(d, 'meta.json'), 'w'), indent=1)
    print(sh('git', '-C', '/repo', 'status', '--short').stdout)


if __name__ == '__main__':
    main()
