#!/usr/bin/env python3
"""Run the quick checks against seeded changes and record the outcome - on private copies, in parallel.

usage: seed_matrix.py [--all-checks] [--jobs N] [<seed-id>...]
Each worker gets its own copy of /verif (built Coq files included) and its own export of /repo HEAD under
/tmp/seedmx/<k>/, applies seeded/<id>/patch.diff to the export, runs the check of the seed's own property (plus the
extra checks listed below / every check with --all-checks) with WCMATCH_REPO pointing at the export, and reverts.
Results: `detected_by` (check id -> 'input' | 'no-input' | 'miss' | 'broken') in /verif/seeded/<id>/meta.json.
/repo and /verif/coq are never touched, so other work can go on while this runs.  The copies are removed at the end."""
import json
import os
import shutil
import subprocess
import sys
from concurrent.futures import ThreadPoolExecutor

ROOT = '/verif'
BASE = '/tmp/seedmx'
ALL = ['C%02d' % i for i in range(1, 21)]
EXTRA = {'C03-m2': ['C05', 'C06'], 'C04-m2': ['C07'], 'C06-m1': ['C05'], 'C06-m2': ['C04'], 'C02-m1': ['C01'], 'C05-m1': ['C12'],
         'C13-m1': ['C07'], 'C16-m2': ['C12'], 'C18-m1': ['C01'], 'C12-m2': ['C05'],
         'C03-m4': ['C14'], 'C04-m3': ['C03', 'C02'], 'C05-m3': ['C06'], 'C06-m3': ['C05'], 'C06-m4': ['C04'], 'C07-m3': ['C08', 'C09'],
         'C08-m4': ['C07'], 'C09-m4': ['C01', 'C07'], 'C08-m3': ['C20'], 'C18-m4': ['C20'], 'C20-m4': ['C18'], 'C10-m3': ['C20'],
         'C14-m3': ['C07'], 'C16-m3': ['C02'], 'C17-m4': ['C01'], 'C13-m4': ['C07'], 'C12-m4': ['C04']}


def sh(*a, **k):
    return subprocess.run(a, stdout=subprocess.PIPE, stderr=subprocess.STDOUT, text=True, **k)


def setup(k):
    d = os.path.join(BASE, str(k))
    shutil.rmtree(d, ignore_errors=True)
    os.makedirs(d)
    v, r = os.path.join(d, 'verif'), os.path.join(d, 'repo')
    sh('rsync', '-a', '--exclude=.git', '--exclude=replay', '--exclude=seeded', ROOT + '/', v + '/')
    os.makedirs(os.path.join(v, 'replay'), exist_ok=True)
    os.makedirs(r)
    p = subprocess.Popen(['git', '-C', '/repo', 'archive', 'HEAD'], stdout=subprocess.PIPE)
    subprocess.run(['tar', '-x', '-C', r], stdin=p.stdout)
    p.wait()
    sh('git', 'init', '-q', cwd=r)
    sh('git', 'add', '-A', cwd=r)
    sh('git', '-c', 'user.email=x@x', '-c', 'user.name=x', 'commit', '-qm', 'base', cwd=r)
    return v, r


def run_check(v, r, cid):
    env = dict(os.environ, VERIF_SEED=os.environ.get('VERIF_SEED', '1'), WCMATCH_REPO=r)
    p = sh('/venv/bin/python', os.path.join(v, 'tools/check.py'), cid, '--tier', 'quick', env=env, cwd=v)
    vio = [l for l in p.stdout.splitlines() if l.startswith('VIOLATION')]
    if p.returncode == 0 and not vio:
        return 'miss', ''
    if not vio:
        return 'broken', p.stdout[-400:]
    with_input = [l for l in vio if not l.rstrip().endswith('no-failing-input-found')]
    return ('input' if with_input else 'no-input'), (with_input or vio)[0]


def worker(k, seeds, allc):
    v, r = setup(k)
    out = []
    for sid in seeds:
        d = os.path.join(ROOT, 'seeded', sid)
        meta = json.load(open(os.path.join(d, 'meta.json')))
        a = sh('git', '-C', r, 'apply', os.path.join(d, 'patch.diff'))
        if a.returncode != 0:
            print(sid, 'PATCH DOES NOT APPLY', a.stdout[-200:], flush=True)
            meta['detected_by'] = {'_error': 'patch no longer applies to /repo HEAD'}
            json.dump(meta, open(os.path.join(d, 'meta.json'), 'w'), indent=1)
            continue
        try:
            checks = ALL if allc else [meta['property']] + EXTRA.get(sid, [])
            res = dict(meta.get('detected_by', {})) if allc else {}
            res.pop('_error', None)
            for c in checks:
                verdict, line = run_check(v, r, c)
                res[c] = verdict
                print(sid, c, verdict, line[:150].replace(v, '<copy>'), flush=True)
        finally:
            sh('git', '-C', r, 'checkout', '--', '.')
        meta['detected_by'] = res
        meta['detected_at_repo_head'] = sh('git', '-C', '/repo', 'rev-parse', '--short', 'HEAD').stdout.strip()
        json.dump(meta, open(os.path.join(d, 'meta.json'), 'w'), indent=1)
    # after the last revert the copy must be clean again: one control run
    verdict, line = run_check(v, r, 'C11')
    if verdict != 'miss':
        print('CONTROL FAILED in worker', k, verdict, line, flush=True)
    shutil.rmtree(os.path.join(BASE, str(k)), ignore_errors=True)
    return out


def main():
    args = [a for a in sys.argv[1:] if not a.startswith('--')]
    allc = '--all-checks' in sys.argv
    jobs = 4
    if '--jobs' in sys.argv:
        jobs = int(sys.argv[sys.argv.index('--jobs') + 1])
        args = [a for a in args if a != str(jobs)]
    seeds = args or sorted(os.listdir(os.path.join(ROOT, 'seeded')))
    jobs = max(1, min(jobs, len(seeds)))
    chunks = [seeds[i::jobs] for i in range(jobs)]
    with ThreadPoolExecutor(jobs) as ex:
        list(ex.map(lambda kc: worker(kc[0], kc[1], allc), enumerate(chunks)))
    try:
        os.rmdir(BASE)
    except OSError:
        pass


if __name__ == '__main__':
    main()
