import sys, os, itertools, time, re
sys.path.insert(0, os.path.dirname(os.path.abspath(__file__)))
from wclib import *
wc = import_impl()
from wcmatch import _wcparse as W
alpha = sys.argv[1] if len(sys.argv) > 1 else 'a.*?[]!-()|\\/+@'
maxlen = int(sys.argv[2]) if len(sys.argv) > 2 else 3
flagsets = [int(x, 0) for x in sys.argv[3].split(',')] if len(sys.argv) > 3 else [0]
pats = list(strings_upto(alpha, maxlen))
m = Model()
bad = 0
for fl in flagsets:
    for isb in (0, 1):
        reqs = ['wcparse %d %d %s' % (fl, isb, enc(p)) for p in pats]
        t = time.time()
        outs = m.run(reqs, nproc=16)
        tm = time.time() - t
        nb = 0
        for p, o in zip(pats, outs):
            try:
                pp = p.encode('latin-1') if isb else p
                r = W.WcParse(pp, fl).parse()
                exp = 'ok ' + enc(r)
            except ValueError:
                exp = 'valueerror'
            except Exception as e:
                exp = 'EXC ' + type(e).__name__
            if o != exp:
                nb += 1
                if nb <= 5:
                    print('DIFF flags=%#x bytes=%d pat=%r\n   impl=%s\n  model=%s' % (fl, isb, p, dec(exp[3:]) if exp.startswith('ok ') else exp, dec(o[3:]) if o.startswith('ok ') else o))
        print('flags=%#x bytes=%d: %d patterns, %d diffs, model %.1fs' % (fl, isb, len(pats), nb, tm))
        bad += nb
sys.exit(1 if bad else 0)
