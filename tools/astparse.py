"""Best-effort reader of raw pattern strings into Spec.v ASTs (wire format of astgen.py).

Used for the *directed* search: when the text correspondence breaks on some raw pattern strings, those that lie in
the documented grammar are read back into ASTs and the implementation is compared with the executable spec on them.
Returns None when the string is outside the documented grammar (the caller then skips it)."""

POSIX = ['alnum', 'alpha', 'ascii', 'blank', 'cntrl', 'digit', 'graph', 'lower', 'print', 'punct', 'space', 'upper',
         'word', 'xdigit']
META = set('*?[]()|\\!+@/')


def _bracket(s, i, path):
    # s[i] == '['
    j = i + 1
    neg = 0
    if j < len(s) and s[j] == '!':
        neg = 1
        j += 1
    items = []
    first = True
    while True:
        if j >= len(s):
            return None
        c = s[j]
        if c == ']' and not first:
            j += 1
            break
        if c == '[' and s.startswith('[:', j):
            k = s.find(':]', j)
            if k < 0:
                return None
            name = s[j + 2:k]
            if name not in POSIX:
                return None
            items.append('p' + name)
            j = k + 2
            first = False
            continue
        if c in '\\/[]^&~|' or (c == '-' and not first) or c == '!':
            return None     # keep to the unambiguous subset
        if j + 2 < len(s) and s[j + 1] == '-' and s[j + 2] not in ']\\/[':
            lo, hi = c, s[j + 2]
            if path and (lo == '/' or hi == '/'):
                return None
            items.append('r%x-%x' % (ord(lo), ord(hi)))
            j += 3
        else:
            items.append('c%x' % ord(c))
            j += 1
        first = False
    if not items:
        return None
    return 'b%d[%s]' % (neg, ','.join(items)), j


def _seq(s, i, ext, path, stop):
    toks = []
    while i < len(s) and s[i] not in stop:
        c = s[i]
        if ext and c in '?*+@!' and i + 1 < len(s) and s[i + 1] == '(':
            kind = {'?': 'Q', '*': 'S', '+': 'P', '@': 'A', '!': 'N'}[c]
            i += 2
            alts = []
            while True:
                r = _seq(s, i, ext, path, '|)')
                if r is None:
                    return None
                a, i = r
                alts.append('.'.join(a))
                if i >= len(s):
                    return None
                if s[i] == '|':
                    i += 1
                    continue
                i += 1   # ')'
                break
            toks.append('x%s(%s)' % (kind, ';'.join(alts)))
        elif c == '\\':
            if i + 1 >= len(s) or s[i + 1] in '/\\':
                return None
            toks.append('e%x' % ord(s[i + 1]))
            i += 2
        elif c == '*':
            if toks and toks[-1] == 's':
                i += 1
                continue
            toks.append('s')
            i += 1
        elif c == '?':
            toks.append('q')
            i += 1
        elif c == '[':
            r = _bracket(s, i, path)
            if r is None:
                return None
            t, i = r
            toks.append(t)
        elif c in '])|(' or (path and c == '/'):
            return None
        elif c in '!+@' and i + 1 < len(s) and s[i + 1] == '(':
            return None
        else:
            toks.append('l%x' % ord(c))
            i += 1
    return toks, i


def flat(s, ext):
    """raw fnmatch pattern -> wire sequence or None"""
    if not s:
        return None
    r = _seq(s, 0, ext, False, '')
    if r is None or r[1] != len(s):
        return None
    toks = r[0]
    # !(..) only standing alone or followed by literal text, at top level
    for k, t in enumerate(toks):
        if t.startswith('xN') and any(not u.startswith(('l', 'e')) for u in toks[k + 1:]):
            return None
        if t.startswith('x') and 'xN' in t[2:]:
            return None
    for a, b in zip(toks, toks[1:]):
        if a == 's' and b.startswith('xS'):
            return None
    return '.'.join(toks)


def path(s, ext, globstar=True, globstarlong=False):
    """raw glob pattern -> wire ppat or None"""
    if not s:
        return None
    root = s.startswith('/')
    trail = s.endswith('/') and len(s) > 1
    body = s.strip('/')
    if not body or '//' in body:
        return None
    segs = []
    for seg in body.split('/'):
        if seg == '**' and globstar:
            segs.append('g')
        elif seg == '***' and globstarlong:
            segs.append('G')
        elif seg and set(seg) == {'*'}:
            segs.append('s')
        else:
            f = flat(seg, ext)
            if f is None:
                return None
            segs.append(f)
    return '%s:%s:%s' % ('R' if root else 'r', '/'.join(segs), 'T' if trail else 't')
