import sys, os, json
sys.path.insert(0, os.path.dirname(os.path.abspath(__file__)))
from corr import *
from wclib import *
pats = list(strings_upto('\\xuN{}017af/*', 5))
r = corr_norm(pats, [(0,0,1),(1,0,1),(0,1,0),(0,1,1),(1,1,1),(0,0,0)])
print(r['evaluations'], r['distinct_nontrivial'], r['n_disagreements'], r['distribution'])
for d in r['disagreements'][:6]: print(json.dumps(d))
r = corr_norm(['\\N{DIGIT ONE}x', '\\N{NOPE}', '\\U0001F600', '\\U00110000', '\\u00e9\\x41\\101\\7', 'a\\N{LATIN SMALL LETTER A}', '\\400', '\\N{', '\\N{}'], [(0,0,1),(0,1,1),(0,1,0)])
print(r['evaluations'], r['n_disagreements'], r['disagreements'][:3])
