#!/bin/bash
# usage: thorough_all.sh [jobs] ; runs every check's thorough tier, prints verdict and wall time per check
cd /verif
J=${1:-4}
for c in C01 C02 C03 C04 C05 C06 C07 C08 C09 C10 C11 C12 C13 C14 C15 C16 C17 C18 C19 C20; do echo $c; done | \
  xargs -P $J -I{} bash -c 's=$(date +%s); out=$(timeout 7200 /venv/bin/python tools/check.py {} --tier thorough 2>&1 | grep -v "^WARNING" | grep "VIOLATION\| tier=" | tail -4); e=$(date +%s); echo "{} $((e-s))s :: $out"'
