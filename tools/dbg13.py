"""debug: text correspondence on the grammar-guided corpus"""
import sys, random, json, time
sys.path.insert(0, '/verif/tools')
import corr, textgen
F = corr.fl
rng = random.Random(5)
pats = textgen.corpus(rng, 3000)
print(len(pats), pats[:12])
fs = [F('EXTMATCH'), F('PATHNAME', 'GLOBSTAR', 'EXTMATCH'), F('PATHNAME', 'GLOBSTAR', 'EXTMATCH', 'DOTMATCH'), F('PATHNAME', 'GLOBSTAR', 'GLOBSTARLONG', 'EXTMATCH', 'MATCHBASE'),
      F('PATHNAME', 'GLOBSTAR', 'EXTMATCH', 'NODOTDIR', 'REALPATH'), F('FORCEWIN', 'EXTMATCH'), F('PATHNAME', 'EXTMATCH', 'DOTMATCH', 'NODOTDIR', '_TRANSLATE')]
t = time.time()
r = corr.corr_parse(pats, fs)
print(r['evaluations'], r['distinct_nontrivial'], len(r['disagreements']), time.time() - t)
print(json.dumps(r['disagreements'][:5], indent=1)[:3000])
