"""debug: gsplit correspondence"""
import sys, json
sys.path.insert(0, '/verif/tools')
import corr, check
from wclib import strings_upto
F = corr.fl
pats = list(strings_upto('a*/\\[]!(|)@.-', 4))
fs = [F('PATHNAME'), F('PATHNAME', 'EXTMATCH', 'GLOBSTAR'), F('PATHNAME', 'GLOBSTAR', 'GLOBSTARLONG', 'MATCHBASE', 'FOLLOW'),
      F('PATHNAME', 'EXTMATCH', 'NEGATE', '_EXTMATCHBASE', 'GLOBSTAR'), F('PATHNAME', '_NOABSOLUTE', 'BRACE', 'SPLIT', 'GLOBTILDE'),
      F('PATHNAME', 'EXTMATCH', 'NEGATE', 'MINUSNEGATE', 'MATCHBASE', 'GLOBSTARLONG')]
r = corr.corr_gsplit(pats, fs)
print(r['evaluations'], r['distinct_nontrivial'], r['n_disagreements'] if 'n_disagreements' in r else len(r['disagreements']))
print(json.dumps(r['disagreements'][:8], indent=1))
print(r['samples'][:2], r.get('distribution'))
