"""debug: REALPATH symlink check with two globstars (base path of the second group)"""
import sys
sys.path.insert(0, '/verif/tools')
import trees
from wclib import import_impl
import_impl()
from wcmatch import glob as G
spec = [('p', 'd', None), ('p/a', 'd', None), ('real', 'd', None), ('real/x', 'f', None), ('real/r', 'd', None), ('real/r/x', 'f', None), ('p/a/q', 'l', '../../real'), ('p/a/d', 'd', None), ('p/a/d/x', 'f', None)]
with trees.Tree(spec) as T:
    fl = G.GLOBSTAR
    for pat in ['**/a/**/x', 'p/a/**/x', '**/x', '**/a/**', 'p/**/a/**/x']:
        g = sorted(G.glob(pat, flags=fl, root_dir=T.root))
        cands = T.entries_follow()
        m = sorted(c for c in cands if G.globmatch(c, pat, flags=fl | G.REALPATH, root_dir=T.root))
        print(pat, 'glob', g, '| only globmatch', sorted(set(m) - set(x.rstrip('/') for x in g)), '| only glob', sorted(set(x.rstrip('/') for x in g) - set(m)))
