import sys, os, random, json, collections
sys.path.insert(0, os.path.dirname(os.path.abspath(__file__)))
from corr import *
import astgen
rng = random.Random(int(sys.argv[1]) if len(sys.argv)>1 else 1)
g = astgen.Gen(rng, lits='ab.', path=True)
ext = int(sys.argv[3]) if len(sys.argv)>3 else 0
pps = []
for _ in range(int(sys.argv[2]) if len(sys.argv)>2 else 200):
    p = g.ppat()
    if not ext and 'x' in p: continue
    pps.append(p)
pps = sorted(set(pps))
cfgs = [dict(ci=0,dot=0,gs=1,gl=0,mb=0), dict(ci=0,dot=1,gs=1,gl=0,mb=0), dict(ci=0,dot=0,gs=0,gl=0,mb=0), dict(ci=0,dot=0,gs=1,gl=0,mb=1), dict(ci=1,dot=0,gs=1,gl=1,mb=0)]
ev, nt, mm = search_pden(pps, cfgs, maxlen=5)
print(len(pps), ev, nt, len(mm))
byp = collections.OrderedDict()
for d in mm:
    byp.setdefault((d['pattern'], d['flags']), []).append((d['name'], d['impl'], d['lb'], d['ub']))
for k, v in list(byp.items())[:50]:
    print(repr(k[0]), k[1], v[:5])
