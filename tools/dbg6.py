import sys, os, random, json
sys.path.insert(0, os.path.dirname(os.path.abspath(__file__)))
from corr import *
import trees
import_impl()
from wcmatch import glob as Gm
rng = random.Random(int(sys.argv[1]) if len(sys.argv) > 1 else 1)
segs = ['a', 'b', '*', 'a*', '.*', '.', '..', '**', '?', '.h', 'ab', '*b', '***', '[ab]', '@(a|b)', '!(a)', 'A', '*.txt', 'x']
tot = nd = 0
for t in range(int(sys.argv[2]) if len(sys.argv) > 2 else 20):
    spec = trees.random_spec(rng, size=rng.randint(4, 14), case=True)
    with trees.Tree(spec) as T:
        cases = []
        for _ in range(60):
            npat = rng.choice([1, 1, 1, 2, 3])
            pats = []
            for _ in range(npat):
                k = rng.randint(1, 3)
                ss = [rng.choice(segs) for _ in range(k)]
                if ss.count('..') > 2: continue
                pats.append(('/' if False else '') + '/'.join(ss) + ('/' if rng.random() < 0.2 else ''))
            if not pats: continue
            f = 0
            for nm, pr in (('GLOBSTAR', .6), ('DOTGLOB', .3), ('MARK', .3), ('NODIR', .15), ('EXTGLOB', .5), ('IGNORECASE', .2), ('FOLLOW', .15), ('GLOBSTARLONG', .2),
                           ('MATCHBASE', .15), ('SCANDOTDIR', .15), ('NOUNIQUE', .15), ('NEGATE', .2), ('NODOTDIR', .1)):
                if rng.random() < pr: f |= getattr(Gm, nm)
            ex = None if rng.random() < 0.7 else [rng.choice(segs)]
            cases.append((T.root, pats if len(pats) > 1 else pats[0], f, ex))
        r = corr_glob(cases)
        tot += r['evaluations']; nd += r['n_disagreements']
        for d in r['disagreements'][:3]:
            print(json.dumps(d)[:600]); print(spec)
        if r['distribution']['skipped_errors']: print(r['distribution'])
print('total', tot, 'disagreements', nd)
