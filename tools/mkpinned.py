#!/usr/bin/env python3
"""One-off generator of coq/Proofs/Pinned.v: snapshots of the regex source texts (Gen.ReSrc) and inline literals the
hand-written scanner models were written for.  Each is a `reflexivity` lemma, so an edited regex names itself.
Run by hand when a model is deliberately updated; never at check time."""
import re, os
VERIF = os.path.dirname(os.path.dirname(os.path.abspath(__file__)))
src = open(os.path.join(VERIF, 'coq/Gen/Consts.v')).read()
mod = src[src.index('Module ReSrc.'):src.index('End ReSrc.')]
groups = {}


def group_of(name):
    """One snapshot file per owner: the property whose statement file imports it (a changed regex text then breaks that
    property's build and is reported by its check): util -> C20, wcmatch -> C04, glob -> C16, the NODIR filters -> C02,
    RE_POSIX -> C01, the rest of _wcparse (drives, magic sets, tilde, anchors: what escape and the drive scanner read) -> C09."""
    g = name.split('_')[0]
    if g == 'wcparse' and 'NO_DIR' in name:
        return 'wcparse_nodir'
    if g == 'wcparse' and 'RE_POSIX' in name:
        return 'wcparse_posix'
    return g


for m in re.finditer(r'Definition (\w+) : list N := (.*?)\. \(\* flags: (.*?) \*\)', mod):
    name, val, fl = m.group(1), m.group(2), m.group(3)
    g = group_of(name)
    groups.setdefault(g, []).append('Lemma pin_%s : ReSrc.%s = %s.\nProof. reflexivity. Qed.' % (name, name, val))
for m in re.finditer(r'Definition (\w+_flags) : string := (".*?"%string)\.', mod):
    g = group_of(m.group(1))
    groups.setdefault(g, []).append('Lemma pin_%s : ReSrc.%s = %s.\nProof. reflexivity. Qed.' % (m.group(1), m.group(1), m.group(2)))
for g, lemmas in groups.items():
    out = ['(* GENERATED ONCE by tools/mkpinned.py (committed snapshot; not regenerated at check time). *)',
           'From Coq Require Import List NArith String.', 'Import ListNotations.', 'From WC.Gen Require Import Consts.', ''] + lemmas
    open(os.path.join(VERIF, 'coq/Proofs/Pinned_%s.v' % g), 'w').write('\n'.join(out) + '\n')
    print(g, len(lemmas))
