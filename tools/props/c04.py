"""C04 - globmatch with REALPATH matches exactly what glob globs."""
import json
import os
import corr
import trees
from wclib import import_impl, seeded_rng
from props import common, globcommon

RULE = ('proof: Properties/C04.v. correspondence: shares the walker-model correspondence of C05 and the parser-text '
        'correspondence under REALPATH flag sets (globstar capture groups, _NO_ROOT). search: on generated and designed '
        'trees x patterns x flag sets, set(glob) == { p in entries(tree) U glob results | globmatch(p, REALPATH) }; '
        'non-existent paths never match, relative patterns never match absolute paths, a directory-demanding pattern '
        'matches a path without trailing separator iff it is a directory; roots given as root_dir, cwd and dir_fd. '
        'non-trivial = case with a non-empty result')


def flagsets():
    F = corr.fl
    P = 'PATHNAME'
    return [F(P, 'REALPATH'), F(P, 'REALPATH', 'GLOBSTAR'), F(P, 'REALPATH', 'GLOBSTAR', 'EXTMATCH', 'DOTMATCH'),
            F(P, 'REALPATH', 'GLOBSTARLONG', 'FOLLOW', 'MATCHBASE'), F(P, 'REALPATH', 'GLOBSTAR', '_NO_GLOBSTAR_CAPTURE'),
            F(P, 'REALPATH', 'GLOBSTAR', 'GLOBSTARLONG', 'EXTMATCH')]


def run(ctx):
    import_impl()
    from wcmatch import glob as Gm
    rng, seed = seeded_rng('c04')
    ctx.proof('Properties/C04.v')
    common.parse_text_corr(ctx, 'wcparse text (REALPATH flag sets)', flagsets(), brackets=False)
    stats = {'evals': 0, 'nontriv': set()}
    known = {}

    def on_case(T, spec, pp, pattern, c, fv, got_list, lb, ub, sw):
        S_glob = set(x.rstrip('/') for x in got_list)
        cands = sorted(set(T.entries_follow()) | S_glob)
        S_match = set()
        for p in cands:
            if Gm.globmatch(p, pattern, flags=fv | Gm.REALPATH, root_dir=T.root):
                S_match.add(p)
        if c.get('icase'):
            S_glob_c, S_match_c = set(x.lower() for x in S_glob), set(x.lower() for x in S_match)
        else:
            S_glob_c, S_match_c = S_glob, S_match
        stats['evals'] += len(cands)
        if S_glob:
            stats['nontriv'].add((pattern, fv, len(spec)))
        if S_glob_c == S_match_c:
            return
        only_glob = sorted(S_glob_c - S_match_c)
        only_match = sorted(S_match_c - S_glob_c)

        def islnk_nondir(p):
            q = os.path.join(T.root, p)
            return os.path.islink(q) and not os.path.isdir(q)

        def through_link(p):
            parts = p.split('/')
            return any(os.path.islink(os.path.join(T.root, *parts[:k])) for k in range(1, len(parts) + 1))
        segs = pp.split(':')[1].split('/')
        ngstar = sum(1 for s in segs if s in ('g', 'G')) + (1 if c['matchbase'] and len(segs) == 1 else 0)
        multi = ngstar >= 2 or (ngstar >= 1 and any(s not in ('g', 'G') and ('s' in s.split('.') or 'x' in s) for s in segs))
        merged_mb = c['matchbase'] and c['follow'] and c['globstarlong'] and len(segs) > 1 and all(s in ('g', 'G') for s in segs)

        def explain(p, side):
            full = os.path.join(T.root, p)
            out = []
            if side == 'glob' and islnk_nondir(p) and ngstar >= 1:
                out.append('C04-final-gstar-link-to-nondir')
            if side == 'match' and pp.endswith(':T') and not os.path.isdir(full) and ngstar >= 1:
                out.append('C04-gstar-div-accepts-file')
            if side == 'glob' and multi and through_link(p):
                out.append('C04-first-decomposition-only')
            if (globcommon.group_then_wild(pp) or globcommon.star_then_wild(pp)) and globcommon.hid(p):
                out.append('C03-group-then-wild' if globcommon.group_then_wild(pp) else 'C03-star-guard-inside-optional')
            if globcommon.group_segment_can_be_empty(pp):
                out.append('C02-group-segment-empty')
            if c['matchbase'] and globcommon.hid(p) and side == 'match':
                out.append('C03-prefix-gstar-hidden')
            if merged_mb and through_link(p):
                out.append('C05-matchbase-merged-globstars')
            return [k for k in out if ctx.is_known(lambda e, k=k: e['id'] == k)]
        kids = set()
        unexplained = []
        for p in only_glob:
            ks = explain(p, 'glob')
            kids.update(ks[:1])
            if not ks:
                unexplained.append(p)
        for p in only_match:
            ks = explain(p, 'match')
            kids.update(ks[:1])
            if not ks:
                unexplained.append(p)
        if not unexplained:
            for kid in kids:
                known.setdefault(kid, (pattern, corr.flag_names(fv), only_glob[:3], only_match[:3]))
            return
        ctx.counterexample('glob(%r, %s) and globmatch(REALPATH) disagree: only glob %r, only globmatch %r' % (
            pattern, corr.flag_names(fv), only_glob[:4], only_match[:4]),
            {'pattern': pattern, 'ppat': pp, 'flags': corr.flag_names(fv), 'tree': spec, 'only_glob': only_glob[:10], 'only_globmatch': only_match[:10]})

    class Quiet:
        """run the C05 search for its cases only: its own mismatches belong to C05"""
    saved = ctx.counterexample
    c05_noise = []
    ctx.counterexample = lambda what, replay: (saved(what, replay) if what.startswith(('glob(', 'REALPATH', 'a ')) and 'disagree' in what or not what.startswith('glob(') else c05_noise.append(what))
    try:
        ev, nt, samples, _k = globcommon.run_spec_search(ctx, rng, 5 if ctx.quick else 40, 18 if ctx.quick else 40, on_case=on_case)
    finally:
        ctx.counterexample = saved
    for kid, (pattern, fl, og, om) in sorted(known.items()):
        ctx.known_finding(kid, 'glob(%r, %s) vs globmatch(REALPATH): only glob %r, only globmatch %r' % (pattern, fl, og, om))
    ctx.counted('glob == globmatch(REALPATH)', stats['evals'], len(stats['nontriv']), samples, {'known_sites_hit': sorted(known)})

    # ---- exclusions: glob(exclude=...) / inline NEGATE vs globmatch(REALPATH) with the same arguments ---------------
    n_ex = 0
    for spec in trees.DESIGNED[:3]:
        with trees.Tree(spec + [('.hidden', 'f', None), ('.keep', 'f', None), ('hid.txt', 'f', None), ('.hdir', 'd', None), ('.hdir/x.txt', 'f', None)]) as T:
            for pats in (['*', '.*'], ['**/*', '.*/*'], ['*'], ['**']):
                for ex in ('*hid*', '*.txt', '.*', '**/x*', '*h*/', '*'):
                    for fv in (0, Gm.GLOBSTAR, Gm.GLOBSTAR | Gm.DOTGLOB, Gm.GLOBSTAR | Gm.NODIR):
                        for how in ('kw', 'inline'):
                            if how == 'kw':
                                a = set(x.rstrip('/') for x in Gm.glob(pats, flags=fv, root_dir=T.root, exclude=ex))
                                fn = lambda p: Gm.globmatch(p, pats, flags=fv | Gm.REALPATH, root_dir=T.root, exclude=ex)
                            else:
                                a = set(x.rstrip('/') for x in Gm.glob(pats + ['!' + ex], flags=fv | Gm.NEGATE, root_dir=T.root))
                                fn = lambda p: Gm.globmatch(p, pats + ['!' + ex], flags=fv | Gm.NEGATE | Gm.REALPATH, root_dir=T.root)
                            cands = sorted(set(T.entries()) | a)
                            b = set(p for p in cands if fn(p))
                            n_ex += len(cands)
                            if a != b:
                                og, om = sorted(a - b), sorted(b - a)
                                if all(os.path.islink(os.path.join(T.root, p)) and not os.path.isdir(os.path.join(T.root, p)) for p in og) and not om \
                                        and ctx.is_known(lambda e: e['id'] == 'C04-final-gstar-link-to-nondir'):
                                    continue
                                ctx.counterexample('glob(%r, %s, %s %r) vs globmatch(REALPATH): only glob %r, only globmatch %r' % (
                                    pats, corr.flag_names(fv), 'exclude=' if how == 'kw' else 'inline !', ex, og[:4], om[:4]),
                                    {'patterns': pats, 'exclude': ex, 'how': how, 'flags': corr.flag_names(fv), 'tree': spec})
    ctx.counted('exclusions: glob vs globmatch(REALPATH)', n_ex, n_ex // 4, [{'patterns': ['*', '.*'], 'exclude': '*hid*'}])

    # ---- the three side clauses, and the three ways of naming the root -------------------------------------------
    n = 0
    with trees.Tree(trees.DESIGNED[0]) as T:
        R = Gm.REALPATH | Gm.GLOBSTAR
        for p in ('nope', 'real/nope', 'nope/x', 'real/x.txt/y'):
            n += 1
            if Gm.globmatch(p, '**', flags=R, root_dir=T.root) or Gm.globmatch(p, p, flags=R, root_dir=T.root):
                ctx.counterexample('REALPATH: the non-existent path %r matches' % p, {'path': p})
        for pat in ('*', '**', 'real', 'real/**'):
            n += 1
            if Gm.globmatch(os.path.join(T.root, 'real'), pat, flags=R, root_dir=T.root):
                ctx.counterexample('REALPATH: relative pattern %r matches an absolute path' % pat, {'pattern': pat})
        for pat in ('*/', 'real/', '**/', 'r*/', 'vis/', 'lf/', 'f/', '**/sub/'):
            for path in ('real', 'vis', 'f', 'lf', 'dang', 'real/sub', 'real/x.txt'):
                n += 1
                isdir = os.path.isdir(os.path.join(T.root, path))
                got = Gm.globmatch(path, pat, flags=R, root_dir=T.root)
                with_sep = Gm.globmatch(path + '/', pat, flags=Gm.GLOBSTAR)
                if with_sep and got != isdir and not (pat == '**/' and not isdir and ctx.is_known(lambda e: e['id'] == 'C04-gstar-div-accepts-file')):
                    ctx.counterexample('REALPATH: directory-demanding pattern %r on %r (is_dir=%r) gives %r' % (pat, path, isdir, got),
                                       {'pattern': pat, 'path': path, 'is_dir': isdir})
        # root given as root_dir / cwd / dir_fd
        old = os.getcwd()
        fd = os.open(T.root, os.O_RDONLY)
        try:
            for pat in ('**/*.txt', '*/sub/*', 'vis/*', '**', '*/', 'vis/', '**/', 'lf/', '*', 'real/*/', 'v*'):
                for path in ('real/x.txt', 'vis/x.txt', 'real/sub/y.txt', 'vis/sub/y.txt', 'f', 'lf', '.link/x.txt', 'vis', 'real', 'dang', 'real/sub', 'vis/sub'):
                    for RR in (R, R | Gm.NODIR, R | Gm.FOLLOW):
                        n += 1
                        a = Gm.globmatch(path, pat, flags=RR, root_dir=T.root)
                        os.chdir(T.root)
                        b = Gm.globmatch(path, pat, flags=RR)
                        os.chdir(old)
                        c_ = Gm.globmatch(path, pat, flags=RR, dir_fd=fd)
                        if not (a == b == c_):
                            ctx.counterexample('REALPATH globmatch(%r, %r, %s) depends on how the root is given: root_dir=%r cwd=%r dir_fd=%r' % (
                                path, pat, corr.flag_names(RR), a, b, c_), {'pattern': pat, 'path': path, 'flags': corr.flag_names(RR)})
            # ... and glob itself, addressed through dir_fd, agrees with REALPATH globmatch through dir_fd
            for pat in ('*/', '*', '**/', 'v*/', '*/*'):
                for RR in (Gm.GLOBSTAR, Gm.GLOBSTAR | Gm.NODIR, Gm.GLOBSTAR | Gm.MARK):
                    n += 1
                    res_fd = sorted(Gm.glob(pat, flags=RR, dir_fd=fd))
                    res_rd = sorted(Gm.glob(pat, flags=RR, root_dir=T.root))
                    if res_fd != res_rd:
                        ctx.counterexample('glob(%r, %s) differs between dir_fd and root_dir' % (pat, corr.flag_names(RR)), {'pattern': pat, 'dir_fd': res_fd[:8], 'root_dir': res_rd[:8]})
                    for x in res_fd:
                        if not Gm.globmatch(x, pat, flags=RR | Gm.REALPATH, dir_fd=fd):
                            ctx.counterexample('glob(%r, %s, dir_fd) returns %r which REALPATH globmatch(dir_fd) rejects' % (pat, corr.flag_names(RR), x),
                                               {'pattern': pat, 'path': x, 'flags': corr.flag_names(RR)})
                            break
        finally:
            os.chdir(old)
            os.close(fd)
    ctx.counted('REALPATH side clauses and root naming', n, n // 2, [{'pattern': '*/', 'path': 'vis'}])
    from props import globcommon as _gcm
    nm_ = _gcm.mixed_abs_rel(ctx, rng, 3 if ctx.quick else 10)
    ctx.counted('lists mixing absolute and relative patterns', nm_, nm_ // 2, [{'patterns': ['<root>/to?', '*/*']}])
    # the REALPATH decision procedure itself: extracted RealMatch model vs _Match.match(real=True), regexes real and made up
    ctx.corr('REALPATH decision (_Match.match)', corr.corr_realpath(rng, [trees.DESIGNED[0], trees.DESIGNED[3], trees.DESIGNED[1], trees.DESIGNED[2]] +
                                                                   [trees.random_spec(rng, size=rng.randint(6, 12), cycles=False) for _ in range(2 if ctx.quick else 12)],
                                                                   150 if ctx.quick else 600))
    nin_ = _gcm.inert_arguments(ctx, rng, 3 if ctx.quick else 6)
    ctx.counted('arguments that cannot change the answer (inert exclude=, root spelling, NOUNIQUE)', nin_, nin_ // 2, [{'pattern': '**', 'exclude': 'zz-no-such-name*'}])
    nfr_ = _gcm.fringe_names(ctx)
    ctx.counted('non-ASCII entry names: exact spellings are found, the walk stays inside the matcher', nfr_, nfr_ // 2, [{'entry': '\u0130stanbul.txt', 'flags': 'IGNORECASE'}])
    ntn_ = _gcm.trailing_newline_names(ctx)
    ctx.counted('names ending in a line feed: walk (str, bytes, dir_fd, descriptor 0, pathlib) vs REALPATH matcher', ntn_, ntn_ // 2, [{'pattern': '[b]', 'entry': 'b\\n'}])
    nug_ = _gcm.unclosed_group_paths(ctx)
    ctx.counted('unclosed groups in path patterns: walker vs matcher', nug_, nug_ // 2, [{'pattern': '@(a/[b'}])
    nsp_ = _gcm.spelling_equiv(ctx, rng, 2 if ctx.quick else 8, 20 if ctx.quick else 80)
    ctx.counted('walk and REALPATH matcher under respelled separator runs', nsp_, nsp_ // 2, [{'pattern': 'sub\\//**/f*', 'same_as': 'sub/**/f*'}])
    from wcmatch import glob as G2
    common.replay_witnesses(ctx, [
        ('C04-icase-lower-vs-regex', "under IGNORECASE glob('i\\u0307x') returns the entry '\\u0130x' that globmatch rejects, and glob('s') misses the entry '\\u017f' that globmatch accepts (str.lower() in the walker, re.IGNORECASE in the matcher)",
         _gcm.icase_lower_vs_regex_witness),
    ])
    from props import glue
    glue.copied_matchers(ctx)
    glue.deep_tree_state(ctx)
    glue.dirfd_dangling(ctx)
    from props import clauses
    clauses.mixed_globstars(ctx)
    return ctx.finish(RULE)


def replay(data):
    print(json.dumps(data, indent=1))
    return 0
