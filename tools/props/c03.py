"""C03 - hidden names and the special directories are never matched by wildcards."""
import json
import corr
import astgen
from wclib import import_impl, seeded_rng
from props import common, globcommon
from props.c02 import has_hidden_segment, group_first_segment, group_segment_can_be_empty, group_then_wild, n_nonempty, n_spat

RULE = ('proof obligations: Properties/C03.v. correspondence: exact regex text (fnmatch and path flag sets without '
        'DOTMATCH, NODOTDIR, exclusion routes). search: names/paths with a segment beginning with `.` (and `.`/`..` '
        'segments under DOTGLOB): implementation must lie between the lower bound (granted clause) and the upper '
        'bound (a protected dot is consumed by a written dot only) of Spec.den/pden. non-trivial = pattern with at '
        'least one accepted and one rejected hidden name')


def flagsets():
    F = corr.fl
    P = 'PATHNAME'
    return [0, F('EXTMATCH'), F(P, 'GLOBSTAR', 'EXTMATCH'), F(P, 'GLOBSTAR', 'EXTMATCH', 'NODOTDIR'),
            F(P, 'GLOBSTAR', 'EXTMATCH', 'NODOTDIR', 'DOTMATCH'), F(P, 'GLOBSTAR', 'MATCHBASE'),
            F(P, 'GLOBSTAR', 'EXTMATCH', 'DOTMATCH', '_NO_GLOBSTAR_CAPTURE'), F(P, '_EXTMATCHBASE', 'GLOBSTAR')]


def seg_tokens(ast):
    return [s.split('.') if s not in ('g', 'G') else [s] for s in ast.split(':')[1].split('/')]


def star_then_wild(toks):
    """a segment that begins with `*` directly followed by a wildcard token (?, bracket, group)"""
    return len(toks) >= 2 and toks[0] == 's' and toks[1][0] in 'qbx'


def flat_classifiers():
    return [
        ('C03-group-then-wild', lambda m: m['name'] is not None and not m['dot'] and m['name'].startswith('.') and
         m['impl'] is True and m['ub'] is False and globcommon.gtw_seq(globcommon.split_top(m['ast'], '.'))),
        ('C01-excl-newline', lambda m: m['name'] is not None and m['name'].endswith('\n') and 'xN' in m['ast']
         and m['impl'] is False),
        ('C01-group-dot-guard-repeat', lambda m: m['name'] is not None and m['ast'].startswith('x') and
         ('xS' in m['ast'] or 'xP' in m['ast']) and '.' in m['name'][1:] and m['impl'] is False and m['lb'] is True),
    ]


def negated_group_lists_dot(ast):
    """a segment that starts with `!(...)` one of whose alternatives starts with a written dot"""
    for toks in globcommon.top_tokens(ast):
        if toks and toks[0].startswith('xN('):
            for alt in globcommon.split_top(toks[0][3:-1], ';'):
                first = globcommon.split_top(alt, '.')[0] if alt else ''
                if first in ('l2e', 'e2e'):
                    return True
    return False


def path_classifiers():
    return [
        ('C03-star-guard-inside-optional', lambda m: m['name'] is not None and m['impl'] is True and m['ub'] is False and
         has_hidden_segment(m['name']) and globcommon.star_then_wild(m['ast'])),
        ('C03-group-then-wild', lambda m: m['name'] is not None and m['impl'] is True and m['ub'] is False and
         has_hidden_segment(m['name']) and group_then_wild(m['ast'])),
        ('C03-negated-group-dotted-alternative', lambda m: m['name'] is not None and m['impl'] is True and m['ub'] is False and m['cfg']['dot'] and
         any(sg in ('.', '..') for sg in m['name'].split('/')) and negated_group_lists_dot(m['ast'])),
        ('C03-prefix-gstar-hidden', lambda m: m['name'] is not None and m['impl'] is True and m['ub'] is False and
         has_hidden_segment(m['name']) and m['cfg']['mb'] and m['cfg']['gs'] and m['ast'].split(':')[1].split('/')[0] in ('g', 'G')),
        ('C02-group-segment-empty', lambda m: m['name'] is not None and m['impl'] is True and m['ub'] is False and
         group_segment_can_be_empty(m['ast']) and
         (m['cfg']['mb'] or '//' in m['name'] or m['name'].endswith('/') or n_nonempty(m['name']) < n_spat(m['ast'])
          or any(s in ('g', 'G') for s in m['ast'].split(':')[1].split('/')))),
        ('C02-globstar-div-newline', lambda m: m['name'] is not None and m['impl'] is True and m['ub'] is False and
         m['name'].endswith('\n') and len(m['name']) >= 2 and m['name'][-2] != '/' and
         any(sg in ('g', 'G') for sg in m['ast'].split(':')[1].split('/')[:-1])),
        ('C02-dotdir-guard-newline', lambda m: m['name'] is not None and m['impl'] is False and m['lb'] is True and
         m['name'].rstrip('/').split('/')[-1] in ('.\n', '..\n')),
        ('C01-group-dot-guard-repeat', lambda m: m['name'] is not None and m['impl'] is False and m['lb'] is True and
         any(s.startswith('x') and ('xS' in s or 'xP' in s) for s in m['ast'].split(':')[1].split('/')) and
         any('.' in s[1:] for s in m['name'].split('/'))),
    ]


def run(ctx):
    import_impl()
    from wcmatch import glob as Gm, fnmatch as Fm, pathlib as PL
    rng, seed = seeded_rng('c03')
    ctx.proof('Properties/C03.v')
    res = common.parse_text_corr(ctx, 'wcparse text (dot-sensitive flag sets)', flagsets())
    F = corr.flags()

    # ---- fnmatch mode, hidden names --------------------------------------------------------------------
    g = astgen.Gen(rng, lits='ab.')
    asts = [astgen.seq_str(t) for t in astgen.flat_seqs(2 if ctx.quick else 3)]
    asts += [astgen.seq_str(g.seq()) for _ in range(250 if ctx.quick else 3000)]
    asts = sorted(set(asts))
    dm = []
    for a, fv in common.directed_asts(res, 'flat'):
        if not fv & F['PATHNAME'] and not fv & F['DOTMATCH']:
            dm += corr.search_den([a], [(0, 0, 0)], maxlen=4, hidden='only')[2]
    ev, nt, mism = corr.search_den(asts, [(0, 0, 0), (1, 0, 0)], maxlen=4, hidden='only')
    hits, rest = common.attribute(
        ctx, dm + mism, flat_classifiers(),
        lambda m: 'fnmatch(%r, %r, %s) = %r; bounds for a hidden name: granted=%s allowed=%s' % (
            m['name'], m['pattern'], m['flags'], m['impl'], m['lb'], m['ub']))
    ctx.counted('fnmatch hidden names vs Spec.den bounds', ev, nt, [{'ast': a} for a in asts[:2]],
                {'attributed': {k: len(v) for k, v in hits.items()}, 'unattributed': len(rest)})

    # ---- path mode: hidden segments, `.`/`..` ----------------------------------------------------------------
    gp = astgen.Gen(rng, lits='ab.', path=True)
    pps = sorted(set(gp.ppat(long_=False) for _ in range(260 if ctx.quick else 2500)))
    dm = []
    for a, fv in common.directed_asts(res, 'path'):
        if fv & F['PATHNAME'] and not fv & F['NODOTDIR']:
            cf = dict(ci=0, dot=int(bool(fv & F['DOTMATCH'])), gs=int(bool(fv & F['GLOBSTAR'])), gl=0,
                      mb=int(bool(fv & F['MATCHBASE'])))
            dm += corr.search_pden([a], [cf], maxlen=5)[2]
    cfgs = [dict(ci=0, dot=0, gs=1, gl=0, mb=0), dict(ci=0, dot=1, gs=1, gl=0, mb=0), dict(ci=0, dot=0, gs=1, gl=0, mb=1),
            dict(ci=0, dot=0, gs=0, gl=0, mb=0)]
    ev, nt, mism = corr.search_pden(pps, cfgs, maxlen=5)
    mism = [m for m in dm + mism if m['name'] is None or
            (not m['cfg']['dot'] and has_hidden_segment(m['name'])) or
            any(s in ('.', '..') for s in m['name'].split('/'))]
    hits, rest = common.attribute(
        ctx, mism, path_classifiers(),
        lambda m: 'globmatch(%r, %r, %s) = %r; bounds for hidden segments: granted=%s allowed=%s' % (
            m['name'], m['pattern'], m['flags'], m['impl'], m['lb'], m['ub']))
    ctx.counted('globmatch hidden segments vs Spec.pden bounds', ev, nt, [{'ppat': p} for p in pps[:2]],
                {'attributed': {k: len(v) for k, v in hits.items()}, 'unattributed': len(rest)})

    # ---- exclusion patterns always behave as if DOTGLOB were set; NODOTDIR; pathlib match prefix ---------------
    n = 0
    for name in ('.x', 'a/.x', '.a/b'):
        for pat in ('*', '**', '*/*', '?x'):
            fl_ = Gm.GLOBSTAR | Gm.NEGATE | Gm.FORCEUNIX
            # inclusion `**` with DOTGLOB accepts everything; the exclusion must bite on hidden names without DOTGLOB
            incl_dot = Gm.globmatch(name, pat, flags=Gm.GLOBSTAR | Gm.DOTGLOB | Gm.FORCEUNIX)
            for how, got in (('exclude=', Gm.globmatch(name, '**', flags=Gm.GLOBSTAR | Gm.DOTGLOB | Gm.FORCEUNIX, exclude=pat)),
                             ('inline !', Gm.globmatch(name, ['**', '!' + pat], flags=fl_ | Gm.DOTGLOB)),
                             ('exclude= (no DOTGLOB on the call)', Gm.globmatch(name, '.*/**' if False else ['**', '.**', '**/.*', '.*/**'], flags=Gm.GLOBSTAR | Gm.FORCEUNIX, exclude=pat)),
                             ('fnmatch exclude=', None)):
                if got is None:
                    continue
                n += 1
                if got == incl_dot:
                    ctx.counterexample('exclusion pattern %r (%s) does not behave as with DOTGLOB on %r' % (pat, how, name),
                                       {'name': name, 'pattern': pat, 'how': how, 'got': got})
    for name in ('.x', '.ab'):
        for pat in ('*', '?x', '[.]x', '*b'):
            n += 1
            d = Fm.fnmatch(name, pat, flags=Fm.DOTMATCH | Fm.FORCEUNIX)
            got = Fm.fnmatch(name, '.*', flags=Fm.FORCEUNIX, exclude=pat)
            if got == d:
                ctx.counterexample('fnmatch exclude=%r does not behave as with DOTMATCH on %r' % (pat, name),
                                   {'name': name, 'pattern': pat, 'got': got})
    # ... and the DOTGLOB forced on exclusions never leaks into the inclusions of the same call, wherever the exclusion stands
    # (first, last, between; list, SPLIT, BRACE; NEGATEALL's implied `**`; the compiled object, filter and translate)
    import re as _re
    for mode, api in (('glob', Gm), ('fnmatch', Fm)):
        base = (Gm.GLOBSTAR if mode == 'glob' else 0) | api.FORCEUNIX
        names_ = ['.a', 'a', '.ab', 'b'] + (['x/.a', 'x/a', '.x/a'] if mode == 'glob' else [])
        incls = ['*', '?a', '[.]a', '*a', '?*'] + (['**/*', '*/*', '**'] if mode == 'glob' else [])
        mt = (lambda n_, p_, fl_: Gm.globmatch(n_, p_, flags=fl_)) if mode == 'glob' else (lambda n_, p_, fl_: Fm.fnmatch(n_, p_, flags=fl_))
        for inc in incls:
            for nm_ in names_:
                want = mt(nm_, inc, base)
                forms = {
                    'list, exclusion first': (['!zz', inc], api.NEGATE),
                    'list, exclusion last': ([inc, '!zz'], api.NEGATE),
                    'list, exclusion between': ([inc, '!zz', inc + ''], api.NEGATE),
                    'SPLIT, exclusion first': ('!zz|' + inc, api.NEGATE | api.SPLIT),
                    'SPLIT, exclusion last': (inc + '|!zz', api.NEGATE | api.SPLIT),
                    'BRACE': ('{!zz,' + inc + '}', api.NEGATE | api.BRACE),
                    'MINUSNEGATE first': (['-zz', inc], api.NEGATE | api.MINUSNEGATE),
                    'two exclusions first': (['!zz', '!yy', inc], api.NEGATE),
                }
                for how, (pl_, xf) in forms.items():
                    n += 1
                    got = mt(nm_, pl_, base | xf)
                    gotc = api.compile(pl_, flags=base | xf).match(nm_)
                    gotf = bool((Gm.globfilter if mode == 'glob' else Fm.filter)([nm_], pl_, flags=base | xf))
                    pos_, neg_ = api.translate(pl_, flags=base | xf)
                    gott = any(_re.fullmatch(r_, nm_) for r_ in pos_) and not any(_re.fullmatch(r_, nm_) for r_ in neg_)
                    if not (got == gotc == gotf == gott == want):
                        ctx.counterexample('%s %r (%s) on %r: match=%r compile=%r filter=%r translate=%r but the inclusion pattern alone gives %r (the dot rule of an inclusion does not depend on the exclusions around it)' % (
                            mode, pl_, how, nm_, got, gotc, gotf, gott, want), {'api': mode, 'patterns': pl_, 'name': nm_, 'flags': corr.flag_names(base | xf)})
                        break
        # NEGATEALL: the implied match-everything pattern follows the dot rule of the call
        for nm_ in names_:
            for dotf in (0, api.DOTMATCH):
                n += 1
                got = mt(nm_, '!zz', base | api.NEGATE | api.NEGATEALL | dotf)
                want = mt(nm_, '**' if mode == 'glob' else '*', base | dotf)
                if got != want:
                    ctx.counterexample('%s(%r, "!zz", NEGATE|NEGATEALL%s) = %r but the match-everything pattern alone gives %r' % (
                        mode, nm_, '|DOTMATCH' if dotf else '', got, want), {'api': mode, 'name': nm_, 'flags': corr.flag_names(base | api.NEGATE | api.NEGATEALL | dotf)})
    # NODOTDIR: only the literal segment patterns `.` and `..` match them
    for name in ('.', '..', 'a/.', 'a/..', './a', '../a'):
        for pat in ('.*', '.?', '.[.]', '.', '..', 'a/.*', 'a/.', 'a/..', './a', '../a', '.*/a', '.@(x|.)'):
            n += 1
            got = Gm.globmatch(name, pat, flags=Gm.NODOTDIR | Gm.DOTGLOB | Gm.EXTGLOB | Gm.FORCEUNIX)
            nsegs = name.split('/')
            psegs = pat.split('/')
            if len(nsegs) != len(psegs):
                continue
            lit = all((ps == ns) if ns in ('.', '..') else True for ps, ns in zip(psegs, nsegs))
            if got and not lit:
                ctx.counterexample('NODOTDIR: %r matches %r although the `.`/`..` segment is not written literally' % (pat, name),
                                   {'name': name, 'pattern': pat, 'flags': 'NODOTDIR|DOTGLOB|EXTGLOB'})
            # a literal `.`/`..` segment stays literal however the separators around it are spelled
            for pat2 in common.separator_respellings(pat, rng, k=2):
                if pat2.endswith('\\') and not pat.endswith('\\'):
                    continue
                n += 1
                for fl2 in (Gm.NODOTDIR | Gm.DOTGLOB | Gm.EXTGLOB | Gm.FORCEUNIX, Gm.NODOTDIR | Gm.FORCEUNIX, Gm.NODOTDIR | Gm.GLOBSTAR | Gm.FORCEUNIX):
                    g1, g2 = Gm.globmatch(name, pat, flags=fl2), Gm.globmatch(name, pat2, flags=fl2)
                    if g1 != g2:
                        ctx.counterexample('NODOTDIR: globmatch(%r, %r, %s) = %r but with the separators respelled (%r) it is %r' % (name, pat, corr.flag_names(fl2), g1, pat2, g2),
                                           {'name': name, 'pattern': pat2, 'same_as': pat, 'flags': corr.flag_names(fl2)})
                        break
    # ... and the pathlib front end hands NODOTDIR on (it keeps `..` segments; `.` segments are normalised away)
    from wcmatch import pathlib as PLm
    for name in ('..', 'a/..', '../a', 'a/../b', '../..'):
        for pat in ('.*', '.?', '..*', '..', 'a/.*', 'a/..', '../a', '.*/a', '@(.*)', 'a/.*/b', '*/.*', '.*/.*'):
            for meth in ('globmatch', 'match', 'full_match'):
                n += 1
                fvp = PLm.NODOTDIR | PLm.DOTGLOB | PLm.EXTGLOB
                got = getattr(PLm.PurePosixPath(name), meth)(pat, flags=fvp)
                want = Gm.globmatch(name, pat, flags=Gm.NODOTDIR | Gm.DOTGLOB | Gm.EXTGLOB | Gm.FORCEUNIX) if meth != 'match' else None
                if meth == 'match':
                    # recursive match: the pattern may match a tail of the path; without magic prefix handling compare on equal depth only
                    if len(name.split('/')) != len(pat.split('/')):
                        continue
                    want = Gm.globmatch(name, pat, flags=Gm.NODOTDIR | Gm.DOTGLOB | Gm.EXTGLOB | Gm.FORCEUNIX)
                if got != want:
                    ctx.counterexample('PurePosixPath(%r).%s(%r, NODOTDIR|DOTGLOB|EXTGLOB) = %r, glob.globmatch gives %r' % (name, meth, pat, got, want),
                                       {'name': name, 'pattern': pat, 'method': meth, 'flags': 'NODOTDIR|DOTGLOB|EXTGLOB'})
    ctx.counted('exclusion-as-DOTGLOB and NODOTDIR probes', n, n // 2, [{'name': '.x', 'exclude': '*'}])

    # ---- real trees: patterns without a written leading dot never return (or walk through) a hidden entry --------------
    import trees
    from wcmatch import wcmatch as WM
    from props import globcommon
    HID_TREES = [trees.DESIGNED[0], trees.DESIGNED[2],
                 [('real', 'd', None), ('real/x.txt', 'f', None), ('real/.l', 'l', '.'), ('.hl', 'l', 'real'), ('real/sub', 'd', None),
                  ('real/sub/.hidden.txt', 'f', None), ('real/sub/.hd', 'd', None), ('real/sub/.hd/y.txt', 'f', None), ('.top.txt', 'f', None)],
                 # several hidden (and excluded) directories next to each other in one listing, whatever order the OS returns
                 [('top.txt', 'f', None), ('.cache', 'd', None), ('.cache/c.txt', 'f', None), ('.git', 'd', None), ('.git/g.txt', 'f', None),
                  ('.git/objects', 'd', None), ('.git/objects/o.txt', 'f', None), ('.a', 'd', None), ('.a/a.txt', 'f', None), ('.b', 'd', None),
                  ('.b/b.txt', 'f', None), ('sub', 'd', None), ('sub/.x', 'd', None), ('sub/.x/x.txt', 'f', None), ('sub/.y', 'd', None), ('sub/.y/y.txt', 'f', None),
                  ('sub/s.txt', 'f', None), ('zz1', 'd', None), ('zz1/z.txt', 'f', None), ('zz2', 'd', None), ('zz2/z.txt', 'f', None)]]
    nodot_pats = [('**', 0), ('**/*', 0), ('*', 0), ('*/*', 0), ('**/*.txt', 0), ('*.txt', Gm.MATCHBASE), ('**/', 0), ('*/**/', 0), ('[!a]*', 0),
                  ('**/[!a]*', 0), ('?*', 0), ('**/?*.txt', 0), ('***/*.txt', Gm.GLOBSTARLONG), ('***', Gm.GLOBSTARLONG), ('x.txt', Gm.MATCHBASE),
                  ('**/sub/*', 0), ('*/sub/**', 0), ('@(real|*)/**', Gm.EXTGLOB), ('**/*(?)', Gm.EXTGLOB)]
    nt_ = 0
    n_t = 0
    for t in range(len(HID_TREES) + (3 if ctx.quick else 30)):
        spec = HID_TREES[t] if t < len(HID_TREES) else trees.random_spec(rng, size=rng.randint(6, 14), cycles=False)
        with trees.Tree(spec) as T:
            cyc = globcommon.has_dir_cycle(T.root)
            for pat, extra in nodot_pats:
                for fl_ in (0, Gm.FOLLOW, Gm.MARK, Gm.FOLLOW | Gm.MATCHBASE, Gm.SCANDOTDIR):
                    fv = Gm.GLOBSTAR | extra | fl_
                    if cyc and (fv & (Gm.FOLLOW | Gm.GLOBSTARLONG)):
                        continue
                    if pat.startswith(('@(', '**/*(')) and True:
                        known_site = True      # a segment that starts with a group: C03-group-then-wild
                    else:
                        known_site = False
                    n_t += 1
                    try:
                        got = globcommon.with_alarm(10, lambda: Gm.glob(pat, flags=fv, root_dir=T.root))
                    except globcommon.Alarm:
                        continue
                    bad = [x for x in got if any(sg.startswith('.') for sg in x.rstrip('/').split('/'))]
                    if got:
                        nt_ += 1
                    if bad and not known_site:
                        ctx.counterexample('glob(%r, %s) on a real tree returns %r: a hidden entry matched (or walked through) by a wildcard' % (
                            pat, corr.flag_names(fv), bad[:4]), {'pattern': pat, 'flags': corr.flag_names(fv), 'tree': spec, 'hidden_results': bad[:10]})
            # pathlib rglob / glob and WcMatch without HIDDEN
            for pat, pfl in (('*.txt', PL.GLOBSTAR), ('*.txt', PL.GLOBSTAR | PL.FOLLOW), ('*', PL.GLOBSTAR | PL.FOLLOW)):
                if cyc and pfl & PL.FOLLOW:
                    continue
                n_t += 1
                got = [str(x.relative_to(T.root)) for x in PL.Path(T.root).rglob(pat, flags=pfl)]
                bad = [x for x in got if any(sg.startswith('.') for sg in x.split('/'))]
                if bad:
                    ctx.counterexample('Path.rglob(%r, %s) returns hidden entries %r' % (pat, corr.flag_names(pfl), bad[:4]),
                                       {'pattern': pat, 'flags': corr.flag_names(pfl), 'tree': spec, 'hidden_results': bad[:10]})
            for wfl in (WM.RECURSIVE, WM.RECURSIVE | WM.SYMLINKS, WM.RECURSIVE | WM.DIRPATHNAME | WM.FILEPATHNAME | WM.GLOBSTAR):
                if cyc and wfl & WM.SYMLINKS:
                    continue
                for fpat, xpat in (('*', ''), ('*', 'zz*'), ('*.txt|*', 'sub'), ('**/*' if wfl & WM.FILEPATHNAME else '*', 'nomatch|other')):
                    n_t += 1
                    got = [globcommon.os.path.relpath(x, T.root) for x in WM.WcMatch(T.root, fpat, xpat, flags=wfl).match()]
                    bad = [x for x in got if any(sg.startswith('.') for sg in x.split('/'))]
                    if bad:
                        ctx.counterexample('WcMatch(%r, exclude %r, flags %#x) without HIDDEN returns %r' % (fpat, xpat, wfl, bad[:4]),
                                           {'tree': spec, 'file_pattern': fpat, 'exclude_pattern': xpat, 'flags': wfl, 'hidden_results': bad[:10]})
    ctx.counted('real trees: no hidden entry for patterns without a written dot', n_t, nt_, [{'pattern': '**/*.txt', 'flags': 'GLOBSTAR|FOLLOW'}])
    common.replay_witnesses(ctx, [
        ('C03-star-guard-inside-optional', "globmatch('.a', '*?a') is True (the dot guard of a segment-initial `*` sits inside its optional group)",
         lambda: Gm.globmatch('.a', '*?a', flags=Gm.FORCEUNIX) is True),
        ('C03-group-then-wild', "globmatch('.a', '?(x)*', EXTGLOB) is True (a wildcard after a group that matched empty is unguarded)",
         lambda: Gm.globmatch('.a', '?(x)*', flags=Gm.EXTGLOB | Gm.FORCEUNIX) is True),
        ('C03-prefix-gstar-hidden', "globmatch('x/.a', '**', GLOBSTAR|MATCHBASE) is True and PurePath('sub/.h').match('**', GLOBSTAR) is True",
         lambda: Gm.globmatch('x/.a', '**', flags=Gm.GLOBSTAR | Gm.MATCHBASE | Gm.FORCEUNIX) is True and
         PL.PurePosixPath('sub/.h').match('**', flags=PL.GLOBSTAR) is True),
        ('C03-negated-group-dotted-alternative', "globmatch('..', '!(.a)', EXTGLOB|DOTGLOB) is True (with `!(a)` it is False: the guard against `.`/`..` is left out when the list names something dotted)",
         lambda: Gm.globmatch('..', '!(.a)', flags=Gm.EXTGLOB | Gm.DOTGLOB | Gm.FORCEUNIX) is True and Gm.globmatch('..', '!(a)', flags=Gm.EXTGLOB | Gm.DOTGLOB | Gm.FORCEUNIX) is False),
    ])
    from props import fringe
    fringe.star_runs(ctx)
    fringe.dot_newline(ctx)
    from props import glue
    glue.bytes_dirfd_hidden(ctx)
    return ctx.finish(RULE)


def replay(data):
    print(json.dumps(data, indent=1))
    return 0
