"""C09 - escape makes any string literal; non-magic patterns are literal."""
import json
import corr
from wclib import import_impl, seeded_rng, strings_upto, Model, enc, dec

RULE = ('proof: Properties/C09.v (every symbol is_magic looks for under any flag word is neutralised by escape; escape '
        'output consists of `\\c` pairs and never-magic characters; is_magic is exactly membership) over sets '
        'regenerated from the source. correspondence: extracted escape/is_magic vs fnmatch.escape, glob.escape(unix='
        'True) and is_magic on all strings up to the tier length over the full metacharacter alphabet, str and bytes, '
        'random flag subsets. search: for every string s and random subset of the 13 feature flags: escape(s) matches '
        's and none of its edit-distance-1 neighbours (modulo case folding and separator equivalences), in fnmatch '
        'and glob mode incl. Windows drive/UNC shapes with unix=False; is_magic False => the pattern matches exactly '
        'itself. non-trivial = string containing a metacharacter')

ALPHA = list('ab.*?[]!-()|\\/+@{},~^\n') + ['é']


def neighbours(s, rng, k=12):
    out = set()
    for i in range(len(s) + 1):
        for c in 'ab*\\/.x':
            out.add(s[:i] + c + s[i:])
        if i < len(s):
            out.add(s[:i] + s[i + 1:])
            out.add(s[:i] + ('x' if s[i] != 'x' else 'y') + s[i + 1:])
    out.discard(s)
    out = sorted(out)
    rng.shuffle(out)
    # a trailing / leading line feed is always tried (`$` vs end of string, match vs fullmatch)
    return out[:k] + [s + '\n', '\n' + s]


def run(ctx):
    import_impl()
    from wcmatch import fnmatch as Fm, glob as Gm
    rng, seed = seeded_rng('c09')
    ctx.proof('Properties/C09.v')
    strs = list(strings_upto('a*?[]!-()|\\/{}~.\n', 3 if ctx.quick else 4))
    for _ in range(2000 if ctx.quick else 20000):
        strs.append(''.join(rng.choice(ALPHA) for _ in range(rng.randint(1, 9))))
    strs = sorted(set(strs))
    # ---- correspondence of the small models -----------------------------------------------------------------
    m = Model()
    reqs, exp = [], []
    Fall = [Fm.EXTMATCH, Fm.BRACE, Fm.SPLIT, Fm.NEGATE, Fm.MINUSNEGATE, Fm.NEGATEALL, Fm.DOTMATCH, Fm.RAWCHARS, Fm.IGNORECASE]
    Gall = Fall + [Gm.GLOBTILDE, Gm.GLOBSTAR, Gm.NODOTDIR]
    for s in strs:
        for isb in (0, 1):
            if isb and any(ord(c) > 255 for c in s):
                continue
            S = s.encode('latin-1') if isb else s
            reqs.append('escape %d %s' % (isb, enc(s)))
            e1 = Fm.escape(S)
            e2 = Gm.escape(S, unix=True)
            exp.append(enc(e1) if e1 == e2 else 'DIFF %r %r' % (e1, e2))
            fv = 0
            for x in Gall:
                if rng.random() < 0.4:
                    fv |= x
            reqs.append('ismagic %d %d %s' % (isb, fv | Gm.FORCEUNIX, enc(s)))
            a = Gm.is_magic(S, flags=fv | Gm.FORCEUNIX)
            exp.append('1' if a else '0')
    outs = m.run(reqs, nproc=8)
    dis = [{'kind': 'escape/is_magic', 'request': r, 'impl': e, 'model': o} for r, o, e in zip(reqs, outs, exp) if o != e]
    ctx.corr('escape / is_magic models', corr.result(len(reqs), len(set(reqs)) // 2, dis, [{'request': reqs[len(reqs) // 2]}]))

    # ---- search --------------------------------------------------------------------------------------------------
    evals = 0
    nontriv = set()
    for s in strs:
        if not s:
            continue
        for mode in ('fnmatch', 'glob'):
            api = Fm if mode == 'fnmatch' else Gm
            fv = api.FORCEUNIX
            for x in (Fall if mode == 'fnmatch' else Gall):
                if rng.random() < 0.45:
                    fv |= x
            if fv & api.RAWCHARS and '\\' in s:
                pass
            mt = (lambda n, p: Fm.fnmatch(n, p, flags=fv)) if mode == 'fnmatch' else (lambda n, p: Gm.globmatch(n, p, flags=fv))
            e = api.escape(s) if mode == 'fnmatch' else Gm.escape(s, unix=True)
            ci = bool(fv & api.IGNORECASE) and not bool(fv & api.CASE)

            def same(a, b):
                if ci:
                    a, b = a.lower(), b.lower()
                if mode == 'glob':
                    import re
                    a = re.sub('/+', '/', a).rstrip('/') or a[:1]
                    b = re.sub('/+', '/', b).rstrip('/') or b[:1]
                return a == b
            evals += 1
            if any(c in s for c in '*?[]()|!{}\\~-'):
                nontriv.add(s)
            try:
                r = mt(s, e)
            except Exception as ex:
                ctx.counterexample('%s(%r, escape(%r)=%r, %s) raised %s' % (mode, s, s, e, corr.flag_names(fv), type(ex).__name__),
                                   {'string': s, 'escaped': e, 'flags': corr.flag_names(fv)})
                continue
            hidden_ok = True
            if not r:
                ctx.counterexample('%s(%r, escape(%r)=%r, %s) is False' % (mode, s, s, e, corr.flag_names(fv)),
                                   {'string': s, 'escaped': e, 'flags': corr.flag_names(fv), 'mode': mode})
                continue
            for n in neighbours(s, rng, 8):
                evals += 1
                if not n:
                    continue
                if mt(n, e) and not same(n, s):
                    ctx.counterexample('%s: escape(%r)=%r also matches %r (%s)' % (mode, s, e, n, corr.flag_names(fv)),
                                       {'string': s, 'escaped': e, 'other': n, 'flags': corr.flag_names(fv), 'mode': mode})
                    break
            # is_magic False => p matches exactly p (without MATCHBASE)
            im = api.is_magic(s, flags=fv)
            if not im:
                evals += 1
                if not mt(s, s):
                    ctx.counterexample('%s: is_magic(%r, %s) is False but the pattern does not match itself' % (mode, s, corr.flag_names(fv)),
                                       {'pattern': s, 'flags': corr.flag_names(fv), 'mode': mode})
                else:
                    for n in neighbours(s, rng, 6):
                        evals += 1
                        if n and mt(n, s) and not same(n, s):
                            ctx.counterexample('%s: non-magic pattern %r also matches %r (%s)' % (mode, s, n, corr.flag_names(fv)),
                                               {'pattern': s, 'other': n, 'flags': corr.flag_names(fv), 'mode': mode})
                            break
    # the bytes route of the same law (the RAWCHARS decoder has a table of its own for bytes)
    for s0 in strs[:: 3 if ctx.quick else 1]:
        if not s0 or any(ord(c) > 255 for c in s0):
            continue
        for mode in ('fnmatch', 'glob'):
            api = Fm if mode == 'fnmatch' else Gm
            fv = api.FORCEUNIX | (api.RAWCHARS if rng.random() < 0.6 else 0) | (api.DOTMATCH if rng.random() < 0.5 else 0) | (api.EXTMATCH if rng.random() < 0.5 else 0)
            sb = s0.encode('latin-1')
            eb = api.escape(sb) if mode == 'fnmatch' else Gm.escape(sb, unix=True)
            mtb = (lambda n, p: Fm.fnmatch(n, p, flags=fv)) if mode == 'fnmatch' else (lambda n, p: Gm.globmatch(n, p, flags=fv))
            evals += 1
            try:
                ok = mtb(sb, eb)
            except Exception as ex:
                ctx.counterexample('%s(%r, escape(%r)=%r, %s) raised %s' % (mode, sb, sb, eb, corr.flag_names(fv), type(ex).__name__), {'string': repr(sb), 'flags': corr.flag_names(fv)})
                continue
            if not ok:
                ctx.counterexample('%s(%r, escape(%r)=%r, %s) is False' % (mode, sb, sb, eb, corr.flag_names(fv)), {'string': repr(sb), 'escaped': repr(eb), 'flags': corr.flag_names(fv), 'mode': mode})
                continue
            for n in neighbours(s0, rng, 6):
                if not n or any(ord(c) > 255 for c in n):
                    continue
                evals += 1
                canon = (lambda t: __import__('re').sub('/+', '/', t).rstrip('/') or t[:1]) if mode == 'glob' else (lambda t: t)
                if mtb(n.encode('latin-1'), eb) and canon(n) != canon(s0):
                    ctx.counterexample('%s (bytes): escape(%r)=%r also matches %r (%s)' % (mode, sb, eb, n.encode('latin-1'), corr.flag_names(fv)),
                                       {'string': repr(sb), 'escaped': repr(eb), 'other': repr(n), 'flags': corr.flag_names(fv), 'mode': mode})
                    break
    # names that look like a Windows drive or share, in fnmatch mode under Windows rules: there nothing is a drive, separators
    # are ordinary characters standing for either spelling - one each, no runs
    for s0 in ['c:/x', 'c:\\x', 'C:/a*b', '//s/h/f', '\\\\s\\h\\f', 'c:', 'c:/', '//?/c:/x', 'c:/a/b', 'd:x/y']:
        for extra in (0, Fm.EXTMATCH, Fm.DOTMATCH | Fm.BRACE | Fm.SPLIT):
            fv = Fm.FORCEWIN | extra
            e = Fm.escape(s0)
            evals += 1
            if not Fm.fnmatch(s0, e, flags=fv):
                ctx.counterexample('fnmatch(%r, fnmatch.escape(%r)=%r, %s) is False' % (s0, s0, e, corr.flag_names(fv)), {'string': s0, 'escaped': e, 'flags': corr.flag_names(fv)})
                continue
            fold = lambda t: t.lower().replace('\\', '/')
            cands = neighbours(s0, rng, 10) + [s0.replace('/', '//', 1), s0.replace('/', '/\\', 1), s0.replace('\\', '\\\\', 1), s0 + '/', s0.replace(':', ':/', 1)]
            for n in cands:
                evals += 1
                if n and fold(n) != fold(s0) and Fm.fnmatch(n, e, flags=fv):
                    ctx.counterexample('fnmatch.escape(%r) = %r also matches %r under %s' % (s0, e, n, corr.flag_names(fv)), {'string': s0, 'escaped': e, 'other': n, 'flags': corr.flag_names(fv)})
                    break
    # Windows drive / UNC shapes with unix=False
    shapes = ['c:/a*b', 'C:\\x{1}', '//srv/share/a|b', '//srv/a|b/x', '//srv/sh{a}re/f', '\\\\srv\\share\\[x]', '//?/c:/a*', '//?/UNC/h/s/x?',
              'c:a', '//./dev{1}/x', '//srv/share', 'c:/', '//srv/a~b/!x', '//srv/(a)/b', '//s-v/sh-re/-x']
    for s in shapes:
        for extra in (0, Gm.SPLIT, Gm.BRACE, Gm.SPLIT | Gm.BRACE | Gm.EXTGLOB | Gm.NEGATE | Gm.GLOBTILDE):
            fv = Gm.FORCEWIN | extra
            e = Gm.escape(s, unix=False)
            evals += 1
            if not Gm.globmatch(s, e, flags=fv):
                ctx.counterexample('glob.escape(%r, unix=False) = %r does not match the path under %s' % (s, e, corr.flag_names(fv)),
                                   {'string': s, 'escaped': e, 'flags': corr.flag_names(fv)})
                continue
            for n in neighbours(s, rng, 10) + [s.split('|')[-1], s.split('|')[0], s.replace('{', '').replace('}', '')]:
                evals += 1
                if n and n.lower().replace('\\', '/').rstrip('/') != s.lower().replace('\\', '/').rstrip('/') and Gm.globmatch(n, e, flags=fv):
                    import re
                    if re.sub(r'[\\/]+', '/', n.lower()).rstrip('/') == re.sub(r'[\\/]+', '/', s.lower()).rstrip('/'):
                        continue
                    ctx.counterexample('glob.escape(%r, unix=False) = %r also matches %r under %s' % (s, e, n, corr.flag_names(fv)),
                                       {'string': s, 'escaped': e, 'other': n, 'flags': corr.flag_names(fv)})
                    break
    # Windows rules, bounded-exhaustive: every string over {a, x, ., \, /, *, ?} up to the tier length that does not start with
    # two separators (no UNC shape) - `\` and `/` are both separators, case is folded, NODOTDIR may be on
    import re as _rw
    def wcanon(t, pathmode):
        t = t.lower().replace('\\', '/')
        if pathmode:
            t = _rw.sub('/+', '/', t)
            t = t.rstrip('/') or t[:1]
        return t
    wstrs = [w for w in strings_upto('ax.\\/*?', 4 if ctx.quick else 5) if w and not _rw.match(r'[\\/]{2}', w)]
    for w in wstrs:
        for mode in ('fnmatch', 'glob'):
            api = Fm if mode == 'fnmatch' else Gm
            fv = api.FORCEWIN
            for x in ((Fm.EXTMATCH, Fm.DOTMATCH, Fm.BRACE, Fm.SPLIT) if mode == 'fnmatch' else (Gm.EXTGLOB, Gm.DOTGLOB, Gm.NODOTDIR, Gm.GLOBSTAR, Gm.BRACE, Gm.SPLIT)):
                if rng.random() < 0.4:
                    fv |= x
            e = Fm.escape(w) if mode == 'fnmatch' else Gm.escape(w, unix=False)
            mt = (lambda n_, p_: Fm.fnmatch(n_, p_, flags=fv)) if mode == 'fnmatch' else (lambda n_, p_: Gm.globmatch(n_, p_, flags=fv))
            evals += 1
            if any(c in w for c in '*?\\'):
                nontriv.add(w)
            try:
                ok = mt(w, e)
            except Exception as ex:
                ctx.counterexample('%s(%r, escape(%r)=%r, %s) raised %s' % (mode, w, w, e, corr.flag_names(fv), type(ex).__name__),
                                   {'string': w, 'escaped': e, 'flags': corr.flag_names(fv), 'mode': mode})
                continue
            if not ok:
                ctx.counterexample('%s(%r, escape(%r)=%r, %s) is False' % (mode, w, w, e, corr.flag_names(fv)),
                                   {'string': w, 'escaped': e, 'flags': corr.flag_names(fv), 'mode': mode})
                continue
            for n_ in neighbours(w, rng, 6) + [w.replace('*', 'zzz'), w.replace('?', 'z'), w.replace('\\', '/'), w.replace('/', '\\')]:
                evals += 1
                if n_ and mt(n_, e) and wcanon(n_, mode == 'glob') != wcanon(w, mode == 'glob'):
                    ctx.counterexample('%s: escape(%r)=%r also matches %r under %s' % (mode, w, e, n_, corr.flag_names(fv)),
                                       {'string': w, 'escaped': e, 'other': n_, 'flags': corr.flag_names(fv), 'mode': mode})
                    break
    # device-namespace prefixes (`//?/`, `//./`, GLOBAL, UNC in any case): metacharacters inside the drive part are literal
    # for is_magic, for escape and for the matcher alike
    import re as _re
    devs = ['//?/GLOBAL/GLOBAL/x*y/f', '//?/GLOBAL/UNC/ser*/sh?re/f', '//?/GLOBAL/GLOBAL/UNC/srv/sh[ab]re/f', '//?/UNC/s*v/share/f',
            '//./GLOBAL/c:/a', '//?/GLOBAL/dev*1/f', '//?/global/global/global/c:/x', '//?/Volume{ab}/f', '//?/UNC/srv/sh{a,b}re/f',
            '//srv/sh*re/f', '//?/unc/Srv/Sh?re/f', '//./UNC/a*/b/f', '//?/GLOBAL/global/unc/h/s*/f', '//?/c:/f', '//?/GLOBAL/x?y', 'c:/f']
    # the same for bytes, and for drive prefixes written with backslash separators (no other metacharacter after the drive)
    bdevs = ['\\\\\\\\server\\\\share', '//server\\\\share/file', '//?/UNC/server\\\\share/x', '\\\\\\\\srv\\\\sh\\\\f', 'c:\\\\dir', '//srv/share/f', 'c:/f']
    for s_ in bdevs:
        for isb_ in (False, True):
            S_ = s_.encode('latin-1') if isb_ else s_
            fvb = Gm.FORCEWIN
            evals += 1
            try:
                imb = Gm.is_magic(S_, flags=fvb)
                selfm = Gm.globmatch(S_, S_, flags=fvb)
            except Exception as ex:
                ctx.counterexample('is_magic/globmatch(%r, FORCEWIN) raised %s' % (S_, type(ex).__name__), {'pattern': repr(S_)})
                continue
            if not imb and not selfm:
                ctx.counterexample('is_magic(%r, FORCEWIN) is False but the pattern does not match the name equal to itself' % (S_,),
                                   {'pattern': repr(S_), 'bytes': isb_, 'flags': 'FORCEWIN'})
            if imb != Gm.is_magic(s_, flags=fvb):
                ctx.counterexample('is_magic(%r, FORCEWIN) differs between str and bytes' % (s_,), {'pattern': s_})
    for s in devs:
        for extra in (0, Gm.CASE, Gm.BRACE | Gm.SPLIT, Gm.EXTGLOB | Gm.CASE):
            fv = Gm.FORCEWIN | extra
            evals += 1
            im = Gm.is_magic(s, flags=fv)
            e = Gm.escape(s, unix=False)
            variants = {s.replace('*', 'AA'), s.replace('?', 'z'), _re.sub(r'\[(.)[^\]]*\]', r'\1', s), _re.sub(r'\{(.)[^}]*\}', r'\1', s), s.replace('*', '')}
            variants.discard(s)
            if not Gm.globmatch(s, e, flags=fv):
                ctx.counterexample('glob.escape(%r, unix=False) = %r does not match the path under %s' % (s, e, corr.flag_names(fv)), {'string': s, 'escaped': e})
            for n in sorted(variants):
                evals += 1
                if Gm.globmatch(n, e, flags=fv):
                    ctx.counterexample('glob.escape(%r, unix=False) = %r also matches %r under %s' % (s, e, n, corr.flag_names(fv)),
                                       {'string': s, 'escaped': e, 'other': n, 'flags': corr.flag_names(fv)})
                if not im and Gm.globmatch(n, s, flags=fv):
                    ctx.counterexample('is_magic(%r, %s) is False but the pattern also matches %r' % (s, corr.flag_names(fv), n),
                                       {'pattern': s, 'other': n, 'flags': corr.flag_names(fv)})
            if not im and not Gm.globmatch(s, s, flags=fv):
                ctx.counterexample('is_magic(%r, %s) is False but the pattern does not match itself' % (s, corr.flag_names(fv)), {'pattern': s})
            # the drive part is a literal, case-insensitive prefix even under CASE (C17)
            if not im:
                sw = s.swapcase()[:s.rfind('/')] + s[s.rfind('/'):]
                evals += 1
                if not Gm.globmatch(sw, s, flags=fv):
                    ctx.counterexample('FORCEWIN: the drive part of %r does not match its case variant %r under %s' % (s, sw, corr.flag_names(fv)),
                                       {'pattern': s, 'name': sw, 'flags': corr.flag_names(fv)})
    ctx.counted('escape / is_magic behaviour', evals, len(nontriv), [{'string': 'a*[b]'}, {'string': '//srv/a|b/x'}])
    from props import globcommon as _gc9
    nfr_ = _gc9.fringe_names(ctx)
    ctx.counted('escaped entries and literal names on a tree of non-ASCII and case-twin names', nfr_, nfr_ // 2, [{'entry': '\u0130stanbul.txt', 'flags': 'IGNORECASE'}])
    from props import glue
    glue.filter_vs_match(ctx, rng)
    glue.escape_default_platform(ctx, rng)
    from props import clauses
    clauses.dotdot_paths(ctx)
    return ctx.finish(RULE)


def replay(data):
    print(json.dumps(data, indent=1))
    return 0
