"""C17 - case and platform flags select a consistent matching mode."""
import itertools
import json
import corr
import astgen
from wclib import import_impl, seeded_rng
from props import common

RULE = ('proof: Properties/C17.v (truth tables of the translated get_case/is_unix_style/_flag_transform; the spec is '
        'closed under ASCII case changes in insensitive mode). correspondence: exact regex text under every '
        'combination of CASE/IGNORECASE/FORCEWIN/FORCEUNIX in fnmatch and glob mode, str and bytes (Windows path mode '
        'without drive prefixes). search: for all 16 flag combinations x fnmatch/glob: insensitivity exactly as the '
        'table says; closure under case changes of name and literal pattern text; exact spelling in sensitive mode; '
        '/ and \\ interchangeable under FORCEWIN; FORCEWIN == Unix|IGNORECASE on backslash-free drive-free patterns; '
        'drive/UNC prefixes literal and case-insensitive. non-trivial = (pattern, name) pairs with mixed case')


def run(ctx):
    import_impl()
    from wcmatch import fnmatch as Fm, glob as Gm
    rng, seed = seeded_rng('c17')
    ctx.proof('Properties/C17.v')
    F = corr.fl
    fsets = []
    for bits in range(16):
        f = (F('CASE') if bits & 1 else 0) | (F('IGNORECASE') if bits & 2 else 0) | (F('FORCEWIN') if bits & 4 else 0) | \
            (F('FORCEUNIX') if bits & 8 else 0)
        fsets.append(f | F('EXTMATCH'))
        fsets.append(f | F('PATHNAME', 'GLOBSTAR', 'EXTMATCH'))
    common.parse_text_corr(ctx, 'wcparse text (case/platform flags)', fsets, quick_len=3, thorough_len=4,
                           extra_patterns=['Ab', 'aB*', '[a-c]X', 'a\\\\b', 'a\\\\\\\\b', 'A/b\\\\c', '\\\\\\\\a/**'], brackets=False, groups=not ctx.quick)

    # Windows drive / UNC prefixes: the scanner itself, and the parser text on patterns that start with one
    import itertools
    dtoks = ['\\\\', '/', 'a', 'c:', 'C:', '?', '.', '*', 'unc', 'UNC', 'global', 'GLOBAL', 'x', 'srv', 'sh', '//', '\\', '[ab]', '@(a|b)', '**', ':', '\n', '$', 'ſ:', 'K:']
    dpats = set(''.join(t) for n in range(0, 5) for t in itertools.product(['\\', '/', 'a', ':', '?', '.'], repeat=n))
    for _ in range(6000 if ctx.quick else 60000):
        dpats.add(''.join(rng.choice(dtoks) for _ in range(rng.randint(1, 9))))
    dpats = sorted(dpats)
    ctx.corr('_get_win_drive (regex text, plain text, slash, end)', corr.corr_windrive(dpats))
    ctx.corr('wcparse text (Windows rules, drive and UNC prefixes)',
             corr.corr_parse([p for p in dpats if '\n' not in p][:: 2 if ctx.quick else 1],
                             [F('FORCEWIN', 'PATHNAME'), F('FORCEWIN', 'PATHNAME', 'EXTMATCH', 'GLOBSTAR'), F('FORCEWIN', 'PATHNAME', 'CASE', 'REALPATH'),
                              F('FORCEWIN', 'PATHNAME', '_NOABSOLUTE', 'MATCHBASE'), F('FORCEWIN', 'PATHNAME', '_TRANSLATE', 'EXTMATCH', 'CASE'), F('FORCEWIN')]))

    evals = 0
    nontriv = set()

    def swap(s):
        return s.swapcase()
    pats = ['abc', 'Abc', 'a*C', '?B', '[a-c]x', '[A]b', 'a@(b|C)', 'x/Y', '**/aB', 'a.TXT', '!(Ab)', 'a[[:upper:]]', '\\A']
    names = ['abc', 'ABC', 'Abc', 'aXc', 'axC', 'b', 'B', 'ab', 'aB', 'x/y', 'X/Y', 'q/aB', 'Q/AB', 'a.txt', 'A.TXT', 'aC', 'bx', 'BX', 'A', 'a']
    for bits in range(16):
        for mode in ('fnmatch', 'glob'):
            api = Fm if mode == 'fnmatch' else Gm
            fv = (api.CASE if bits & 1 else 0) | (api.IGNORECASE if bits & 2 else 0) | (api.FORCEWIN if bits & 4 else 0) | \
                (api.FORCEUNIX if bits & 8 else 0) | api.EXTMATCH | (Gm.GLOBSTAR if mode == 'glob' else 0)
            mt = (lambda n, p: Fm.fnmatch(n, p, flags=fv)) if mode == 'fnmatch' else (lambda n, p: Gm.globmatch(n, p, flags=fv))
            win = bool(bits & 4) and not bool(bits & 8)
            insensitive = (not bits & 1) and (bool(bits & 2) or win)      # platform itself is case-sensitive (Linux)
            # the mode is what the table says
            evals += 1
            if mt('ABC', 'abc') != insensitive:
                ctx.counterexample('%s(\'ABC\', \'abc\', %s) = %r: mode should be case-%s' % (
                    mode, corr.flag_names(fv), mt('ABC', 'abc'), 'insensitive' if insensitive else 'sensitive'),
                    {'api': mode, 'flags': corr.flag_names(fv), 'name': 'ABC', 'pattern': 'abc'})
            for p in pats:
                if mode == 'fnmatch' and '/' in p and win:
                    continue
                for n in names:
                    evals += 1
                    base = mt(n, p)
                    if any(c.isalpha() for c in n + p):
                        nontriv.add((p, n))
                    if insensitive:
                        # closure under case change of the name, and of literal pattern text (no brackets/classes)
                        if mt(swap(n), p) != base:
                            ctx.counterexample('insensitive mode but %r and %r get different answers for %r (%s)' % (n, swap(n), p, corr.flag_names(fv)),
                                               {'api': mode, 'flags': corr.flag_names(fv), 'name': n, 'pattern': p})
                        if '[' not in p and mt(n, swap(p)) != base:
                            ctx.counterexample('insensitive mode but patterns %r and %r differ on %r (%s)' % (p, swap(p), n, corr.flag_names(fv)),
                                               {'api': mode, 'flags': corr.flag_names(fv), 'name': n, 'pattern': p})
                    else:
                        # literal text matches only its exact spelling
                        if p.isalnum() and base != (n == p):
                            ctx.counterexample('sensitive mode: %s(%r, %r, %s) = %r' % (mode, n, p, corr.flag_names(fv), base),
                                               {'api': mode, 'flags': corr.flag_names(fv), 'name': n, 'pattern': p})
    # FORCEWIN: separators interchangeable, escaped backslash is a separator, equals Unix|IGNORECASE on / names
    g = astgen.Gen(rng, lits='ab.', path=True)
    m_ = __import__('wclib').Model()
    pps = sorted(set(g.ppat(long_=False) for _ in range(150 if ctx.quick else 1500)))
    outs = m_.run(['pden 0 0 0 1 0 0 %s []' % p for p in pps])
    for pp, o in zip(pps, outs):
        pattern = corr.dec(o.split(' ')[0])
        if '\\' in pattern or pattern.startswith('//'):
            continue
        al = corr.derived_alphabet(pp)[:2] + ['/', '.']
        for n in astgen.names_upto(al, 4):
            evals += 1
            ext = Gm.EXTGLOB if 'x' in pp else 0
            u = Gm.globmatch(n, pattern, flags=Gm.FORCEUNIX | Gm.IGNORECASE | Gm.GLOBSTAR | ext)
            w = Gm.globmatch(n, pattern, flags=Gm.FORCEWIN | Gm.GLOBSTAR | ext)
            wb = Gm.globmatch(n.replace('/', '\\'), pattern, flags=Gm.FORCEWIN | Gm.GLOBSTAR | ext)
            mixed = n.replace('/', '\\', 1)
            wm = Gm.globmatch(mixed, pattern, flags=Gm.FORCEWIN | Gm.GLOBSTAR | ext)
            if not (u == w == wb == wm):
                if n.startswith('//') or n.startswith('/\\') :
                    pass
                ctx.counterexample('FORCEWIN vs Unix|IGNORECASE: pattern %r name %r: unix=%r win=%r win(\\\\)=%r win(mixed)=%r' % (
                    pattern, n, u, w, wb, wm), {'pattern': pattern, 'name': n})
                break
    # an escaped backslash in the pattern is a separator: respelling any `/` of a pattern as `\\\\` changes nothing under
    # FORCEWIN, in glob mode (every segment shape, also after `!(...)`) and in fnmatch mode (where both are ordinary
    # characters that stand for either separator)
    gq = astgen.Gen(rng, lits='ab.', path=True)
    pps2 = sorted(set(gq.ppat(long_=False) for _ in range(120 if ctx.quick else 1200))) + ['r:xN(l61)/l62:t', 'r:l78/xN(l61;l78)/l62:t', 'r:xN(l61)/xN(l62):T', 'r:s/xN(l61).l62/q:t']
    outs2 = m_.run(['pden 0 0 0 1 0 0 %s []' % p for p in pps2])
    nresp = 0
    for pp, o in zip(pps2, outs2):
        pattern = corr.dec(o.split(' ')[0])
        pos = common.toplevel_separators(pattern)
        if not pos or '\\' in pattern:
            continue
        alt_all = ''.join('\\\\' if i in pos else c for i, c in enumerate(pattern))
        alt_one = ''.join('\\\\' if i == pos[-1] else c for i, c in enumerate(pattern))
        al = corr.derived_alphabet(pp)[:2] + ['/', '.']
        ext = Gm.EXTGLOB if 'x' in pp else 0
        for mode in ('glob', 'fnmatch'):
            if mode == 'fnmatch' and ('g' in pp.split(':')[1].split('/') or pattern.startswith('/')):
                continue
            mt = (lambda n_, p_: Gm.globmatch(n_, p_, flags=Gm.FORCEWIN | Gm.GLOBSTAR | ext)) if mode == 'glob' else (lambda n_, p_: Fm.fnmatch(n_, p_, flags=Fm.FORCEWIN | ext))
            for n in astgen.names_upto(al, 4):
                nresp += 1
                a0, a1, a2 = mt(n, pattern), mt(n, alt_all), mt(n, alt_one)
                if not (a0 == a1 == a2):
                    ctx.counterexample('FORCEWIN %s: name %r: pattern %r gives %r, with the separators written as escaped backslashes %r gives %r, %r gives %r' % (
                        mode, n, pattern, a0, alt_all, a1, alt_one, a2), {'mode': mode, 'name': n, 'pattern': pattern, 'respelled': [alt_all, alt_one]})
                    break
    evals += nresp
    # the same closure in fnmatch mode (there `/` is an ordinary character that, under Windows rules, stands for either
    # separator): respelling the separators of the NAME changes nothing, and the verdict is the Unix|IGNORECASE one
    import re as _re

    def bracket_tells_separators_apart(ast):
        for mb in _re.finditer(r'b([01])\[([^\]]*)\]', ast):
            def member(c):
                for it_ in mb.group(2).split(','):
                    if it_.startswith('c') and int(it_[1:], 16) == c:
                        return True
                    if it_.startswith('r'):
                        lo, hi = it_[1:].split('-')
                        if int(lo, 16) <= c <= int(hi, 16):
                            return True
                    if it_.startswith('p') and it_[1:] in ('punct', 'graph', 'print', 'ascii'):
                        return True
                return False
            if member(0x2f) != member(0x5c):
                return True
        return False
    gf = astgen.Gen(rng, lits='ab/')
    fasts = sorted(set(astgen.seq_str(gf.seq()) for _ in range(300 if ctx.quick else 3000))) + ['b0[c2f]', 'l61.b0[c2f].l62', 'b1[c2f].l62', 'b0[r2e-30]', 'b0[c5c]']
    fouts = m_.run(['den 0 0 0 %s []' % a for a in fasts])
    known_fb = None
    nfn = 0
    for a, o in zip(fasts, fouts):
        pattern = corr.dec(o.split(' ')[0])
        if '\\' in pattern:
            continue
        ext = Fm.EXTMATCH if 'x' in a else 0
        al = [c for c in corr.derived_alphabet(a)[:2] if c not in '/\\'] + ['/', '.']
        for n in astgen.names_upto(al, 4):
            nfn += 1
            u = Fm.fnmatch(n, pattern, flags=Fm.FORCEUNIX | Fm.IGNORECASE | ext)
            w = Fm.fnmatch(n, pattern, flags=Fm.FORCEWIN | ext)
            wb = Fm.fnmatch(n.replace('/', '\\'), pattern, flags=Fm.FORCEWIN | ext)
            wm = Fm.fnmatch(n.replace('/', '\\', 1), pattern, flags=Fm.FORCEWIN | ext)
            if not (u == w == wb == wm):
                if bracket_tells_separators_apart(a) and ctx.is_known(lambda e: e['id'] == 'C17-fnmatch-bracket-separator'):
                    known_fb = known_fb or (pattern, n, u, w, wb)
                else:
                    ctx.counterexample('FORCEWIN fnmatch: pattern %r name %r: unix|icase=%r win=%r win(name with \\)=%r win(mixed)=%r' % (pattern, n, u, w, wb, wm),
                                       {'pattern': pattern, 'name': n, 'mode': 'fnmatch'})
                break
    if known_fb:
        ctx.known_finding('C17-fnmatch-bracket-separator', 'fnmatch(%r / its backslash spelling, %r, FORCEWIN): unix|icase=%r win=%r win(\\)=%r' % (known_fb[1], known_fb[0], known_fb[2], known_fb[3], known_fb[4]))
    evals += nfn
    # escaped backslash in the pattern is a separator under FORCEWIN; drive letters / UNC literal, case-insensitive
    probes = [
        ('a\\\\b', 'a/b', True), ('a\\\\b', 'a\\b', True), ('a\\\\\\\\b', 'a/b', True), ('a/b', 'a\\b', True),
        ('c:/*.txt', 'C:/x.txt', True), ('c:/*.txt', 'c:\\x.txt', True), ('c:/*.txt', 'd:/x.txt', False),
        ('C:\\\\a', 'c:/A', True), ('//host/share/*', '//HOST/share/x', True), ('//host/share/*', '\\\\host\\share\\x', True),
        ('//host/share/*', '//host/other/x', False), ('//host/share/*', '/\\host/share/x', True),
        ('//?/c:/*', '//?/C:/x', True), ('//?/UNC/h/s/*', '//?/unc/H/S/x', True), ('//?/UNC/h/s/*', '\\\\?\\UNC\\h\\s\\x', True),
        ('//?/UNC/h/s/*', '//?/UNC/h/t/x', False), ('c:*', 'c:x', True),
    ]
    for p, n, want in probes:
        evals += 1
        got = Gm.globmatch(n, p, flags=Gm.FORCEWIN)
        if got != want:
            ctx.counterexample('FORCEWIN: globmatch(%r, %r) = %r, expected %r' % (n, p, got, want), {'pattern': p, 'name': n})
        # separators of the name are interchangeable one by one
        idx = [i for i, c in enumerate(n) if c in '/\\']
        for k in range(min(len(idx), 6)):
            n2 = list(n)
            n2[idx[k]] = '\\' if n2[idx[k]] == '/' else '/'
            evals += 1
            if Gm.globmatch(''.join(n2), p, flags=Gm.FORCEWIN) != got:
                ctx.counterexample('FORCEWIN: %r and %r (one separator respelled) differ on %r' % (n, ''.join(n2), p),
                                   {'pattern': p, 'name': n, 'name2': ''.join(n2)})
    # drive letters, UNC shares and device-namespace prefixes are literal, case-insensitive prefixes - also under CASE,
    # however the keywords (UNC, GLOBAL) and host/share names are spelled
    prefixes = ['c:', '//host/share', '//?/c:', '//./c:', '//?/UNC/Host/Share', '//./UNC/Host/Share', '//?/GLOBAL/c:', '//?/GLOBAL/UNC/Host/Share',
                '//?/GLOBAL/GLOBAL/UNC/Host/Share', '//?/GLOBAL/GLOBAL/Dev', '//?/Volume1']
    for pre in prefixes:
        for spell in (pre, pre.lower(), pre.upper(), pre.swapcase()):
            for fl_ in (Gm.FORCEWIN, Gm.FORCEWIN | Gm.CASE):
                pat = spell + '/*.txt'
                for nm_pre in (pre, pre.lower(), pre.upper()):
                    for sepf in (lambda x: x, lambda x: x.replace('/', '\\')):
                        name = sepf(nm_pre + '/File.txt')
                        evals += 1
                        got = Gm.globmatch(name, pat, flags=fl_)
                        gotb = Gm.globmatch(name.encode(), pat.encode(), flags=fl_)
                        if not got or not gotb:
                            ctx.counterexample('FORCEWIN%s: globmatch(%r, %r) = %r (bytes %r): the drive prefix is a literal, case-insensitive prefix' % (
                                '|CASE' if fl_ & Gm.CASE else '', name, pat, got, gotb), {'pattern': pat, 'name': name, 'flags': corr.flag_names(fl_)})
                # a different host/share/drive does not match
                other = spell[:-1] + ('x' if spell[-1].lower() != 'x' else 'y') + '/File.txt'
                evals += 1
                if Gm.globmatch(other, pat, flags=fl_):
                    ctx.counterexample('FORCEWIN: globmatch(%r, %r) is True although the drive differs' % (other, pat), {'pattern': pat, 'name': other})
                # under CASE the part after the drive is case-sensitive
                if fl_ & Gm.CASE:
                    evals += 1
                    if Gm.globmatch(pre + '/FILE.TXT', spell + '/file.txt', flags=fl_):
                        ctx.counterexample('FORCEWIN|CASE: %r matches %r (the rest of the path must stay case-sensitive)' % (spell + '/file.txt', pre + '/FILE.TXT'),
                                           {'pattern': spell + '/file.txt', 'name': pre + '/FILE.TXT'})
    # alternatives that differ only in case (lists, BRACE, SPLIT): a multi-pattern is the union of its alternatives in every mode
    for bits in range(16):
        for mode in ('fnmatch', 'glob'):
            api = Fm if mode == 'fnmatch' else Gm
            fv = (api.CASE if bits & 1 else 0) | (api.IGNORECASE if bits & 2 else 0) | (api.FORCEWIN if bits & 4 else 0) | (api.FORCEUNIX if bits & 8 else 0)
            mt = (lambda n_, p_, x=0: Fm.fnmatch(n_, p_, flags=fv | x)) if mode == 'fnmatch' else (lambda n_, p_, x=0: Gm.globmatch(n_, p_, flags=fv | x))
            for alts in (['abc', 'Abc'], ['Abc', 'abc', 'ABC'], ['x', 'X'], ['aB*', 'Ab*']):
                for n_ in ('abc', 'Abc', 'ABC', 'aBc', 'x', 'X', 'abz', 'ABz'):
                    evals += 1
                    want = any(mt(n_, a_) for a_ in alts)
                    got = {'list': mt(n_, alts), 'brace': mt(n_, '{%s}' % ','.join(alts), api.BRACE), 'split': mt(n_, '|'.join(alts), api.SPLIT),
                           'compile': api.compile(alts, flags=fv).match(n_), 'filter': n_ in (Fm.filter([n_], alts, flags=fv) if mode == 'fnmatch' else Gm.globfilter([n_], alts, flags=fv))}
                    bad = [k for k, v in got.items() if v != want]
                    if bad:
                        ctx.counterexample('%s(%r, %r as %s, %s) = %r but the alternatives taken one by one give %r' % (mode, n_, alts, bad[0], corr.flag_names(fv), got[bad[0]], want),
                                           {'api': mode, 'name': n_, 'alternatives': alts, 'how': bad[0], 'flags': corr.flag_names(fv)})
                        break
    # the file-system walk: entries that differ only in case, literal pattern text in every spelling
    import trees as _tr
    with _tr.Tree([('abc', 'd', None), ('abc/x', 'f', None), ('ABC', 'd', None), ('ABC/y', 'f', None), ('Abc', 'd', None), ('Abc/z', 'f', None),
                   ('notes', 'd', None), ('notes/N1', 'f', None), ('other', 'f', None)]) as TC:
        for pat_ in ('abc/*', 'ABC/*', 'aBC/*', 'Abc/*', 'abc/X', 'ABC/x', '*/x', 'NOTES/n1', 'notes/*'):
            # (the walk of a real tree follows the host's rules: FORCEWIN / FORCEUNIX given by the caller - alone or both, which
            #  cancels them - change nothing; the REALPATH matcher agrees entry by entry)
            for fl_, ci_ in ((Gm.IGNORECASE, True), (0, False), (Gm.CASE | Gm.IGNORECASE, False), (Gm.FORCEWIN | Gm.FORCEUNIX, False), (Gm.FORCEWIN, False),
                             (Gm.FORCEUNIX, False), (Gm.FORCEWIN | Gm.FORCEUNIX | Gm.IGNORECASE, True), (Gm.FORCEWIN | Gm.CASE, False)):
                evals += 1
                got = sorted(Gm.glob(pat_, flags=fl_, root_dir=TC.root))
                ents = ['abc/x', 'ABC/y', 'Abc/z', 'notes/N1']
                host_fl = fl_ & ~(Gm.FORCEWIN | Gm.FORCEUNIX)
                want = sorted(e for e in ents if Gm.globmatch(e, pat_, flags=host_fl | Gm.FORCEUNIX))
                real_ = sorted(e for e in ents if Gm.globmatch(e, pat_, flags=fl_ | Gm.REALPATH, root_dir=TC.root))
                # the same text with a one-letter bracket: a magic first segment
                brk_ = sorted(Gm.glob('[%s]%s' % (pat_[0], pat_[1:]), flags=fl_, root_dir=TC.root)) if pat_[0].isalpha() else want
                if real_ != want or brk_ != want:
                    ctx.counterexample('tree with abc/, ABC/, Abc/: pattern %r under %s - REALPATH matcher accepts %r, the walk of the bracket spelling returns %r, host-rule matching gives %r' % (
                        pat_, corr.flag_names(fl_), real_, brk_, want), {'pattern': pat_, 'flags': corr.flag_names(fl_), 'realpath': real_, 'bracket_spelling': brk_, 'want': want})
                if got != want or sorted(Gm.iglob(pat_, flags=fl_, root_dir=TC.root)) != want or \
                        sorted(str(x.relative_to(TC.root)) for x in __import__('wcmatch.pathlib', fromlist=['Path']).Path(TC.root).glob(pat_, flags=fl_)) != want:
                    ctx.counterexample('glob(%r, %s) on a tree with abc/, ABC/, Abc/ returns %r; matching entry by entry gives %r' % (pat_, corr.flag_names(fl_), got, want),
                                       {'pattern': pat_, 'flags': corr.flag_names(fl_), 'got': got, 'want': want})
    ctx.counted('mode table + metamorphic closure', evals, len(nontriv), [{'pattern': 'a*C', 'name': 'aXc'}, {'pattern': '//host/share/*', 'name': '\\\\host\\share\\x'}])
    from props import fringe
    fringe.nonascii_case(ctx)
    from props import globcommon as _gc9
    nfr_ = _gc9.fringe_names(ctx)
    ctx.counted('escaped entries and literal names on a tree of non-ASCII and case-twin names', nfr_, nfr_ // 2, [{'entry': '\u0130stanbul.txt', 'flags': 'IGNORECASE'}])
    fringe.newline_match(ctx)
    from props import glue
    glue.wcmatch_every_flag(ctx)
    glue.windows_path_case(ctx)
    from props import clauses
    clauses.windows_separators(ctx)
    clauses.matchbase_inert(ctx)
    return ctx.finish(RULE)


def replay(data):
    print(json.dumps(data, indent=1))
    return 0
