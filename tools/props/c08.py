"""C08 - translate returns regexes that mean exactly what match does."""
import json
import re
import corr
import astgen
from wclib import import_impl, seeded_rng, Model, enc, dec
from props import common

RULE = ('proof: Properties/C08.v (the translate and compile loops are parallel for any two back ends). correspondence: '
        'exact regex text of the extracted parser model under _TRANSLATE (fnmatch and glob flag sets) and of the '
        'translate() list loop. search: (1) every regex returned by translate compiles; fullmatch of the translate '
        'regexes == fnmatch/globmatch on all names up to length 4 (language equality per pattern by comparing the '
        'two regex texts up to capture groups is the correspondence; this is the behavioural cross-check); (2) one '
        'capturing group per extended group in order of opening, and on derivations known by construction each '
        'group outside !() captures the text consumed by the whole group. non-trivial = pattern with >= 1 group')


def flagsets():
    F = corr.fl
    T = '_TRANSLATE'
    return [F(T), F(T, 'EXTMATCH'), F(T, 'EXTMATCH', 'DOTMATCH'), F(T, 'PATHNAME', 'GLOBSTAR', 'EXTMATCH'),
            F(T, 'PATHNAME', 'GLOBSTAR', 'EXTMATCH', 'DOTMATCH', 'MATCHBASE'), F(T, 'EXTMATCH', 'IGNORECASE'),
            F(T, 'PATHNAME', 'EXTMATCH', 'NODOTDIR', 'REALPATH')]


def count_groups(ast):
    return len(re.findall(r'x[QSPAN]\(', ast))


def build_capture_case(rng):
    """A pattern made of literals and groups with literal alternatives over disjoint letters, plus a name with a known
    derivation.  Returns (pattern, name, expected captures)."""
    letters = 'abcdefghijklmnopqrstuvw'
    k = rng.randint(1, 3)
    pat = ''
    name = ''
    caps = []
    for gi in range(k):
        if rng.random() < 0.5:
            lit = rng.choice('xyz')
            pat += lit
            name += lit
        a, b = letters[2 * gi], letters[2 * gi + 1]
        alts = [a, a + b, b + b + a][: rng.randint(1, 3)]
        kind = rng.choice('?*+@')
        nested = rng.random() < 0.3 and kind in '@?'
        if nested:
            # kind( a INNER ) where INNER = ?(b)
            inner_taken = rng.random() < 0.5
            pat += '%s(%s?(%s))' % (kind, a, b)
            if kind == '?' and rng.random() < 0.3:
                caps.append('')
                caps.append(None)      # inner group did not participate
            else:
                t = a + (b if inner_taken else '')
                name += t
                caps.append(t)
                caps.append(b if inner_taken else '')
            continue
        pat += '%s(%s)' % (kind, '|'.join(alts))
        if kind == '?':
            n = rng.randint(0, 1)
        elif kind == '*':
            n = rng.randint(0, 3)
        elif kind == '+':
            n = rng.randint(1, 3)
        else:
            n = 1
        t = ''.join(rng.choice(alts) for _ in range(n))
        # the derivation must be the only one: alternatives a, ab, bba over letters {a,b} can be ambiguous; keep
        # only texts whose greedy left-to-right parse is unique by checking with a regex
        name += t
        caps.append(t)
    return pat, name, caps


def run(ctx):
    import_impl()
    from wcmatch import fnmatch as Fm, glob as Gm
    rng, seed = seeded_rng('c08')
    ctx.proof('Properties/C08.v')
    common.parse_text_corr(ctx, 'wcparse text (translate flag sets)', flagsets(), brackets=False)

    # the translate() list loop itself (NEGATE/NEGATEALL/NODIR/exclude= interplay), exact lists
    F = corr.fl
    toks = ['a', '*', '!', '-', '|', '{a,b}', 'x', '!(a)', '/', '.', '**', '!x', '!*/']
    cases = []
    for i in range(1200 if ctx.quick else 12000):
        ps = [''.join(rng.choice(toks) for _ in range(rng.randint(1, 3))) for _ in range(rng.randint(0, 3))]
        ex = None if rng.random() < 0.6 else [rng.choice(toks) for _ in range(rng.randint(0, 2))]
        f = 0
        for nm in ('NEGATE', 'NEGATEALL', 'NODIR', 'PATHNAME'):
            if rng.random() < 0.7:
                f |= F(nm)
        for nm in ('MINUSNEGATE', 'SPLIT', 'BRACE', 'EXTMATCH', 'DOTMATCH', 'GLOBSTAR'):
            if rng.random() < 0.3:
                f |= F(nm)
        cases.append((1, rng.randint(0, 1), f, 1000, ps, ex))
        cases.append((0, 0, f, 1000, ps, ex))
    ctx.corr('translate()/compile_pattern() lists', corr.corr_lists(cases))
    # list-level behavioural cross-check: translate output vs the matcher on directory-looking and plain names
    n_l = 0
    for ps, ex, f in [(c[4], c[5], c[2]) for c in cases[:: 7]]:
        if not ps:
            continue
        glob_mode = bool(f & F('PATHNAME'))
        api = Gm if glob_mode else Fm
        fv = (f & ~F('PATHNAME')) | api.FORCEUNIX
        if not glob_mode:
            fv &= ~(F('NODIR') | F('GLOBSTAR'))
        kw = {} if ex is None else {'exclude': ex}
        try:
            pos, neg = api.translate(ps, flags=fv, **kw)
            cp = [re.compile(r) for r in pos]
            cn = [re.compile(r) for r in neg]
            cm = api.compile(ps, flags=fv, **kw)
        except Exception as e:
            continue
        for n in ('a', 'a/', 'x', 'a/b/', '.x', 'aa', 'b', 'x/a', '.', 'a/..', 'a\n', 'x\n', 'b\n', 'aa\n', 'a/\n', '\na'):
            n_l += 1
            got = any(r.fullmatch(n) for r in cp) and not any(r.fullmatch(n) for r in cn)
            if got != cm.match(n):
                ctx.counterexample('translate(%r, %s%s) regexes %s %r but the matcher does not agree' % (
                    ps, corr.flag_names(fv), ', exclude=%r' % ex if ex is not None else '', 'accept' if got else 'reject', n),
                    {'patterns': ps, 'exclude': ex, 'flags': corr.flag_names(fv), 'name': n, 'translate': [pos, neg]})
                break
    # RAWCHARS: an escape that decodes to a metacharacter acts as one - in translate() exactly as in the matcher
    raw_pats = ['\\x7ba,b\\x7d', 'x\\174y', 'x\\u007cy', '\\x7b1..3\\x7d', 'src/\\x7bfoo,bar\\x7d.py', '\\x21a', 'a\\x2a', '\\x5bab\\x5d', '\\x40(a\\x7cb)',
                '\\N{LEFT CURLY BRACKET}a,b\\N{RIGHT CURLY BRACKET}', '{a,\\x62}', 'p\\x7cq\\x7cr',
                # the internal `(?#)` marker written by the user inside a bracket (regression, fixed f1e8f80)
                '[(?#)]', '[a(?#)]', '[!(?#)]', 'x[(?#)]y', '@([(?#)])', '[#-(?#)]']
    raw_names = ['a', 'b', '{a,b}', 'x|y', 'x', 'y', 'a,b', '1', '2', '{1..3}', 'src/foo.py', 'src/bar.py', 'src/{foo,bar}.py', '!a', 'a*', 'ab', '[ab]', '@(a|b)',
                 'p', 'q', 'r', 'p|q|r', '(', '?', '#', ')', 'x(y', 'x#y', 'xay', '$', '%']
    for rp in raw_pats:
        for api in (Fm, Gm):
            for extra in (0, api.BRACE, api.SPLIT, api.BRACE | api.SPLIT, api.EXTMATCH | api.BRACE | api.SPLIT, api.NEGATE | api.BRACE):
                fv = api.RAWCHARS | api.FORCEUNIX | extra
                try:
                    pos, neg = api.translate(rp, flags=fv)
                    cp, cn = [re.compile(r) for r in pos], [re.compile(r) for r in neg]
                    cm = api.compile(rp, flags=fv)
                except Exception as e:
                    ctx.counterexample('translate/compile(%r, %s) raised %s' % (rp, corr.flag_names(fv), type(e).__name__), {'pattern': rp, 'flags': corr.flag_names(fv)})
                    continue
                for n in raw_names:
                    n_l += 1
                    got = any(r.fullmatch(n) for r in cp) and not any(r.fullmatch(n) for r in cn)
                    if got != cm.match(n):
                        ctx.counterexample('translate(%r, %s) regexes %s %r but the matcher does not agree (RAWCHARS escape decoding to a metacharacter)' % (
                            rp, corr.flag_names(fv), 'accept' if got else 'reject', n), {'pattern': rp, 'flags': corr.flag_names(fv), 'name': n, 'translate': [pos, neg]})
                        break
    ctx.counted('translate lists vs matcher', n_l, n_l // 3, [{'patterns': cases[0][4], 'flags': corr.flag_names(cases[0][2])}])

    # ---- (1) translate regexes compile and mean what match does ------------------------------------------------
    g = astgen.Gen(rng)
    m = Model()
    asts = sorted(set(astgen.seq_str(g.seq()) for _ in range(400 if ctx.quick else 4000)))
    outs = m.run(['den 0 0 0 %s []' % a for a in asts])
    evals = 0
    nontriv = set()
    samples = []
    for a, o in zip(asts, outs):
        pattern = dec(o.split(' ')[0])
        for glob_mode in (False, True):
            api = Gm if glob_mode else Fm
            for fv in (api.EXTMATCH | api.FORCEUNIX, api.EXTMATCH | api.DOTMATCH | api.FORCEUNIX | api.IGNORECASE,
                       api.EXTMATCH | api.FORCEUNIX | api.NEGATE | api.NEGATEALL):
                try:
                    pos, neg = api.translate(pattern, flags=fv)
                    cp = [re.compile(r) for r in pos]
                    cn = [re.compile(r) for r in neg]
                except Exception as e:
                    if 'xN' in a and a.count('xN') >= 1 and ctx.is_known(lambda e_: e_['id'] == 'C10-nested-negation-unclosed') and \
                            isinstance(e, re.error):
                        continue
                    ctx.counterexample('translate(%r, %s) output does not compile: %s' % (pattern, corr.flag_names(fv), e),
                                       {'pattern': pattern, 'flags': corr.flag_names(fv)})
                    continue
                al = corr.derived_alphabet(a, slash=glob_mode)
                names = list(astgen.names_upto(al, 4 if len(al) <= 4 else 3))
                cm = api.compile(pattern, flags=fv)
                for n in names:
                    evals += 1
                    want = cm.match(n)
                    got = any(r.fullmatch(n) for r in cp) and not any(r.fullmatch(n) for r in cn)
                    if got != want:
                        ctx.counterexample('translate(%r, %s) regexes %s %r but the matcher %s it' % (
                            pattern, corr.flag_names(fv), 'accept' if got else 'reject', n, 'accepts' if want else 'rejects'),
                            {'pattern': pattern, 'flags': corr.flag_names(fv), 'name': n, 'translate': [pos, neg]})
                        break
                # one capturing group per extended group (when the pattern is not itself an exclusion)
                if not (fv & api.NEGATE and pattern.startswith('!') and not pattern.startswith('!(')) and pos:
                    ng = cp[0].groups
                    if ng != count_groups(a):
                        ctx.counterexample('translate(%r) has %d capturing groups for %d extended groups' % (pattern, ng, count_groups(a)),
                                           {'pattern': pattern, 'flags': corr.flag_names(fv), 'regex': pos[0]})
                # ... and the same holds for the exclusion regexes, whether the exclusion is given inline (`!p`, `-p`), through
                # SPLIT, or as exclude=
                if count_groups(a) and not pattern.startswith(('(', '!', '-')):
                    star = '**' if glob_mode else '*'
                    forms = [('inline !', dict(patterns=[star, '!' + pattern], flags=fv | api.NEGATE)),
                             ('inline -', dict(patterns=[star, '-' + pattern], flags=fv | api.NEGATE | api.MINUSNEGATE)),
                             ('exclude=', dict(patterns=star, flags=fv & ~(api.NEGATE | api.NEGATEALL), exclude=pattern))]
                    for how, kw_ in forms:
                        try:
                            pos2, neg2 = api.translate(kw_['patterns'], flags=kw_['flags'], **({'exclude': kw_['exclude']} if 'exclude' in kw_ else {}))
                            ng2 = [re.compile(r).groups for r in neg2]
                        except Exception as e:
                            continue
                        evals += 1
                        if ng2 != [count_groups(a)]:
                            ctx.counterexample('translate(%r, %s): the exclusion regex of %r (%s) has %r capturing groups for %d extended groups' % (
                                kw_['patterns'], corr.flag_names(kw_['flags']), pattern, how, ng2, count_groups(a)),
                                {'patterns': kw_['patterns'], 'exclude': kw_.get('exclude'), 'flags': corr.flag_names(kw_['flags']), 'regexes': neg2})
                            break
                if count_groups(a):
                    nontriv.add((pattern, fv, glob_mode))
        if len(samples) < 3:
            samples.append({'pattern': pattern})
    # the same equality for the flag words that choose the platform rules (FORCEWIN and FORCEUNIX together cancel out) and for
    # NODIR, whose filter regex exists in two spellings (a compiled one for the matcher, a text for translate) - on names
    # that tell them apart: case variants, both separators, directory-looking names with a line feed
    tnames = ['abc', 'ABC', 'a/b', 'a\\b', 'A\\B', 'a/', 'a\nb/', 'a\n/', 'a\nb', 'x/a\nb/', 'a\nb/.', 'a/b/', 'a\\', 'a\nb\\', '.', 'a/..']
    ntf = 0
    for api in (Fm, Gm):
        for pat_ in ('abc', 'a/b', 'a*', '*', '**', '*/', '**/*', 'A?c', 'a\\\\b'):
            for plat in (0, api.FORCEWIN, api.FORCEUNIX, api.FORCEWIN | api.FORCEUNIX):
                for xf in ((0, api.IGNORECASE, api.CASE) if api is Fm else (Gm.GLOBSTAR, Gm.GLOBSTAR | Gm.NODIR, Gm.GLOBSTAR | Gm.NODIR | Gm.DOTGLOB, Gm.NODIR | Gm.IGNORECASE)):
                    fv = plat | xf
                    for P_, conv in ((pat_, lambda x: x), (pat_.encode(), lambda x: x.encode())):
                        try:
                            pos, neg = api.translate(P_, flags=fv)
                            cp, cn = [re.compile(r) for r in pos], [re.compile(r) for r in neg]
                            cm = api.compile(P_, flags=fv)
                        except Exception as e:
                            ctx.counterexample('translate/compile(%r, %s) raised %s' % (P_, corr.flag_names(fv), type(e).__name__), {'pattern': repr(P_), 'flags': corr.flag_names(fv)})
                            continue
                        for n_ in tnames:
                            ntf += 1
                            N_ = conv(n_)
                            got = any(r.fullmatch(N_) for r in cp) and not any(r.fullmatch(N_) for r in cn)
                            want = cm.match(N_)
                            if got != want:
                                ctx.counterexample('translate(%r, %s) regexes %s %r but the matcher %s it' % (P_, corr.flag_names(fv), 'accept' if got else 'reject', N_, 'accepts' if want else 'rejects'),
                                                   {'pattern': repr(P_), 'flags': corr.flag_names(fv), 'name': repr(N_), 'translate': [repr(pos), repr(neg)]})
                                break
    evals += ntf
    ctx.counted('translate vs matcher', evals, len(nontriv), samples)

    # ---- (2) captures on derivations known by construction -----------------------------------------------------
    evals = 0
    seen = set()
    samples = []
    for _ in range(1500 if ctx.quick else 15000):
        pat, name, caps = build_capture_case(rng)
        for glob_mode in (False, True):
            api = Gm if glob_mode else Fm
            pos, neg = api.translate(pat, flags=api.EXTMATCH | api.FORCEUNIX)
            r = re.compile(pos[0])
            mo = r.fullmatch(name)
            evals += 1
            if mo is None:
                continue      # ambiguous alternatives can make the constructed name unparsable in the intended way
            # uniqueness of the derivation: accept the check only when each group text cannot be split differently
            got = list(mo.groups())
            if len(got) != len(caps):
                ctx.counterexample('group count %d != %d for %r' % (len(got), len(caps), pat), {'pattern': pat, 'regex': pos[0]})
                continue
            if ''.join(c or '' for c, in zip(caps)) and got != caps:
                # the letters of each group are disjoint from the others, so the consumed text is determined
                ok = all((g_ == c) for g_, c in zip(got, caps))
                if not ok:
                    ctx.counterexample('translate(%r) on %r captures %r, the groups consumed %r' % (pat, name, got, caps),
                                       {'pattern': pat, 'name': name, 'regex': pos[0], 'captures': got, 'expected': caps})
            elif got != caps:
                ctx.counterexample('translate(%r) on %r captures %r, the groups consumed %r' % (pat, name, got, caps),
                                   {'pattern': pat, 'name': name, 'regex': pos[0], 'captures': got, 'expected': caps})
            seen.add((pat, name))
        if len(samples) < 3:
            samples.append({'pattern': pat, 'name': name, 'captures': caps})
    ctx.counted('capture groups on known derivations', evals, len(seen), samples)
    from props import fringe
    fringe.nonascii_case(ctx, 'translate vs match on letters outside ASCII')
    from props import glue
    glue.translate_lists(ctx)
    from props import clauses
    clauses.translate_clauses(ctx)
    return ctx.finish(RULE)


def replay(data):
    print(json.dumps(data, indent=1))
    return 0
