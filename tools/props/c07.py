"""C07 - pattern lists, exclusions, SPLIT and BRACE decompose into single-pattern matches."""
import itertools
import json
import corr
from wclib import import_impl, seeded_rng
from props import common

RULE = ('proof: Properties/C07.v (include-any/exclude-none; order and repetition irrelevant; routing of every distinct '
        'expanded item with DOTMATCH forced on exclusions; is_negative truth table). correspondence: extracted '
        'pattern_lists vs _wcparse.translate/compile_pattern (exact regex lists) and extracted wcsplit vs WcSplit on '
        'all strings up to the tier length over `a | \\ [ ] ! ( ) @ * /`. search: list calls of fnmatch/globmatch/'
        'filter/compile/translate vs the boolean combination of single-pattern calls, with pieces/expansions known '
        'by construction; permutations, duplicates, exclude= vs inline. non-trivial = case with at least one inclusion '
        'and one exclusion')

PIECES = ['a', 'b*', '*.txt', '?', '[ab]c', '.x', '*', 'a/b', '*/a', '!(a)', '@(a|b)x', 'a\\|b', '\\!a', '\\-a', '[|]', '*(a|b)',
          '!a', '-a', 'x.txt', '**', '.*', '(a)', '(a|b)']
NAMES = ['', '(a)', 'a', 'b', 'ab', 'a\n', 'ab\n', 'x.txt\n', 'a.txt', 'x.txt', '.x', '.a', 'a/b', 'c/a', 'a|b', '!a', '-a', 'ac', '|', 'ax', 'bx', 'a/', 'x/y/a']


def single(mod, name, pat, flags_single):
    return mod(name, pat, flags=flags_single)


def run(ctx):
    import_impl()
    from wcmatch import fnmatch as Fm, glob as Gm, _wcparse as W
    import re
    rng, seed = seeded_rng('c07')
    ctx.proof('Properties/C07.v')
    F = corr.fl

    # ---- correspondence: WcSplit and the list loops -----------------------------------------------------------
    from wclib import strings_upto
    pats = list(strings_upto('a|\\[]!(@*/)', 4 if ctx.quick else 6))
    # longer strings assembled from the tokens the scanner distinguishes: groups that close, never close or close inside a
    # bracket; brackets that close, are undone by a `/` (path mode) or by an escaped separator, or start with `]`, `!`, a class
    stoks = ['@(', '!(', '+(', ')', '[', ']', '|', '/', 'a', 'b', '\\', '\\/', '\\|', '\\]', '\\\\', '[)', '[]', '[!', '[^]', '[:alpha:]', '[[:digit:]', '*', '(']
    for _ in range(4000 if ctx.quick else 40000):
        pats.append(''.join(rng.choice(stoks) for _ in range(rng.randint(3, 9))))
    # groups nested far deeper than anyone writes them: the `|` of every level stays inside its group
    for d_ in (3, 9, 15, 16, 17, 18, 20, 23):
        nest_ = 'x'
        for k_ in range(d_):
            nest_ = '@(' + nest_ + '|' + ('b' if k_ == d_ - 1 else 'a') + ')'
        pats += [nest_, nest_ + '|z', 'z|' + nest_, nest_.replace('@(', '+(', 1)]
    pats = sorted(set(pats))
    res_split = corr.corr_wcsplit(pats, [F('SPLIT'), F('SPLIT', 'EXTMATCH'), F('SPLIT', 'EXTMATCH', 'PATHNAME'),
                                         F('SPLIT', 'FORCEWIN', 'EXTMATCH', 'PATHNAME')])
    ctx.corr('wcsplit', res_split)
    # directed search: where the implementation cuts a pattern differently from the model, look for a name on which the
    # SPLIT law fails (pattern under SPLIT == the list of the pieces the specification cuts it into)
    import itertools as _it
    nds = 0
    for d in res_split.get('disagreements', [])[:400]:
        if d.get('kind') != 'wcsplit' or d.get('impl') is None or nds >= 3:
            continue
        pt, fv_, pieces = d['pattern'], d['flags'], d['model']
        glob_m = bool(fv_ & F('PATHNAME'))
        base_f = (Gm.FORCEWIN if fv_ & F('FORCEWIN') else Gm.FORCEUNIX) | (W.EXTMATCH if fv_ & F('EXTMATCH') else 0) | W.DOTMATCH
        al_ = sorted(set(c for c in pt if c not in '\\')) + ['x']
        mt_ = (lambda n_, p_, f_: Gm.globmatch(n_, p_, flags=f_)) if glob_m else (lambda n_, p_, f_: Fm.fnmatch(n_, p_, flags=f_))
        for n_ in (''.join(t) for k in range(1, 5) for t in _it.product(al_[:5], repeat=k)):
            try:
                got = mt_(n_, pt, base_f | W.SPLIT)
                want = any(mt_(n_, pc, base_f) for pc in pieces if pc != '')
            except Exception:
                continue
            if got != want:
                nds += 1
                ctx.counterexample('%s(%r, %r, %s|SPLIT) = %r but the pieces between its top-level `|` are %r, of which %s matches' % (
                    'globmatch' if glob_m else 'fnmatch', n_, pt, corr.flag_names(base_f), got, pieces, 'one' if want else 'none'),
                    {'name': n_, 'pattern': pt, 'flags': corr.flag_names(base_f | W.SPLIT), 'pieces': pieces, 'implementation_pieces': d.get('impl')})
                break
    toks = ['a', 'b', '*', '?', '!', '-', '|', '{a,b}', '{1..3}', 'x', '!(a)', '[ab]', '/', '.', '**', '\\', '(', ')']
    cases = []
    for i in range(1500 if ctx.quick else 15000):
        ps = [''.join(rng.choice(toks) for _ in range(rng.randint(0, 4))) for _ in range(rng.randint(0, 3))]
        ex = None if rng.random() < 0.5 else [''.join(rng.choice(toks) for _ in range(rng.randint(0, 3)))
                                              for _ in range(rng.randint(0, 2))]
        f = 0
        for nm in ('NEGATE', 'MINUSNEGATE', 'NEGATEALL', 'SPLIT', 'BRACE', 'EXTMATCH', 'DOTMATCH', 'NODIR', 'PATHNAME',
                   'GLOBSTAR', 'IGNORECASE', 'REALPATH'):
            if rng.random() < 0.4:
                f |= F(nm)
        cases.append((rng.randint(0, 1), rng.randint(0, 1), f, rng.choice([0, 1000, 1000, 7]), ps, ex))
    # every spelling of a leading negation symbol under every combination of the three flags that interpret it
    for head in ('!', '-', '!(', '-(', '!!', '--', '\\!', '\\-', '!-', '-!', '(', ''):
        for tail in ('a', 'a)', '*', ''):
            for bits in range(8):
                f = (F('NEGATE') if bits & 1 else 0) | (F('MINUSNEGATE') if bits & 2 else 0) | (F('EXTMATCH') if bits & 4 else 0)
                for extra in (0, F('NEGATEALL'), F('PATHNAME', 'NEGATEALL')):
                    cases.append((bits & 1, 0, f | extra, 1000, [head + tail, 'x'], None))
    ctx.corr('pattern_lists', corr.corr_lists(cases))

    # ---- search: list call == boolean combination of single-pattern calls -------------------------------------
    evals = 0
    nontriv = set()
    samples = []
    optflags = ['NEGATE', 'MINUSNEGATE', 'NEGATEALL', 'SPLIT', 'BRACE', 'EXTMATCH', 'DOTMATCH', 'NODIR']
    for it in range(700 if ctx.quick else 6000):
        glob_mode = rng.random() < 0.5
        mod = Gm if glob_mode else Fm
        fs = {n: rng.random() < 0.5 for n in optflags}
        if not glob_mode:
            fs['NODIR'] = False
        neg_on = fs['NEGATE']
        sym = '-' if fs['MINUSNEGATE'] else '!'
        n_inc = rng.randint(0, 3)
        n_exc = rng.randint(0, 2)
        inc = [rng.choice(PIECES) for _ in range(n_inc)]
        exc = [rng.choice(PIECES) for _ in range(n_exc)]
        # pieces that would read as negative themselves under the chosen flags are not used as inclusions
        flagv = mod.FORCEUNIX
        for n, on in fs.items():
            if on:
                flagv |= getattr(W, n)
        fsingle = mod.FORCEUNIX | (W.EXTMATCH if fs['EXTMATCH'] else 0) | (W.DOTMATCH if fs['DOTMATCH'] else 0)
        if glob_mode:
            pass
        inc = [p for p in inc if not W.is_negative(p, flagv)]
        use_kw = rng.random() < 0.5 or not neg_on
        if not use_kw:
            exc = [p for p in exc if not W.is_negative(p, flagv)]
        # (given through exclude=, a pattern that starts with the negation symbol is an ordinary pattern: NEGATE does not apply there)
        # how the user writes it
        groups = []     # list of pattern strings handed to the API; pieces grouped with | or {,}
        items = [(p, False) for p in inc] + ([] if use_kw else [(sym + q, True) for q in exc])
        if not use_kw and fs['EXTMATCH'] and not fs['MINUSNEGATE']:
            items = [(p, n) for (p, n) in items if not (n and p.startswith('!('))]
            exc = [q for q in exc if not q.startswith('(')]
        rng.shuffle(items)
        written = []
        k = 0
        while k < len(items):
            take = rng.randint(1, 2)
            chunk = [p for p, _ in items[k:k + take]]
            k += take
            if len(chunk) == 2 and fs['SPLIT'] and rng.random() < 0.6:
                written.append('|'.join(chunk))
            elif len(chunk) == 2 and fs['BRACE'] and all(',' not in c and '{' not in c and '}' not in c for c in chunk) \
                    and not any('|' in c for c in chunk) and rng.random() < 0.6:
                written.append('{%s}' % ','.join(chunk))
            else:
                written.extend(chunk)
        # pieces must not be re-split / re-expanded by flags they were not written for
        def bar_exposed(p):
            # an unescaped `|` that SPLIT would cut at: outside brackets, and outside groups unless EXTMATCH reads them
            if not re.search(r'(?<!\\)\|', p):
                return False
            if '[|]' in p and p.count('|') == 1:
                return False
            return not (fs['EXTMATCH'] and '(' in p)
        if fs['SPLIT'] and any(bar_exposed(p) for p in inc + exc):
            continue
        # ... nor may the piece *as written* (with its negation prefix: `-(a|b)` is not a group) be cut by SPLIT
        if fs['SPLIT'] and any(len(list(W.WcSplit(p_, flagv).split())) > 1 for p_, _n in items):
            continue
        if fs['BRACE'] and any('{' in p for p in inc + exc):
            continue
        kw = {'exclude': exc} if (use_kw and exc) else {}
        if use_kw and neg_on and any(W.is_negative(p, flagv) for p in written):
            continue
        excl_eff = exc if (use_kw and exc) or (not use_kw) else []
        if use_kw and not exc:
            excl_eff = []
        # with exclude=, NEGATE/NEGATEALL are switched off for the inclusion list
        negateall = fs['NEGATEALL'] and not (use_kw and exc)
        for name in NAMES:
            if not glob_mode and False:
                continue
            evals += 1
            try:
                got = (Gm.globmatch if glob_mode else Fm.fnmatch)(name, written, flags=flagv, **kw)
            except Exception as e:
                ctx.counterexample('list call raised %s' % type(e).__name__, {'patterns': written, 'flags': corr.flag_names(flagv), 'name': name})
                break
            one = (lambda n_, p_, f_: Gm.globmatch(n_, p_, flags=f_)) if glob_mode else (lambda n_, p_, f_: Fm.fnmatch(n_, p_, flags=f_))
            inc_eff = list(inc)
            if not inc_eff and excl_eff and negateall:
                inc_hit = one(name, '**', fsingle | (W.GLOBSTAR if glob_mode else 0))
            else:
                inc_hit = any(one(name, p, fsingle) for p in inc_eff)
            exc_hit = any(one(name, q, fsingle | W.DOTMATCH) for q in excl_eff)
            nodir_hit = fs['NODIR'] and glob_mode and (name.endswith('/') or name.split('/')[-1] in ('.', '..'))
            want = inc_hit and not exc_hit and not (nodir_hit and (inc_eff or (excl_eff and negateall)))
            if inc and excl_eff:
                nontriv.add((tuple(written), flagv, use_kw))
            if got != want:
                ctx.counterexample(
                    '%s(%r, %r, %s%s) = %r but the single-pattern decomposition gives %r' % (
                        'globmatch' if glob_mode else 'fnmatch', name, written, corr.flag_names(flagv),
                        ', exclude=%r' % exc if kw else '', got, want),
                    {'name': name, 'patterns': written, 'exclude': kw.get('exclude'), 'flags': corr.flag_names(flagv),
                     'inclusions': inc, 'exclusions': excl_eff, 'impl': got, 'spec': want})
                break
        else:
            # other entry points agree with the first one; permutation and duplication do not matter
            try:
                api = Gm if glob_mode else Fm
                cm = api.compile(written, flags=flagv, **kw)
                flt = set((Gm.globfilter if glob_mode else Fm.filter)(NAMES, written, flags=flagv, **kw))
                perm = list(written)
                rng.shuffle(perm)
                perm = perm + perm[:1]
                tr = api.translate(written, flags=flagv, **kw)
                for name in NAMES:
                    base = (Gm.globmatch if glob_mode else Fm.fnmatch)(name, written, flags=flagv, **kw)
                    evals += 1
                    alt = {'compile': cm.match(name), 'filter': name in flt,
                           'permuted+duplicated': (Gm.globmatch if glob_mode else Fm.fnmatch)(name, perm, flags=flagv, **kw)}
                    if name != '':
                        # (translate speaks about non-empty names: the matcher answers False for the empty name before any regex is tried)
                        alt['translate'] = any(re.fullmatch(r, name) for r in tr[0]) and not any(re.fullmatch(r, name) for r in tr[1])
                    for k2, v in alt.items():
                        if v != base:
                            ctx.counterexample('%s disagrees with the direct call on %r' % (k2, name),
                                               {'name': name, 'patterns': written, 'exclude': kw.get('exclude'),
                                                'flags': corr.flag_names(flagv), 'direct': base, k2: v})
                            raise StopIteration
            except StopIteration:
                pass
        if len(samples) < 4:
            samples.append({'written': written, 'exclude': kw.get('exclude'), 'flags': corr.flag_names(flagv)})
    ctx.counted('list call vs single-pattern decomposition', evals, len(nontriv), samples)
    # exclude= patterns are ordinary patterns whatever they start with: the negation flags of the call do not apply to them
    nex = 0
    for q_ in ('!a', '-a', '!*a', '-*', '!(a)', '-(a|b)', '\\!a', '!', '-'):
        for bits in range(8):
            negf = (W.NEGATE if bits & 1 else 0) | (W.MINUSNEGATE if bits & 2 else 0) | (W.NEGATEALL if bits & 4 else 0)
            for ext in (0, W.EXTMATCH):
                for api_, star in ((Fm, '*'), (Gm, '**')):
                    base_ = api_.FORCEUNIX | ext | (Gm.GLOBSTAR if api_ is Gm else 0)
                    mt_ = Fm.fnmatch if api_ is Fm else Gm.globmatch
                    for n_ in ('!a', '-a', 'a', 'b', '!xa', '-', '!', '!(a)', '-(a|b)', 'xa'):
                        nex += 1
                        try:
                            got = [mt_(n_, star, flags=base_ | negf, exclude=q_), api_.compile(star, flags=base_ | negf, exclude=q_).match(n_),
                                   bool((Fm.filter if api_ is Fm else Gm.globfilter)([n_], star, flags=base_ | negf, exclude=q_))]
                            want = mt_(n_, star, flags=base_) and not mt_(n_, q_, flags=base_ | W.DOTMATCH)
                        except Exception as e_:
                            ctx.counterexample('%s(%r, %r, %s, exclude=%r) raised %s' % (mt_.__name__, n_, star, corr.flag_names(base_ | negf), q_, type(e_).__name__), {'name': n_, 'exclude': q_, 'flags': corr.flag_names(base_ | negf)})
                            break
                        if got != [want] * 3:
                            ctx.counterexample('%s(%r, %r, %s, exclude=%r) = %r (compile, filter: %r) but the name %s the pattern %r read without the negation flags' % (
                                mt_.__name__, n_, star, corr.flag_names(base_ | negf), q_, got[0], got[1:], 'matches' if not want else 'does not match', q_),
                                {'name': n_, 'pattern': star, 'exclude': q_, 'flags': corr.flag_names(base_ | negf)})
                            break
    ctx.counted('exclude= patterns that start with a negation symbol', nex, nex // 2, [{'pattern': '*', 'exclude': '!a', 'flags': 'NEGATE'}])
    # SPLIT cuts at top-level `|` only: a `|` that is a member of a bracket expression - however the expression starts
    # (`]`, `!]`, `^]`, a POSIX class, an escape first) - never splits; an extended group that is never closed is no
    # group, so the `|` after its `(` do split (except inside a bracket expression of their own).  Patterns are built
    # with known structure; the reference is the list of the pieces known by construction.
    nbr = 0
    nbr_bad = 0
    heads = ['', ']', '!]', '^]', '!', '^', '[:alpha:]', '\\]', '-', ']-', '[', '![', 'a-c', '[:digit:]x', '\\\\', '!\\\\']
    tails = ['', 'a', '[:upper:]', '\\]', '-', 'x-z', '\\|']
    cases = []
    for hd in heads:
        for tl in tails:
            br = '[' + hd + '|' + tl + ']'
            for pre, post in ((('', ''), ('a', 'b')) if ctx.quick else (('', ''), ('a', 'b'), ('*', ''), ('', '*'))):
                cases.append(([pre + br + post], 0))
                cases.append(([pre + br + post, 'x'], 0))
                cases.append((['x', pre + br + post], 0))
    # unclosed groups: every `|` outside a bracket expression is top-level
    for grp in ('@(a', '+(a[b]', '!(a[|]b', '*(x[y', '?([]|]', '@(a\\)'):
        for rest in ('[b', 'b', '[|]c', 'b]'):
            if grp.count('[') > grp.count(']') and ']' in rest:
                continue        # the `]` would close the bracket left open in the group text: another structure
            cases.append(([grp, rest], Fm.EXTMATCH))
    names_b = ['|', ']', 'a', 'b', 'x', '[', '-', 'c', 'A', 'a|b', '\\', '5', 'a|', 'a]b', 'a|b]', '@(a', '[b', '+(a[b]', '+(ab', '!(a|b', '!(a[|]b', '*(x[y', '?(]', '?(|', 'b]', '|c', '@(a)', 'x[']
    for pieces, xf in cases:
        written = '|'.join(pieces)
        for plat in (Fm.FORCEUNIX, Fm.FORCEWIN):
            for dm in (0, Fm.DOTMATCH):
                fl_ = plat | dm | xf
                try:
                    want = [any(Fm.fnmatch(n_, pc, flags=fl_) for pc in pieces) for n_ in names_b]
                    got = [Fm.fnmatch(n_, written, flags=fl_ | Fm.SPLIT) for n_ in names_b]
                    tr_ = Fm.translate(written, flags=fl_ | Fm.SPLIT)
                    flt = [n_ in Fm.filter(names_b, written, flags=fl_ | Fm.SPLIT) for n_ in names_b]
                except Exception as e_:
                    ctx.counterexample('fnmatch(.., %r, %s|SPLIT) raised %s' % (written, corr.flag_names(fl_), type(e_).__name__), {'pattern': written, 'flags': corr.flag_names(fl_ | Fm.SPLIT)})
                    continue
                nbr += len(names_b)
                if (got != want or flt != want or len(tr_[0]) != len(pieces)) and nbr_bad < 4:
                    nbr_bad += 1
                    k_ = next((i for i in range(len(want)) if got[i] != want[i] or flt[i] != want[i]), 0)
                    ctx.counterexample('fnmatch(%r, %r, %s|SPLIT) = %r (filter %r; translate gives %d regexes) but its pieces between top-level `|` are %r, of which %s matches' % (
                        names_b[k_], written, corr.flag_names(fl_), got[k_], flt[k_], len(tr_[0]), pieces, 'one' if want[k_] else 'none'),
                        {'name': names_b[k_], 'pattern': written, 'flags': corr.flag_names(fl_ | Fm.SPLIT), 'pieces': pieces})
    ctx.counted('`|` inside bracket expressions and after unclosed groups', nbr, nbr // 3, [{'pattern': '[]|]|x', 'pieces': ['[]|]', 'x']}])
    # order never matters - also for whether the call is accepted at all: a list whose expansions fit the limit in one order
    # fits it in every order (every entry point; limits around the total)
    nperm = 0
    nbad = 0
    for it in range(60 if ctx.quick else 600):
        counts = [rng.randint(1, 4) for _ in range(rng.randint(3, 4))]
        plist = [('%s{%s}' % (chr(97 + i), ','.join(str(k) for k in range(1, n + 1))) if n > 1 else chr(97 + i) + '1') for i, n in enumerate(counts)]
        tot = sum(counts)
        for lim in (tot, tot + 1, tot - 1, 2 * tot):
            outcomes = {}
            for perm in _it.permutations(plist):
                for api_name, fn in (('fnmatch', lambda pl: Fm.fnmatch('c2', pl, flags=Fm.BRACE | Fm.SPLIT, limit=lim)),
                                     ('globmatch', lambda pl: Gm.globmatch('c2', pl, flags=Gm.BRACE, limit=lim)),
                                     ('translate', lambda pl: len(Fm.translate(pl, flags=Fm.BRACE, limit=lim)[0])),
                                     ('compile', lambda pl: Gm.compile(pl, flags=Gm.BRACE, limit=lim).match('c2'))):
                    nperm += 1
                    try:
                        r_ = fn(list(perm))
                    except W.PatternLimitException:
                        r_ = 'PatternLimitException'
                    outcomes.setdefault(api_name, {}).setdefault(repr(r_), list(perm))
            for api_name, oc in outcomes.items():
                if len(oc) > 1 and nbad < 3:
                    nbad += 1
                    (r1, p1), (r2, p2) = list(oc.items())[:2]
                    ctx.counterexample('%s with limit=%d: %r gives %s but the same patterns in the order %r give %s (%d expansions in all)' % (
                        api_name, lim, p1, r1, p2, r2, tot), {'api': api_name, 'limit': lim, 'patterns': p1, 'reordered': p2, 'flags': 'BRACE'})
    ctx.counted('order of a list vs the pattern limit', nperm, nperm // 2, [{'patterns': ['a{1,2}', 'b{1,2}', 'c{1,2}'], 'limit': 6}])
    from props import fringe
    fringe.case_twin_lists(ctx)
    fringe.carriers(ctx)
    from props import glue
    glue.limit_zero(ctx)
    glue.pathlib_exclude(ctx)
    from props import clauses
    clauses.brace_stray(ctx)
    clauses.translate_clauses(ctx)
    return ctx.finish(RULE)


def replay(data):
    print(json.dumps(data, indent=1))
    return 0
