"""C20 - RAWCHARS decodes Python-style character escapes and nothing else."""
import json
import corr
from wclib import import_impl, seeded_rng, strings_upto
from props import common

RULE = ('proof: Properties/C20.v (one-step decoding lemmas of the scanner model for every digit/character/rest; '
        'regex sources pinned). correspondence: extracted norm_pattern vs util.norm_pattern (output or exception '
        'class) on all strings up to the tier length over `\\ x u U N { } 0 1 7 a f / *` plus named/long escapes, str '
        'and bytes, with and without RAWCHARS and separator normalisation. search: under RAWCHARS every entry point '
        'matches exactly as with the hand-decoded pattern (decoder written independently in the harness), decoded '
        'metacharacters act as such, incomplete escapes raise SyntaxError, and without RAWCHARS nothing is decoded. '
        'non-trivial = pattern changed by decoding')


def py_decode(p, is_bytes):
    """Independent decoder of the documented escapes (spec side of the search).  Returns decoded text or raises."""
    out = []
    i = 0
    n = len(p)
    simple = {'a': '\a', 'b': '\b', 'f': '\f', 'n': '\n', 'r': '\r', 't': '\t', 'v': '\v'}
    hexd = '0123456789abcdefABCDEF'
    while i < n:
        c = p[i]
        if c != '\\' or i + 1 >= n:
            out.append(c)
            i += 1
            continue
        d = p[i + 1]
        if d in simple:
            out.append(simple[d])
            i += 2
        elif d == '\\':
            out.append('\\\\')
            i += 2
        elif d == 'x':
            h = p[i + 2:i + 4]
            if len(h) < 2 or any(x not in hexd for x in h):
                raise SyntaxError('x')
            out.append(chr(int(h, 16)))
            i += 4
        elif d in 'uU' and not is_bytes:
            k = 4 if d == 'u' else 8
            h = p[i + 2:i + 2 + k]
            if len(h) < k or any(x not in hexd for x in h):
                raise SyntaxError(d)
            if int(h, 16) > 0x10FFFF:
                raise SyntaxError('no such character')      # undecodable escape (C10: SyntaxError or a lookup error)
            out.append(chr(int(h, 16)))
            i += 2 + k
        elif d == 'N' and not is_bytes:
            import unicodedata
            if p[i + 2:i + 3] != '{' or '}' not in p[i + 3:]:
                raise SyntaxError('N')
            j = p.index('}', i + 3)
            out.append(unicodedata.lookup(p[i + 3:j]))
            i = j + 1
        elif d in '01234567':
            j = i + 1
            while j < n and j < i + 4 and p[j] in '01234567':
                j += 1
            v = int(p[i + 1:j], 8)
            out.append(chr(v & 0xff if is_bytes else v))
            i = j
        else:
            out.append(c + d)
            i += 2
    return ''.join(out)


def run(ctx):
    import_impl()
    from wcmatch import fnmatch as Fm, glob as Gm, wcmatch as WM
    rng, seed = seeded_rng('c20')
    ctx.proof('Properties/C20.v')
    pats = list(strings_upto('\\xuN{}017af/*', 4 if ctx.quick else 6))
    pats += ['\\N{DIGIT ONE}x', '\\N{NOPE}', '\\U0001F600', '\\U00110000', '\\u00e9\\x41\\101\\7', 'a\\N{LATIN SMALL LETTER A}',
             '\\400', '\\N{', '\\N{}', '\\x4', '\\u12', '\\U0001F60', '\\\\x41', '\\\\\\x41', '\\1234', '\\08', '\\x7c', '\\174']
    # escapes denoting bytes >= 0x80, names with hyphens / digits / lower case, the longest forms
    designed_raw = ['caf\\xe9*', '\\xe9', '\\xff\\x80', '[\\xe9\\xff]', '\\351', '\\377', 'a\\N{NO-BREAK SPACE}b*', 'x[\\N{HYPHEN-MINUS}\\N{EM DASH}]y*',
             '\\N{CJK UNIFIED IDEOGRAPH-4E00}?', '\\N{latin small letter a}', '\\N{LATIN CAPITAL LETTER A WITH GRAVE}', '\\N{DIGIT ONE}\\N{DIGIT TWO}',
             '\\u00e9', '\\U000000e9', '\\xE9', '\\XE9', '\\N{NO-BREAK SPACE', '\\N{-}',
                    # escapes that decode to a backslash: the decoded backslash escapes what follows
                    '\\x5c*', 'a\\x5c*', '\\134?', '\\u005c[', '\\U0000005c*', '\\N{REVERSE SOLIDUS}*', '\\x5c\\x5c', '\\x5cx41', 'a\\x5c']
    pats += designed_raw
    toks = ['\\', 'x', 'u', 'U', 'N{', '}', '41', '7c', '0', '7', '8', 'a', 'n', '/', '*', '[', ']', '\\\\', 'DIGIT ONE', '0041', '00000041', 'e9', 'ff', 'NO-BREAK SPACE', 'HYPHEN-MINUS', '5c', '134', '005c']
    for _ in range(2000 if ctx.quick else 30000):
        pats.append(''.join(rng.choice(toks) for _ in range(rng.randint(1, 8))))
    pats = sorted(set(pats))
    ctx.corr('norm_pattern', corr.corr_norm(pats, [(0, 0, 1), (1, 0, 1), (0, 1, 0), (0, 1, 1), (1, 1, 1), (1, 1, 0), (0, 0, 0)]))

    # ---- search: RAWCHARS == matching with the hand-decoded pattern; nothing decoded without it ------------------
    evals = 0
    nontriv = set()
    names = ['A', 'a', 'x41', 'a|b', 'a', 'b', '*', 'ab', '\n', 'a\nb', 'anb', '|', 'a{', 'x', '\x07', 'é', 'a/b', '41', 'a*', 'café.txt', 'caf\xc3\xa9.txt', '\xe9', '\xff\x80',
             'a\xa0b', 'x-y', 'x\u2014y', '\u4e00', '-', '\xa0', '8', '9', 'a\x018', '\n89', '\x0789', '\x008', '\x079x', 'x\x058', '\x078', 'a8b']
    short = [p for p in pats if len(p) <= 10]
    cand = rng.sample(short, min(len(short), 2500 if ctx.quick else 20000))     # (a sorted prefix would never start with a backslash)
    cand += designed_raw
    # a backslash before a digit that is not octal is an ordinary escape of that digit; octal runs stop at the first such digit
    cand += ['\\8', '\\9', 'a\\18', '\\1289', '[\\78]', 'x\\58*', '\\08', '\\79x', '\\128', '[\\8-\\9]', '\\7\\8', '*\\8*']
    cand += ['a\\x7cb', '\\x2a', 'a\\x7bb,c\\x7d', '\\x5ba\\x5d', 'a\\nb', '\\x41', '\\101', '\\u0041', '\\x21a', 'a\\174b', '\\x3f']
    for p in cand:
        for isb in (False, True):
            if isb and any(ord(c) > 255 for c in p):
                continue
            for (api, fl_extra) in ((Fm, 0), (Fm, Fm.SPLIT | Fm.BRACE | Fm.EXTMATCH), (Gm, Gm.SPLIT | Gm.NEGATE)):
                try:
                    want_pat = py_decode(p, isb)
                    dec_err = None
                except SyntaxError:
                    dec_err = 'SyntaxError'
                except (KeyError, ValueError) as e:
                    dec_err = type(e).__name__
                conv = (lambda s: s.encode('latin-1')) if isb else (lambda s: s)
                mt = api.fnmatch if api is Fm else api.globmatch
                base_fl = api.FORCEUNIX | fl_extra
                try:
                    got = [mt(conv(n), conv(p), flags=base_fl | api.RAWCHARS) for n in names if not isb or all(ord(c) < 256 for c in n)]
                    err = None
                except SyntaxError:
                    err = 'SyntaxError'
                except (KeyError, ValueError) as e:
                    err = type(e).__name__
                except Exception as e:
                    err = type(e).__name__
                evals += 1
                if dec_err or err:
                    if (dec_err is None) != (err is None) or (dec_err == 'SyntaxError') != (err == 'SyntaxError'):
                        if not (dec_err in ('KeyError', 'ValueError') and err in ('KeyError', 'ValueError')):
                            ctx.counterexample('RAWCHARS pattern %r (%s): implementation %s, documented decoding %s' % (
                                p, 'bytes' if isb else 'str', err or 'accepted it', dec_err or 'succeeds'),
                                {'pattern': p, 'bytes': isb, 'impl_error': err, 'spec_error': dec_err})
                    continue
                if isb and any(ord(c) > 255 for c in want_pat):
                    continue
                try:
                    want = [mt(conv(n), conv(want_pat), flags=base_fl) for n in names if not isb or all(ord(c) < 256 for c in n)]
                except Exception:
                    continue
                if want_pat != p:
                    nontriv.add((p, isb))
                if got != want:
                    ctx.counterexample('RAWCHARS: %r does not match like its decoded form %r (%s, flags %s)' % (
                        p, want_pat, 'bytes' if isb else 'str', corr.flag_names(base_fl)),
                        {'pattern': p, 'decoded': want_pat, 'bytes': isb, 'flags': corr.flag_names(base_fl), 'names': names,
                         'impl': got, 'spec': want})
                # translate() decodes at the same point as the matchers: same regexes as for the decoded pattern
                try:
                    t_raw = api.translate(conv(p), flags=base_fl | api.RAWCHARS)
                    t_dec = api.translate(conv(want_pat), flags=base_fl)
                except Exception:
                    t_raw = t_dec = None
                if t_raw != t_dec:
                    ctx.counterexample('RAWCHARS: translate(%r) = %r but translate of the decoded form %r = %r (flags %s)' % (
                        p, t_raw, want_pat, t_dec, corr.flag_names(base_fl)), {'pattern': p, 'decoded': want_pat, 'bytes': isb, 'flags': corr.flag_names(base_fl)})
                # without RAWCHARS nothing is decoded: the pattern behaves as with every backslash escape taken literally
                try:
                    plain = [mt(conv(n), conv(p), flags=base_fl) for n in names[:6] if not isb or all(ord(c) < 256 for c in n)]
                    forced = [mt(conv(n), conv(p), flags=base_fl | api.FORCEWIN) for n in names[:6] if not isb or all(ord(c) < 256 for c in n)] if api is Fm else None
                except Exception:
                    continue
                if '\\x41' in p and p.count('\\') == 1 and '/' not in p and not any(c in p for c in '*?[]|{}()!-'):
                    lit = p.replace('\\x41', 'x41')
                    for n, r in zip(names[:6], plain):
                        if r != (n == lit):
                            ctx.counterexample('without RAWCHARS %r must be the literal %r' % (p, lit), {'pattern': p, 'name': n, 'impl': r})
                    if forced is not None:
                        for n, r in zip(names[:6], forced):
                            if r != (n.lower() == lit.lower()):
                                ctx.counterexample('without RAWCHARS (FORCEWIN) %r must be the literal %r' % (p, lit), {'pattern': p, 'name': n, 'impl': r})
    # the `exclude=` argument is decoded like the patterns, on the file-system walk too (glob, iglob, Path.glob)
    import tempfile as _tf2, shutil as _sh2, os as _os2
    from wcmatch import pathlib as PLm
    t2 = _tf2.mkdtemp(prefix='c20x_')
    try:
        for n_ in ('a1', 'a2', 'b1', 'x61q', 'ad'):
            open(_os2.path.join(t2, n_), 'w').close()
        for rawx, decx in (('\\x61*', 'a*'), ('\\x2a1', '*1'), ('\\141*', 'a*'), ('b\\x31', 'b1'), ('\\u0061?', 'a?')):
            for isb2 in (False, True):
                if isb2 and '\\u' in rawx:
                    continue
                cv = (lambda z: z.encode()) if isb2 else (lambda z: z)
                evals += 1
                want = sorted(Gm.glob(cv('*'), flags=Gm.GLOBSTAR, root_dir=cv(t2), exclude=cv(decx)))
                got = sorted(Gm.glob(cv('*'), flags=Gm.GLOBSTAR | Gm.RAWCHARS, root_dir=cv(t2), exclude=cv(rawx)))
                goti = sorted(Gm.iglob(cv('*'), flags=Gm.GLOBSTAR | Gm.RAWCHARS, root_dir=cv(t2), exclude=cv(rawx)))
                gotl = sorted(Gm.glob([cv('*')], flags=Gm.GLOBSTAR | Gm.RAWCHARS, root_dir=cv(t2), exclude=[cv(rawx)]))
                gotp = want if isb2 else sorted(x.name for x in PLm.Path(t2).glob('*', flags=Gm.GLOBSTAR | Gm.RAWCHARS, exclude=rawx))
                if not (got == goti == gotl == want) or gotp != want:
                    ctx.counterexample('glob(\'*\', RAWCHARS, exclude=%r) = %r (iglob %r, lists %r, Path.glob %r); with the decoded exclusion %r: %r' % (
                        rawx, got, goti, gotl, gotp, decx, want), {'exclude': rawx, 'decoded': decx, 'bytes': isb2})
        for badx in ('\\x6', 'a\\u006', '\\N{'):
            evals += 1
            try:
                Gm.glob('*', flags=Gm.RAWCHARS, root_dir=t2, exclude=badx)
                ctx.counterexample('glob(\'*\', RAWCHARS, exclude=%r) accepted an incomplete escape' % badx, {'exclude': badx})
            except SyntaxError:
                pass
            except Exception as ex:
                ctx.counterexample('glob(exclude=%r) raised %s instead of SyntaxError' % (badx, type(ex).__name__), {'exclude': badx})
    finally:
        _sh2.rmtree(t2, ignore_errors=True)
    # WcMatch goes through the same decoding (it always splits on |)
    import tempfile, shutil, os
    tmp = tempfile.mkdtemp(prefix='c20_')
    try:
        for n in ('a.txt', 'b.md', 'c.py'):
            open(os.path.join(tmp, n), 'w').close()
        got = sorted(os.path.basename(x) for x in WM.WcMatch(tmp, 'a.txt\\x7cb.md', flags=WM.RAWCHARS).match())
        evals += 1
        if got != ['a.txt', 'b.md']:
            ctx.counterexample('WcMatch(RAWCHARS) with a decoded `|`: %r' % got, {'pattern': 'a.txt\\x7cb.md', 'got': got})
        for n, p, fl_, want in (('anb', 'a\\nb', Fm.FORCEWIN, True), ('a\nb', 'a\\nb', Fm.FORCEWIN, False),
                                ('anb', 'a\\nb', 0, True), ('a\nb', 'a\\nb', Fm.RAWCHARS, True)):
            evals += 1
            if Fm.fnmatch(n, p, flags=fl_) != want:
                ctx.counterexample('fnmatch(%r, %r, %s) != %r' % (n, p, corr.flag_names(fl_), want), {'name': n, 'pattern': p})
    finally:
        shutil.rmtree(tmp, ignore_errors=True)
    # every plane and the edges between them: \\U (and \\u, \\x where the value fits) denote chr(value) - lone surrogates and
    # the last plane included, as in Python's own string literals; beyond U+10FFFF the escape is refused
    nplanes = 0
    values = [0x41, 0x7f, 0x80, 0xff, 0x100, 0x7ff, 0x800, 0xd7ff, 0xd800, 0xdbff, 0xdc00, 0xdce9, 0xdfff, 0xe000, 0xfffd, 0xffff, 0x10000, 0x1f600, 0x2ffff, 0xeffff, 0xfffff,
              0x100000, 0x10abcd, 0x10fffd, 0x10ffff] + [rng.randrange(0x110000) for _ in range(40 if ctx.quick else 400)]
    for v in values:
        forms = ['\\U%08x' % v, '\\U%08X' % v] + (['\\u%04x' % v] if v <= 0xffff else []) + (['\\x%02x' % v] if v <= 0xff else [])
        for esc in forms:
            for tmpl in ('p%sq.txt', '%s', '[%s]x', '*%s'):
                nplanes += 1
                pat = tmpl % esc
                name = (tmpl % chr(v)).replace('[', '').replace(']', '').replace('*', 'zz')
                if chr(v) in '*?[]\\!-|()/' or chr(v) == '\x00' or (tmpl == '%s' and chr(v) == '.'):
                    continue
                try:
                    got = (Fm.fnmatch(name, pat, flags=Fm.RAWCHARS | Fm.DOTMATCH), Gm.globmatch(name, pat, flags=Gm.RAWCHARS | Gm.DOTGLOB), Fm.fnmatch(name + 'x', pat, flags=Fm.RAWCHARS | Fm.DOTMATCH) and not tmpl.startswith('*'),
                           Fm.translate(pat, flags=Fm.RAWCHARS) == Fm.translate(tmpl % ('\\' + chr(v) if False else chr(v)), flags=0))
                except Exception as ex_:
                    got = 'raised %s: %s' % (type(ex_).__name__, ex_)
                if got != (True, True, False, True):
                    ctx.counterexample('RAWCHARS: %r against the name %r: (fnmatch, globmatch, fnmatch of a longer name, translate equals translate of the decoded text) = %r; the escape denotes U+%04X' % (pat, name, got, v),
                                       {'pattern': pat, 'name': name, 'code_point': v, 'flags': 'RAWCHARS'})
                    break
    for bad_ in ('\\U00110000', '\\UFFFFFFFF', '\\U0011FFFF', '\\ud80', '\\U0010FFF', '\\U7fffffff'):
        nplanes += 1
        try:
            Fm.fnmatch('a', 'a' + bad_, flags=Fm.RAWCHARS)
            ctx.counterexample('RAWCHARS accepted %r, which denotes no character' % bad_, {'pattern': 'a' + bad_})
        except SyntaxError:
            pass
        except Exception as ex_:
            ctx.counterexample('RAWCHARS: %r raised %s instead of SyntaxError' % (bad_, type(ex_).__name__), {'pattern': 'a' + bad_})
    ctx.counted('RAWCHARS escapes across the planes (surrogates, last plane)', nplanes, nplanes, [{'pattern': 'p\\U0010FFFDq.txt'}, {'pattern': 'a\\udce9.t?t'}])
    ctx.counted('RAWCHARS vs hand-decoded pattern', evals, len(nontriv), [{'pattern': 'a\\x7cb'}, {'pattern': cand[len(cand) // 2]}])
    from props import glue
    glue.rawchars_glue(ctx)
    from props import clauses
    clauses.rawchars_errors(ctx)
    clauses.misc_clauses(ctx, 'C20')
    return ctx.finish(RULE)


def replay(data):
    print(json.dumps(data, indent=1))
    return 0
