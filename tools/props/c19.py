"""C19 - results never depend on call history, caching, sharing or threads."""
import copy
import json
import os
import pickle
import shutil
import sys
import tempfile
import threading
import corr
from wclib import import_impl, seeded_rng, Model, enc, dec, REPO as REPO_PATH

RULE = ('proof: Properties/C19.v (LRU model: every call history returns the pure values; every interleaving of atomic '
        'lookup/store/clear events keeps the cache consistent; matcher equality/rebuild). correspondence: every regex '
        'text obtained in-history (warm caches, >256 distinct patterns, same text under different flags and as bytes, '
        'translate and compile interleaved) equals the pure extracted parser model. search: each call of a pool '
        'replayed in one process vs evaluated with all caches cleared, and on 8 threads with a tiny switch interval; '
        'REALPATH matching before/after a file-system change; shared compiled matchers across threads; eq/hash/'
        'pickle/copy. non-trivial = calls whose cache key collides with another call in text but differs in flags/type')


def clear_caches():
    from wcmatch import _wcparse as W
    W._compile.cache_clear()


def run(ctx):
    import_impl()
    from wcmatch import fnmatch as Fm, glob as Gm, _wcparse as W, _wcmatch as WMt
    rng, seed = seeded_rng('c19')
    ctx.proof('Properties/C19.v')

    # ---- pool of calls designed to collide in the cache key space ---------------------------------------------
    base = ['*.txt', 'a*', '?b', '[ab]c', '**/x', '!(a)', '@(a|b)*', 'a/b', '.*', '*', 'A*', 'a?', '{a,b}c', 'x|y', '\\*']
    base += ['p%d*' % i for i in range(300)]      # > 256 distinct patterns to force eviction
    names = ['a.txt', 'ab', 'ac', 'x', 'q/x', 'b', 'A.TXT', '.h', 'ab/', 'p7z', 'p299', 'yc', '*']
    fsets_f = [0, Fm.EXTMATCH, Fm.IGNORECASE, Fm.DOTMATCH, Fm.EXTMATCH | Fm.DOTMATCH, Fm.BRACE, Fm.SPLIT, Fm.NEGATE | Fm.EXTMATCH, Fm.FORCEWIN]
    fsets_g = [0, Gm.EXTGLOB, Gm.GLOBSTAR, Gm.GLOBSTAR | Gm.DOTGLOB, Gm.IGNORECASE, Gm.MATCHBASE | Gm.GLOBSTAR, Gm.BRACE | Gm.SPLIT, Gm.NODIR]

    def make_call():
        p = rng.choice(base)
        isb = rng.random() < 0.25
        kind = rng.choice(['fnmatch', 'filter', 'ftranslate', 'globmatch', 'globfilter', 'gtranslate', 'fcompile', 'gcompile'])
        fv = rng.choice(fsets_f if kind[0] == 'f' else fsets_g)
        n = rng.choice(names)
        if rng.random() < 0.04:
            # a call that raises PatternLimitException (must raise every time, whatever came before)
            return (rng.choice(['fnmatch_lim', 'filter_lim', 'globmatch_lim']), '{1..20}', 0, '3', isb)
        return (kind, p, fv, n, isb)

    def do(call):
        try:
            return do_(call)
        except Exception as e:
            return 'EXC ' + type(e).__name__

    def do_(call):
        kind, p, fv, n, isb = call
        P = p.encode() if isb else p
        N = n.encode() if isb else n
        if kind == 'fnmatch_lim':
            return Fm.fnmatch(N, P, flags=Fm.BRACE, limit=10)
        if kind == 'filter_lim':
            return Fm.filter([N], P, flags=Fm.BRACE, limit=10)
        if kind == 'globmatch_lim':
            return Gm.globmatch(N, P, flags=Gm.BRACE, limit=10)
        if kind == 'fnmatch':
            return Fm.fnmatch(N, P, flags=fv)
        if kind == 'filter':
            return Fm.filter([N, P], P, flags=fv)
        if kind == 'ftranslate':
            return Fm.translate(P, flags=fv)
        if kind == 'fcompile':
            m = Fm.compile(P, flags=fv)
            return (m.match(N), tuple(x.pattern for x in m._matcher._include), tuple(x.pattern for x in (m._matcher._exclude or ())))
        if kind == 'globmatch':
            return Gm.globmatch(N, P, flags=fv)
        if kind == 'globfilter':
            return Gm.globfilter([N, P], P, flags=fv)
        if kind == 'gtranslate':
            return Gm.translate(P, flags=fv)
        if kind == 'gcompile':
            m = Gm.compile(P, flags=fv)
            return (m.match(N), tuple(x.pattern for x in m._matcher._include), tuple(x.pattern for x in (m._matcher._exclude or ())))

    L = 400
    nh = 6 if ctx.quick else 40
    evals = 0
    collide = set()
    for h in range(nh):
        calls = []
        for _ in range(L):
            calls.append(calls[-1] if calls and rng.random() < 0.12 else make_call())    # immediate repeats too
        clear_caches()
        warm = [do(c) for c in calls]
        cold = []
        for c in calls:
            clear_caches()
            cold.append(do(c))
        evals += 2 * L
        for c, a, b in zip(calls, warm, cold):
            if a != b:
                ctx.counterexample('call %r returns %r after a history but %r with caches cleared' % (c, a, b),
                                   {'call': list(c), 'history_index': calls.index(c), 'history': [list(x) for x in calls[:calls.index(c)]][-20:]})
                break
        texts = {}
        for c in calls:
            texts.setdefault(c[1], set()).add((c[2], c[4], c[0][0]))
        collide |= {p for p, s in texts.items() if len(s) > 1}
        # threads: the same calls on 8 threads with a tiny switch interval
        old = sys.getswitchinterval()
        sys.setswitchinterval(1e-6)
        try:
            clear_caches()
            res = [None] * 8

            def work(k):
                order = calls[k::8] + calls[:: max(1, 8 - k)]
                out_ = []
                for c in order:
                    try:
                        out_.append((c, do(c)))
                    except Exception as e:      # an exception the sequential run did not raise is a wrong answer too
                        out_.append((c, 'EXC ' + type(e).__name__))
                res[k] = out_
            ths = [threading.Thread(target=work, args=(k,)) for k in range(8)]
            for t in ths:
                t.start()
            for t in ths:
                t.join()
        finally:
            sys.setswitchinterval(old)
        expect = dict(zip(calls, cold))
        for k in range(8):
            for c, r in res[k]:
                evals += 1
                if r != expect[c]:
                    ctx.counterexample('on thread %d call %r returned %r, sequentially %r' % (k, c, r, expect[c]),
                                       {'call': list(c), 'threads': 8})
                    break
    # ---- in-history regex text equals the pure parser model ----------------------------------------------------
    m = Model()
    clear_caches()
    reqs, got = [], []
    for i in range(900 if ctx.quick else 6000):
        p = rng.choice(base)
        fv = rng.choice([0, W.EXTMATCH, W.PATHNAME | W.GLOBSTAR, W.DOTMATCH, W.IGNORECASE, W.PATHNAME | W.EXTMATCH | W.DOTMATCH])
        isb = rng.random() < 0.3
        rx = W._compile(p.encode() if isb else p, fv).pattern
        got.append(rx.decode('latin-1') if isb else rx)
        reqs.append('wcparse %d %d %s' % (fv & W.FLAG_MASK, int(isb), enc(p)))
    outs = m.run(reqs)
    nd = 0
    for r, o, g_ in zip(reqs, outs, got):
        if o != 'ok ' + enc(g_):
            nd += 1
            if nd <= 3:
                ctx.counterexample('_compile in-history returned %r, the pure model %r' % (g_, dec(o[3:]) if o.startswith('ok ') else o), {'request': r})
    evals += len(reqs)

    # ---- shared compiled matchers on threads; eq / hash / pickle / copy / reuse -----------------------------------
    shared = [Fm.compile('*.txt'), Gm.compile('**/*.py', flags=Gm.GLOBSTAR), Fm.compile(['a*', '!ab'], flags=Fm.NEGATE)]
    old = sys.getswitchinterval()
    sys.setswitchinterval(1e-6)
    bad = []
    try:
        barrier = threading.Barrier(8)

        def work2(k):
            barrier.wait()
            for i in range(24000 if ctx.quick else 120000):
                if bad:
                    return
                nm = ['file%d.txt' % k, 'file%d.log' % k, 'pkg%d/mod.py' % k, 'pkg%d/mod.c' % k, 'a%d' % k, 'ab'][i % 6]
                exp = [nm.endswith('.txt'), nm.endswith('.py'), nm.startswith('a') and nm != 'ab']
                for mt, e in zip(shared, exp):
                    if mt.match(nm) != e or (mt.filter([nm]) == [nm]) != e:
                        bad.append((k, nm))
        ths = [threading.Thread(target=work2, args=(k,)) for k in range(8)]
        for t in ths:
            t.start()
        for t in ths:
            t.join()
    finally:
        sys.setswitchinterval(old)
    if bad:
        ctx.counterexample('a compiled matcher shared by 8 threads answered for another thread\'s name: %r' % (bad[0],), {'first': list(bad[0])})
    for p, fv in [('*.txt', 0), (['a', 'b'], Fm.EXTMATCH), ('!(a)', Fm.EXTMATCH)]:
        a, b = Fm.compile(p, flags=fv), Fm.compile(p, flags=fv)
        c_ = Fm.compile('zz*', flags=fv)
        evals += 1
        if not (a == b and hash(a) == hash(b) and a != c_ and pickle.loads(pickle.dumps(a)) == a and copy.copy(a) == a
                and copy.deepcopy(a) == a and pickle.loads(pickle.dumps(a)).match('x.txt') == a.match('x.txt')):
            ctx.counterexample('eq/hash/pickle/copy contract broken for compile(%r, %r)' % (p, fv), {'pattern': p, 'flags': fv})
        try:
            a._matcher._include = ()
            ctx.counterexample('compiled matcher is mutable', {'pattern': p})
        except AttributeError:
            pass
        # ... nor deleted: every slot of the matcher and of the object inside it, for fnmatch and glob matchers
        for obj_name, obj in (('matcher', a), ('matcher._matcher', a._matcher), ('glob matcher', Gm.compile(p, flags=fv)), ('glob matcher._matcher', Gm.compile(p, flags=fv)._matcher)):
            for slot in type(obj).__slots__:
                for how, op in (('set', lambda o=obj, sl=slot: setattr(o, sl, None)), ('delete', lambda o=obj, sl=slot: delattr(o, sl))):
                    evals += 1
                    before = hash(a)
                    try:
                        op()
                        ctx.counterexample('compiled %s: attribute %s can be %s (matcher objects are immutable)' % (obj_name, slot, 'set' if how == 'set' else 'deleted'),
                                           {'pattern': p, 'flags': fv, 'object': obj_name, 'attribute': slot, 'operation': how})
                        break
                    except AttributeError:
                        pass
    # ---- matchers that compare equal are interchangeable: same hash, same verdict on every probe --------------------
    import tempfile as _tf
    import shutil as _sh
    eqroot = os.path.realpath(_tf.mkdtemp(prefix='c19eq_'))
    try:
        os.makedirs(os.path.join(eqroot, 'data', 'sub'))
        for n in ('data/a.txt', 'data/sub/b.txt', 'top.txt'):
            open(os.path.join(eqroot, n), 'w').close()
        pats_eq = ['*.txt', 'data/*.txt', '**/*.txt', eqroot + '/data/*.txt', eqroot + '/*', eqroot + '/data/**', 'data/', '[ad]*', '!*.txt', '*']
        flags_eq = [0, Gm.REALPATH, Gm.GLOBSTAR, Gm.GLOBSTAR | Gm.REALPATH, Gm.GLOBSTAR | Gm.REALPATH | Gm.FOLLOW, Gm.GLOBSTARLONG | Gm.REALPATH, Gm.NEGATE, Gm.DOTGLOB,
                    Gm.IGNORECASE, Gm.MATCHBASE, Gm.NODIR, Gm.NODIR | Gm.REALPATH]
        probes = ['data/a.txt', 'data/missing.txt', 'data/sub/b.txt', eqroot + '/data/a.txt', eqroot + '/data/missing.txt', eqroot + '/top.txt', eqroot + '/data',
                  'top.txt', 'TOP.TXT', '.h.txt', 'data', 'data/', 'x/y/top.txt']
        ms = []
        for pp in pats_eq:
            for ff in flags_eq:
                for rep in range(2):
                    ms.append((pp, ff, 'glob', Gm.compile(pp, flags=ff)))
            for ff in (0, Fm.IGNORECASE, Fm.DOTMATCH, Fm.NEGATE):
                ms.append((pp, ff, 'fnmatch', Fm.compile(pp, flags=ff)))

        def verdicts(m):
            out = []
            for n in probes:
                try:
                    out.append(_match_rd(m, n))
                except Exception as ex:
                    out.append(type(ex).__name__)
            return out

        def _match_rd(m, n):
            try:
                return m.match(n, root_dir=eqroot)
            except TypeError:
                return m.match(n)
        vs = [verdicts(m[3]) for m in ms]
        for i in range(len(ms)):
            for j in range(i + 1, len(ms)):
                evals += 1
                a, b = ms[i][3], ms[j][3]
                same_src = ms[i][:3] == ms[j][:3]
                if same_src and not (a == b and hash(a) == hash(b) and not (a != b)):
                    ctx.counterexample('two matchers compiled from the same pattern and flags are not equal / hash-equal', {'pattern': ms[i][0], 'flags': ms[i][1], 'api': ms[i][2]})
                    break
                if a == b and (vs[i] != vs[j] or hash(a) != hash(b) or (a != b)):
                    k = next((x for x in range(len(probes)) if vs[i][x] != vs[j][x]), None)
                    ctx.counterexample('%s.compile(%r, %s) == %s.compile(%r, %s) but %s' % (
                        ms[i][2], ms[i][0], corr.flag_names(ms[i][1]), ms[j][2], ms[j][0], corr.flag_names(ms[j][1]),
                        ('they disagree on %r (%r vs %r)' % (probes[k], vs[i][k], vs[j][k])) if k is not None else 'their hashes differ or != also holds'),
                        {'a': [ms[i][0], corr.flag_names(ms[i][1]), ms[i][2]], 'b': [ms[j][0], corr.flag_names(ms[j][1]), ms[j][2]]})
                    break
            else:
                continue
            break
    finally:
        _sh.rmtree(eqroot, ignore_errors=True)
    # ---- REALPATH answers follow the file system, not earlier calls ------------------------------------------------
    tmp = tempfile.mkdtemp(prefix='c19_')
    try:
        os.mkdir(os.path.join(tmp, 'real'))
        open(os.path.join(tmp, 'real', 'data.txt'), 'w').close()
        os.symlink('real', os.path.join(tmp, 'entry'))
        fl_ = Gm.GLOBSTAR | Gm.REALPATH
        r1 = Gm.globmatch('entry/data.txt', '**/data.txt', flags=fl_, root_dir=tmp)
        cm = Gm.compile('**/data.txt', flags=fl_)
        r1c = cm.match('entry/data.txt', root_dir=tmp)
        os.unlink(os.path.join(tmp, 'entry'))
        os.mkdir(os.path.join(tmp, 'entry'))
        open(os.path.join(tmp, 'entry', 'data.txt'), 'w').close()
        r2 = Gm.globmatch('entry/data.txt', '**/data.txt', flags=fl_, root_dir=tmp)
        r2c = cm.match('entry/data.txt', root_dir=tmp)
        evals += 4
        if (r1, r1c, r2, r2c) != (False, False, True, True):
            ctx.counterexample('REALPATH globmatch through a path that was a symlink, then a directory: %r (expected False, False, True, True)' % ((r1, r1c, r2, r2c),),
                               {'sequence': 'symlinked dir -> real dir', 'results': [r1, r1c, r2, r2c]})
        # clones (pickle / copy / deepcopy) of glob matchers behave like the original, also where the answer depends on
        # the file system and on every flag (FOLLOW, GLOBSTARLONG, MATCHBASE, DOTGLOB, NODIR ...)
        os.mkdir(os.path.join(tmp, 'cl'))
        os.makedirs(os.path.join(tmp, 'cl', 'real', 'sub'))
        for f_ in ('real/a.txt', 'real/sub/b.txt', 'real/.h.txt'):
            open(os.path.join(tmp, 'cl', f_), 'w').close()
        os.symlink('real', os.path.join(tmp, 'cl', 'link'))
        cands = ['real/a.txt', 'link/a.txt', 'link/sub/b.txt', 'real/sub/b.txt', 'real/.h.txt', 'link', 'real/sub', 'missing']
        for pat in ('**/*.txt', '***/*.txt', '*.txt', '**', 'link/**', ['**/*.txt', '!**/b.txt']):
            for fx in (0, Gm.FOLLOW, Gm.GLOBSTARLONG, Gm.GLOBSTARLONG | Gm.FOLLOW | Gm.MATCHBASE, Gm.MATCHBASE, Gm.DOTGLOB, Gm.NODIR | Gm.FOLLOW, Gm.NEGATE | Gm.FOLLOW):
                for real in (Gm.REALPATH, 0):
                    fl2 = Gm.GLOBSTAR | fx | real
                    orig = Gm.compile(pat, flags=fl2)
                    want = [orig.match(c, root_dir=os.path.join(tmp, 'cl')) for c in cands]
                    for how, clone in (('pickle', lambda m_: pickle.loads(pickle.dumps(m_))), ('copy', copy.copy), ('deepcopy', copy.deepcopy)):
                        evals += 1
                        cl = clone(orig)
                        got = [cl.match(c, root_dir=os.path.join(tmp, 'cl')) for c in cands]
                        if got != want or cl != orig or hash(cl) != hash(orig) or cl not in {orig}:
                            ctx.counterexample('%s of glob.compile(%r, %s) does not behave like / compare equal to the original: %r vs %r, ==: %r' % (
                                how, pat, corr.flag_names(fl2), got, want, cl == orig), {'pattern': pat, 'flags': corr.flag_names(fl2), 'how': how})
                            break
        # every call answers as it does in a fresh interpreter, whatever other calls (translate / compile / match, with and
        # without REALPATH, MATCHBASE's implicit prefix, pathlib's right-anchored match) ran before it in this process
        import subprocess
        import one_call
        hroot = os.path.join(tmp, 'cl')
        MB, RP, GS, GL, FO, DG = Gm.MATCHBASE, Gm.REALPATH, Gm.GLOBSTAR, Gm.GLOBSTARLONG, Gm.FOLLOW, Gm.DOTGLOB
        hcalls = []
        for pat_ in ('*.txt', 'a.txt', 'sub/*.txt', '**/*.txt'):
            for fl_h in (MB | RP, MB | RP | GS, MB, MB | RP | GL | FO, RP | GS, MB | RP | DG, GS):
                hcalls.append({'api': 'gtranslate', 'pattern': pat_, 'flags': fl_h})
                for nm_ in ('link/a.txt', 'real/a.txt', 'link/sub/b.txt'):
                    hcalls.append({'api': 'globmatch', 'pattern': pat_, 'flags': fl_h, 'name': nm_, 'root': hroot})
                hcalls.append({'api': 'gcompile', 'pattern': pat_, 'flags': fl_h, 'name': 'link/a.txt', 'root': hroot})
            hcalls.append({'api': 'pmatch', 'pattern': pat_, 'flags': RP | GS, 'name': 'link/a.txt', 'root': hroot})
            hcalls.append({'api': 'pmatch', 'pattern': pat_, 'flags': GS, 'name': 'link/a.txt', 'root': hroot})
            hcalls.append({'api': 'rglob', 'pattern': pat_, 'flags': GS, 'root': hroot})
        rng.shuffle(hcalls)
        hcalls = hcalls[: 40 if ctx.quick else 160]
        # pure paths: rooted and relative patterns under the same flags (the rooted ones switch the implicit prefix off - for themselves only)
        for fl_h in (0, GS, GS | DG):
            for pat_, nm_ in (('/srv/*/*.py', '/srv/app/main.py'), ('mod.*', 'pkg/sub/mod.py'), ('sub/*.py', 'pkg/sub/mod.py'), ('/srv/**', '/srv/app/main.py'),
                              ('*.py', 'pkg/sub/mod.py'), ('/*.py', '/mod.py'), ('app/*.py', '/srv/app/main.py')):
                hcalls.append({'api': 'pure_match', 'pattern': pat_, 'flags': fl_h, 'name': nm_})
                hcalls.append({'api': 'pure_globmatch', 'pattern': pat_, 'flags': fl_h, 'name': nm_})
        envh = dict(os.environ)
        fresh = []
        for c_ in hcalls:
            pr = subprocess.run([sys.executable, os.path.join(os.path.dirname(os.path.abspath(one_call.__file__)), 'one_call.py'), json.dumps(c_)],
                                capture_output=True, text=True, env=envh, timeout=120)
            fresh.append(json.loads(pr.stdout.strip().split('\n')[-1]) if pr.returncode == 0 and pr.stdout.strip() else 'SUBPROCESS-FAILED ' + pr.stderr[-200:])
        for order in ('forward', 'reverse', 'translate-first', 'match-first', 'rooted-first', 'rooted-last'):
            idxs = list(range(len(hcalls)))
            clear_caches()      # the documented caches start empty in every order: whatever else remembers must not show
            if order == 'reverse':
                idxs.reverse()
            elif order == 'rooted-first':
                idxs.sort(key=lambda k: not hcalls[k]['pattern'].startswith('/'))
            elif order == 'rooted-last':
                idxs.sort(key=lambda k: hcalls[k]['pattern'].startswith('/'))
            elif order == 'translate-first':
                idxs.sort(key=lambda k: hcalls[k]['api'] != 'gtranslate')
            elif order == 'match-first':
                idxs.sort(key=lambda k: hcalls[k]['api'] == 'gtranslate')
            stop = False
            for k in idxs:
                evals += 1
                got = json.loads(json.dumps(one_call.run_call(hcalls[k])))
                if got != fresh[k]:
                    ctx.counterexample('%s(%r, %s%s) answers %r after other calls (order: %s) but %r in a fresh interpreter' % (
                        hcalls[k]['api'], hcalls[k]['pattern'], corr.flag_names(hcalls[k]['flags']), ', ' + hcalls[k]['name'] if hcalls[k].get('name') else '',
                        str(got)[:120], order, str(fresh[k])[:120]), {'call': {kk: vv for kk, vv in hcalls[k].items() if kk != 'root'}, 'order': order})
                    stop = True
                    break
            if stop:
                break
        # no descriptor is left open by walks addressed through dir_fd
        fdr = os.open(hroot, os.O_RDONLY)
        try:
            before = len(os.listdir('/proc/self/fd'))
            for _ in range(30):
                Gm.glob('**/*.txt', flags=GS, dir_fd=fdr)
                list(Gm.iglob('*/*', flags=GS | FO, dir_fd=fdr))
            after = len(os.listdir('/proc/self/fd'))
            evals += 1
            if after > before:
                ctx.counterexample('60 walks through dir_fd left %d more descriptors open (the same calls will start failing with EMFILE)' % (after - before),
                                   {'open_before': before, 'open_after': after})
        finally:
            os.close(fdr)
        # same dir_fd number reused for another tree
        for k, tree in enumerate(('ta', 'tb')):
            os.mkdir(os.path.join(tmp, tree))
        os.mkdir(os.path.join(tmp, 'ta', 'real'))
        open(os.path.join(tmp, 'ta', 'real', 'f'), 'w').close()
        os.symlink('real', os.path.join(tmp, 'ta', 'd'))
        os.mkdir(os.path.join(tmp, 'tb', 'd'))
        open(os.path.join(tmp, 'tb', 'd', 'f'), 'w').close()
        cm2 = Gm.compile('**/f', flags=fl_)
        fd = os.open(os.path.join(tmp, 'ta'), os.O_RDONLY)
        ra = cm2.match('d/f', dir_fd=fd)
        os.close(fd)
        fd2 = os.open(os.path.join(tmp, 'tb'), os.O_RDONLY)
        rb = cm2.match('d/f', dir_fd=fd2)
        os.close(fd2)
        evals += 2
        if (ra, rb) != (False, True):
            ctx.counterexample('one compiled matcher, two trees through dir_fd (fd number %d then %d): %r, expected (False, True)' % (fd, fd2, (ra, rb)),
                               {'results': [ra, rb]})
    finally:
        shutil.rmtree(tmp, ignore_errors=True)
    ctx.counted('histories, threads, sharing', evals, len(collide), [{'call': list(make_call())}, {'call': list(make_call())}])
    # the same call made again and again gives the same answer and equal, hash-equal matchers - whatever keyword arguments and
    # flags it combines (exclude= with NODIR, NEGATE, limits close to the pattern count, MATCHBASE, REALPATH ...)
    nrep = 0
    rep_names = ['a', 'b1', 'a/', 'b/x', 'c.txt', 'b2/']
    for api_ in (Gm, Fm):
        for pat_, fl_, kw_ in (('**', Gm.GLOBSTAR | Gm.NODIR, {'exclude': 'b*'}), ('*', Gm.NODIR, {'exclude': ['b*', 'c*'], 'limit': 4}),
                               (['*', '!b*'], Gm.NEGATE | Gm.NODIR, {}), ('*', 0, {'exclude': 'b*', 'limit': 2}), ('a|b*', Gm.SPLIT | Gm.NODIR, {'exclude': 'c*|d*', 'limit': 5}),
                               ('**/*', Gm.GLOBSTAR | Gm.MATCHBASE | Gm.NODIR, {'exclude': '**/x'})):
            if api_ is Fm:
                fl_ = fl_ & ~(Gm.GLOBSTAR | Gm.NODIR | Gm.MATCHBASE)
            first = None
            for k in range(7):
                nrep += 1
                try:
                    m_ = api_.compile(pat_, flags=fl_, **kw_)
                    now = ('ok', [m_.match(n_) for n_ in rep_names], (Gm.globfilter if api_ is Gm else Fm.filter)(rep_names, pat_, flags=fl_, **kw_),
                           [list(x) for x in api_.translate(pat_, flags=fl_, **kw_)])
                except Exception as ex_:
                    m_, now = None, ('EXC ' + type(ex_).__name__,)
                if first is None:
                    first = (m_, now)
                elif now != first[1] or (m_ is not None and (m_ != first[0] or hash(m_) != hash(first[0]))):
                    ctx.counterexample('%s.compile/filter/translate(%r, %s%s): call number %d answers %s, the first call %s%s' % (
                        api_.__name__.split('.')[-1], pat_, corr.flag_names(fl_), ''.join(', %s=%r' % kv for kv in kw_.items()), k + 1, str(now)[:120], str(first[1])[:120],
                        '' if m_ is None or m_ == first[0] else ' (the matchers compare unequal)'),
                        {'pattern': pat_, 'flags': corr.flag_names(fl_), 'kwargs': {a: repr(b) for a, b in kw_.items()}, 'call_number': k + 1})
                    break
    ctx.counted('the same call repeated', nrep, nrep // 2, [{'pattern': '**', 'flags': 'GLOBSTAR|NODIR', 'exclude': 'b*'}])
    # a pickled matcher means the same in another interpreter: loaded under a different hash seed it equals, and hashes like, the
    # matcher compiled there
    import subprocess as _sp
    import pickle as _pk
    prog_dump = ("import sys,pickle,binascii; sys.path.insert(0, %r)\n"
                 "from wcmatch import glob as G, fnmatch as F\n"
                 "ms=[G.compile('**/*.txt', flags=G.GLOBSTAR), G.compile('*', flags=G.NODIR, exclude='b*'), G.compile(b'*.py'), F.compile('a*|b*', flags=F.SPLIT), F.compile('*', exclude='x')]\n"
                 "print(binascii.hexlify(pickle.dumps(ms)).decode())") % REPO_PATH
    prog_load = ("import sys,pickle,binascii; sys.path.insert(0, %r)\n"
                 "from wcmatch import glob as G, fnmatch as F\n"
                 "ms=pickle.loads(binascii.unhexlify(sys.stdin.read().strip()))\n"
                 "fresh=[G.compile('**/*.txt', flags=G.GLOBSTAR), G.compile('*', flags=G.NODIR, exclude='b*'), G.compile(b'*.py'), F.compile('a*|b*', flags=F.SPLIT), F.compile('*', exclude='x')]\n"
                 "print([(a==b, hash(a)==hash(b), len({a,b})) for a,b in zip(ms,fresh)])") % REPO_PATH
    try:
        out1 = _sp.run([sys.executable, '-c', prog_dump], env=dict(os.environ, PYTHONHASHSEED='11'), capture_output=True, text=True, timeout=120)
        out2 = _sp.run([sys.executable, '-c', prog_load], input=out1.stdout, env=dict(os.environ, PYTHONHASHSEED='22'), capture_output=True, text=True, timeout=120)
        evals += 5
        verdicts = eval(out2.stdout.strip()) if out2.returncode == 0 and out2.stdout.strip() else None
        if verdicts is None:
            ctx.counterexample('matchers pickled in one interpreter could not be loaded in another: %s' % (out2.stderr or out1.stderr)[-300:], {'stage': 'pickle across interpreters'})
        elif any(v != (True, True, 1) for v in verdicts):
            ctx.counterexample('matchers pickled under PYTHONHASHSEED=11 and loaded under PYTHONHASHSEED=22 vs the matchers compiled there: (equal, hash-equal, size of the set of both) = %r' % (verdicts,),
                               {'stage': 'pickle across interpreters', 'verdicts': repr(verdicts)})
    except Exception as ex_:
        ctx.counterexample('pickle across interpreters raised %s' % type(ex_).__name__, {'stage': 'pickle across interpreters'})
    # the directory walker object, too, answers from its arguments and the file system only: any number of runs of one
    # object, interleaved with runs of another one, give the files and the skipped count of a fresh object
    import trees as _trees
    from wcmatch import wcmatch as _WM
    nw = 0
    with _trees.Tree(_trees.DESIGNED[0]) as TW:
        for fp_, ep_, fl_ in (('*.txt', '', _WM.RECURSIVE), ('*', 'sub', _WM.RECURSIVE | _WM.HIDDEN), ('a*|!*.txt', '', _WM.RECURSIVE | _WM.SYMLINKS),
                              ('*/*', '', _WM.RECURSIVE | _WM.FILEPATHNAME), ('', '', 0), ('x*', '.*', _WM.RECURSIVE | _WM.HIDDEN)):
            fresh = _WM.WcMatch(TW.root, fp_, ep_, flags=fl_)
            want = (sorted(fresh.match()), fresh.get_skipped())
            w1 = _WM.WcMatch(TW.root, fp_, ep_, flags=fl_)
            other = _WM.WcMatch(TW.root, '*', '', flags=_WM.RECURSIVE | _WM.HIDDEN)
            hist = []
            for k in range(4):
                if k == 2:
                    other.match()
                    list(w1.imatch())
                    hist.append((None, w1.get_skipped()))
                    continue
                hist.append((sorted(w1.match()), w1.get_skipped()))
            nw += 4
            if any((r is not None and r != want[0]) or sk != want[1] for r, sk in hist):
                ctx.counterexample('WcMatch(%r, %r, %#x): runs of one object give skipped counts %r, a fresh object %d (files equal: %r)' % (
                    fp_, ep_, fl_, [sk for _, sk in hist], want[1], [r is None or r == want[0] for r, _ in hist]),
                    {'file_pattern': fp_, 'exclude_pattern': ep_, 'flags': fl_, 'tree': _trees.DESIGNED[0]})
    ctx.counted('a walker object re-run', nw, nw // 2, [{'file_pattern': '*.txt', 'runs': 4}])
    from props import fringe
    fringe.twin_histories(ctx)
    from props import glue
    glue.interleaved_walkers(ctx)
    glue.deep_tree_state(ctx)
    glue.realpath_follows_fs(ctx)
    from props import clauses
    clauses.windows_drive_bytes(ctx)
    clauses.tilde_follows_fs(ctx)
    return ctx.finish(RULE)


def replay(data):
    print(json.dumps(data, indent=1))
    return 0
