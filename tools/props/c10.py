"""C10 - every string is an acceptable pattern: no crashes, no invalid regexes."""
import json
import os
import re
import shutil
import tempfile
import corr
from wclib import import_impl, seeded_rng, strings_upto
from props import common

RULE = ('proof: Properties/C10.v (the list loop raises only documented errors, for every oracle/flags/lists). '
        'correspondence: exact regex text (or ValueError) of the extracted parser model for every string over the '
        'metacharacter alphabet up to the tier length, nested-group and bracket token products, random strings up to '
        'length 40, str and bytes, fnmatch and glob flag sets; the model never reported out-of-fuel. search: every '
        'public entry point (fnmatch/glob translate, match, filter, compile, escape, is_magic, glob, pathlib match, '
        'WcMatch) on the same strings with random flag subsets: only documented exceptions, every translate regex '
        'compiles. non-trivial = string containing at least one metacharacter; distinct strings')

DOCUMENTED = ('PatternLimitException', 'SyntaxError', 'KeyError', 'ValueError', 'TypeError')


def run(ctx):
    import_impl()
    from wcmatch import fnmatch as Fm, glob as Gm, pathlib as PL, wcmatch as WM, _wcparse as W
    rng, seed = seeded_rng('c10')
    ctx.proof('Properties/C10.v')
    from props import globcommon as _gc
    _gc.gsplit_corr(ctx, seeded_rng('gsplit')[0])
    F = corr.fl
    fsets = [0, F('EXTMATCH'), F('EXTMATCH', 'DOTMATCH', '_TRANSLATE'), F('PATHNAME', 'GLOBSTAR', 'EXTMATCH'),
             F('PATHNAME', 'GLOBSTAR', 'EXTMATCH', 'MATCHBASE', 'NODOTDIR'), F('PATHNAME', 'EXTMATCH', '_NOABSOLUTE', 'REALPATH'),
             F('FORCEWIN', 'EXTMATCH')]
    # random strings up to length 40 over the full metacharacter alphabet
    extra = []
    al = list('ab.*?[]!-()|\\/+@^:{},~&#$ \n') + ['[:alpha:]', '!(', '*(', '?(', '+(', '@(']
    for _ in range(1500 if ctx.quick else 30000):
        extra.append(''.join(rng.choice(al) for _ in range(rng.randint(5, 40 if not ctx.quick else 24))))
    res = common.parse_text_corr(ctx, 'wcparse text / ValueError (all strings)', fsets, quick_len=3, thorough_len=5,
                                 extra_patterns=extra)
    fuel = [d for d in res['disagreements'] if d.get('model') == 'fuel']
    if fuel:
        ctx.counterexample('model ran out of fuel', fuel[0])

    # ---- every public entry point -------------------------------------------------------------------------------
    tmp = tempfile.mkdtemp(prefix='c10_')
    evals = 0
    nontriv = set()
    samples = []
    try:
        for n in ('a', 'b.txt', '.h'):
            open(os.path.join(tmp, n), 'w').close()
        os.mkdir(os.path.join(tmp, 'd'))
        open(os.path.join(tmp, 'd', 'a'), 'w').close()
        pats = list(strings_upto(common.ALPHA14, 3 if ctx.quick else 4)) + common.ext_token_patterns(4) + extra[:600 if ctx.quick else 6000]
        fl_f = [Fm.EXTMATCH, Fm.NEGATE, Fm.SPLIT, Fm.BRACE, Fm.DOTMATCH, Fm.MINUSNEGATE, Fm.NEGATEALL, Fm.IGNORECASE, Fm.RAWCHARS, Fm.FORCEWIN]
        fl_g = [Gm.EXTGLOB, Gm.NEGATE, Gm.SPLIT, Gm.BRACE, Gm.DOTGLOB, Gm.GLOBSTAR, Gm.MATCHBASE, Gm.NODIR, Gm.NEGATEALL, Gm.MARK,
                Gm.GLOBSTARLONG, Gm.FOLLOW, Gm.NODOTDIR, Gm.SCANDOTDIR, Gm.RAWCHARS, Gm.GLOBTILDE, Gm.NOUNIQUE, Gm.FORCEWIN]
        # RAWCHARS escapes, complete / incomplete / undecodable (regression: `\Uffffffff` raised OverflowError)
        rawpats = ['\\Uffffffff', '\\U00110000', '\\U0010ffff', '\\U80000000', '\\ud800', '\\N{', '\\N{nope}', '\\N{DIGIT ONE}', '\\x4', '\\x', '\\u12',
                   '\\777', '\\1234', '\\U0000004', 'a\\x5b', '[\\x5d]', '\\\\Uffffffff', '\\\\\\Uffffffff', '@(\\Uffffffff)', '\\xff', '\\400']
        rawpats += ['\\400', '\\777', 'a\\477b', '[\\500]', '\\377', '\\x80', '@(\\600)']
        # regression (fixed f1e8f80): internal marker text written by the user
        rawpats += ['[(?#)]', '[a(?#)]', '[!(?#)]', '(?#)', '@([(?#)])', '!([(?#)])', '[(?#)', '[[:alpha:](?#)]', '[#-(?#)]', '\\(?#)', '[(?\\#)]']
        # emptied / all-accepting classes (every range reversed), each as str and as bytes (index parity below)
        for bp in ['[!b-a]', '[^z-a]x', '[!9-0z-a]', 'a[!c-b]c', '@([!b-a]|x)', '[b-a]', '[!b-ac]', '[z-a9-0]', '!([^b-a])', '[!b-a]/[^z-a]']:
            rawpats += [bp, bp]
        # bracket expressions built from the pieces the scanner treats specially: ranges (valid, reversed, sharing a hyphen),
        # stray hyphens, escaped members - `\/` and `\\` among them, which in path mode end the bracket -, classes, operators
        btoks = ['a', 'b', 'z', '-', 'b-a', 'z-a', '9-0', 'a-b', '0-9', '!', '^', '\\/', '/', '\\-', '\\]', '\\\\', '[:alpha:]', '[:digit:]', '*', '|', '&&', '~~', '--', '[', '.', '#',
                 # range end points around the separators' code points (0x2f, 0x5c), also written as escapes
                 'A-', '0-', 'Z-', ':-', '+-', 'A-\\\\', '0-\\/', '+-\\\\', '\\\\-a', '\\/-9', 'A', 'Z', '0']
        for _ in range(500 if ctx.quick else 5000):
            body = ''.join(rng.choice(btoks) for _ in range(rng.randint(1, 5)))
            rawpats.append(rng.choice(['', '', 'a', '*', '@(', '+(a|', 'x/', '!(']) + '[' + rng.choice(['', '', '!', '^']) + body + ']' + rng.choice(['', '', 'b', '*', ')', '/y', '|x)']))
        for _ in range(60 if ctx.quick else 600):
            rawpats.append(''.join(rng.choice(['\\', 'U', 'u', 'x', 'N', '{', '}', 'f', '8', '0', '1', 'a', '/', '*']) for _ in range(rng.randint(2, 14))))
        pats = rawpats + pats
        old = os.getcwd()
        os.chdir(tmp)
        for ip, p in enumerate(pats):
            fv = 0
            for x in fl_f:
                if rng.random() < 0.35:
                    fv |= x
            gv = 0
            for x in fl_g:
                if rng.random() < 0.3:
                    gv |= x
            if ip < len(rawpats):
                fv |= Fm.RAWCHARS
                gv |= Gm.RAWCHARS
            isb = (rng.random() < 0.25 or (ip < len(rawpats) and ip % 2 == 1)) and all(ord(c) < 256 for c in p)
            P = p.encode('latin-1') if isb else p
            nm = b'a' if isb else 'a'
            calls = [
                ('fnmatch.translate', lambda: Fm.translate(P, flags=fv)),
                ('fnmatch.fnmatch', lambda: Fm.fnmatch(nm, P, flags=fv)),
                ('fnmatch.filter', lambda: Fm.filter([nm], P, flags=fv)),
                ('fnmatch.is_magic', lambda: Fm.is_magic(P, flags=fv)),
                ('fnmatch.escape', lambda: Fm.fnmatch(P, Fm.escape(P), flags=fv & ~Fm.NEGATEALL) if P else None),
                ('glob.translate', lambda: Gm.translate(P, flags=gv)),
                ('glob.globmatch', lambda: Gm.globmatch(nm, P, flags=gv)),
                ('glob.globmatch(REALPATH)', lambda: Gm.globmatch(nm, P, flags=gv | Gm.REALPATH)),
                ('glob.is_magic', lambda: Gm.is_magic(P, flags=gv)),
                # the sequence spelling of the same pattern, matcher objects, filters
                ('fnmatch.fnmatch[list]', lambda: Fm.fnmatch(nm, [P], flags=fv)),
                ('glob.globmatch[list]', lambda: Gm.globmatch(nm, [P], flags=gv)),
                ('fnmatch.compile[list].match', lambda: Fm.compile([P], flags=fv).match(nm)),
                ('glob.compile[list].filter', lambda: Gm.compile([P], flags=gv).filter([nm])),
                ('glob.globfilter[list]', lambda: Gm.globfilter([nm], [P], flags=gv)),
                ('fnmatch.translate[list]', lambda: Fm.translate([P], flags=fv)),
            ]
            if '..' not in p and not p.startswith(('/', '~')) and '{' not in p:
                calls.append(('glob.glob', lambda: Gm.glob(P, flags=gv, root_dir=(tmp.encode() if isb else tmp))))
                if not isb:
                    calls.append(('pathlib.glob', lambda: list(PL.Path(tmp).glob(p, flags=gv & PL.FLAG_MASK))))
                    calls.append(('pathlib.rglob', lambda: list(PL.Path(tmp).rglob(p, flags=gv & PL.FLAG_MASK))))
                    calls.append(('wcmatch.WcMatch', lambda: WM.WcMatch(tmp, p, p, flags=(WM.RECURSIVE | (fv & WM.FLAG_MASK))).match()))
            if not isb:
                calls.append(('pathlib.match', lambda: PL.PurePosixPath('d/a').match(p, flags=gv & PL.FLAG_MASK & ~PL.REALPATH)))
                calls.append(('pathlib.PureWindowsPath.match', lambda: PL.PureWindowsPath('d/a').match(p, flags=gv & PL.FLAG_MASK & ~PL.REALPATH)))
            for api, thunk in calls:
                evals += 1
                try:
                    r = thunk()
                    if api.endswith('translate'):
                        for rx in r[0] + r[1]:
                            try:
                                re.compile(rx)
                            except re.error as e:
                                ctx.counterexample('%s(%r, flags=%#x) returned a regex that does not compile: %s' % (api, P, fv if api[0] == 'f' else gv, e),
                                                   {'api': api, 'pattern': p, 'bytes': isb, 'regex': repr(rx)})
                                break
                except Exception as e:
                    nme = type(e).__name__
                    if nme == 'ValueError':
                        # only the documented ValueErrors: absolute pattern where forbidden, class/flag mismatch in pathlib
                        if any(t in str(e) for t in ('relative path pattern', 'cannot be forced to behave', 'empty pattern', 'Unacceptable pattern')):
                            continue
                    elif nme in DOCUMENTED and nme != 'TypeError':
                        continue        # (TypeError is documented for mixed str/bytes only; every call here is consistently typed)
                    ctx.counterexample('%s(%r) raised %s: %s' % (api, P, nme, e),
                                       {'api': api, 'pattern': p, 'bytes': isb, 'flags': fv if api[0] == 'f' else gv})
            if any(c in p for c in '*?[]()|!\\'):
                nontriv.add(p)
        os.chdir(old)
        samples = [{'pattern': pats[len(pats) // 3]}, {'pattern': extra[0]}]
    finally:
        try:
            os.chdir(old)
        except Exception:
            pass
        shutil.rmtree(tmp, ignore_errors=True)
    ctx.counted('entry points x strings', evals, len(nontriv), samples)
    # very long, very deeply nested patterns (bounded: a few thousand characters): brace expansion and the parser recurse on
    # nesting depth; whatever happens inside, only documented errors come out and every route gives an answer
    ndeep = 0
    deep = [('{a,' * 700 + 'b' + '}' * 700, Fm.BRACE), ('{' * 700 + 'a,b' + '}' * 700, Fm.BRACE), ('{a,' * 450 + 'b' + '}' * 450, Fm.BRACE | Fm.SPLIT), ('{' * 900 + 'a' + '}' * 900, Fm.BRACE),
            ('{1..2}' * 3 + '{' * 600 + 'x,y' + '}' * 600, Fm.BRACE), ('{a,b' + '{' * 800, Fm.BRACE), ('[' * 900 + 'a' + ']' * 900, 0), ('a|' * 1500 + 'b', Fm.SPLIT), ('!' * 1200 + 'a', Fm.NEGATE), ('\\' * 1000 + 'a', 0)]
    for pt, fb in deep:
        for isb in (False, True):
            P = pt.encode() if isb else pt
            nm = b'b' if isb else 'b'
            for api, th in (('fnmatch.translate', lambda: Fm.translate(P, flags=fb)), ('fnmatch.fnmatch', lambda: Fm.fnmatch(nm, P, flags=fb)), ('fnmatch.filter', lambda: Fm.filter([nm], P, flags=fb)),
                            ('glob.globmatch', lambda: Gm.globmatch(nm, P, flags=fb)), ('glob.translate', lambda: Gm.translate(P, flags=fb)), ('glob.compile', lambda: Gm.compile(P, flags=fb).match(nm)),
                            ('glob.glob', lambda: Gm.glob(P, flags=fb, root_dir=os.fsencode(os.getcwd()) if isb else os.getcwd())),
                            ('wcmatch.WcMatch', lambda: WM.WcMatch(b'.' if isb else '.', P, flags=fb & WM.BRACE).match() if b'|'[0] not in (P if isb else P.encode()) else None)):
                ndeep += 1
                try:
                    th()
                except Exception as e:
                    if type(e).__name__ in DOCUMENTED and type(e).__name__ not in ('TypeError', 'ValueError'):
                        continue
                    ctx.counterexample('%s(<%d characters: %r...>, %s) raised %s: %s' % (api, len(pt), pt[:12], corr.flag_names(fb), type(e).__name__, str(e)[:80]),
                                       {'api': api, 'pattern': pt, 'pattern_length': len(pt), 'bytes': isb, 'flags': corr.flag_names(fb)})
    ctx.counted('long deeply nested patterns', ndeep, ndeep, [{'pattern': "'{a,' * 700 + 'b' + '}' * 700", 'flags': 'BRACE'}])
    from props import glue
    glue.odd_os_states(ctx)
    glue.wcmatch_every_flag(ctx)
    from props import clauses
    clauses.rawchars_errors(ctx)
    clauses.misc_clauses(ctx, 'C10')
    common.replay_witnesses(ctx, [])
    return ctx.finish(RULE)


def _not_compiles(rx):
    try:
        re.compile(rx)
        return False
    except re.error:
        return True


def replay(data):
    print(json.dumps(data, indent=1))
    return 0
