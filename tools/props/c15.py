"""C15 - a WcMatch object can be killed, reset and re-run with prefix-exact results."""
import json
import os
import sys
import threading
import corr
import trees
from wclib import import_impl, seeded_rng
from props import common, globcommon

RULE = ('proof: Properties/C15.v (for every OS oracle, decision functions and kill schedule over all hooks: the yielded '
        'sequence is a prefix of the uninterrupted one; an aborted object yields nothing; a fresh run is the uninterrupted '
        'run). correspondence: extracted walker model vs a recording WcMatch subclass with kill() issued at hook k. '
        'search: EVERY abort point k = 0..n of the hook sequence of each generated/designed tree: prefix, at most one '
        'more file processed, sticky abort, reset -> complete result, on_reset once per run, skipped counter restarts, '
        'each visited file routed to exactly one of on_match/on_skip (+ on_error when a hook raises), hook values passed '
        'through; all interleavings of match/imatch/kill/reset/is_aborted up to length 5 on one object; kill from a '
        'second thread. non-trivial = abort point strictly inside the run')


def run(ctx):
    import_impl()
    from wcmatch import wcmatch as WM
    rng, seed = seeded_rng('c15')
    ctx.proof('Properties/C15.v')
    evals = 0
    nontriv = set()
    corr_cases = []
    results = []
    samples = []
    for t in range(len(trees.DESIGNED) + (2 if ctx.quick else 25)):
        spec = trees.DESIGNED[t] if t < len(trees.DESIGNED) else trees.random_spec(rng, size=rng.randint(5, 14))
        with trees.Tree(spec) as T:
            for fp, ep, fl in (('*.txt', '', WM.RECURSIVE), ('*', 'sub', WM.RECURSIVE | WM.HIDDEN), ('!*.txt', '', WM.RECURSIVE), ('a*|*.py', '.*', WM.RECURSIVE | WM.HIDDEN)):
                base = corr.run_wcmatch_recorded(T.root, fp, ep, fl)
                if 'error' in base:
                    continue
                full = base['result']
                n = base['events']
                cases = []
                for k in range(n + 1):
                    r = corr.run_wcmatch_recorded(T.root, fp, ep, fl, kill_at=k)
                    cases.append((T.root, fp, ep, fl, k, False))
                    evals += 1
                    if 0 < k < n:
                        nontriv.add((t, fp, k))
                    got = r['result']
                    if got != full[:len(got)]:
                        ctx.counterexample('kill() at hook %d of %d: yielded %r is not a prefix of the uninterrupted %r' % (k, n, got[-3:], full[:len(got) + 1][-3:]),
                                           {'file_pattern': fp, 'exclude_pattern': ep, 'flags': fl, 'kill_at': k, 'tree': spec})
                        continue
                    # nothing further beyond the file being processed: hooks after the kill belong to at most one file
                    after = r['hooks'][k + 1:]
                    files_after = set((b, nm) for kind, b, nm in after if kind in ('vfile', 'on_match', 'on_skip'))
                    cur = r['hooks'][k] if k < len(r['hooks']) else None
                    allowed = 1 if (cur and cur[0] == 'vfolder') else (1 if cur else 0)
                    extra_files = files_after - ({(cur[1], cur[2])} if cur and cur[0] != 'vfolder' else set())
                    if len(extra_files) > (1 if cur and cur[0] == 'vfolder' else 0) or any(kind == 'vfolder' for kind, _, _ in after[1:] if cur and cur[0] != 'vfolder'):
                        ctx.counterexample('kill() at hook %d (%s): hooks still ran for %d further files / folders: %r' % (k, cur, len(extra_files), after[:5]),
                                           {'file_pattern': fp, 'exclude_pattern': ep, 'flags': fl, 'kill_at': k, 'tree': spec})
                        continue
                    w = r['obj']
                    if k < n and not w.is_aborted():
                        ctx.counterexample('object not aborted after kill()', {'kill_at': k})
                    # sticky until reset; reset -> complete; counters restart; on_reset once per run
                    again = w.match()
                    if k < n and again != []:
                        ctx.counterexample('aborted object yielded %r on a second match()' % again[:3], {'kill_at': k, 'tree': spec, 'file_pattern': fp})
                    w.reset()
                    re1 = w.match()
                    sk1 = w.get_skipped()
                    re2 = list(w.imatch())
                    if not (re1 == full == re2) or sk1 != base['skipped'] or w.get_skipped() != base['skipped']:
                        ctx.counterexample('after reset() the result or skipped counter differs from the uninterrupted run', {'kill_at': k, 'tree': spec, 'file_pattern': fp,
                                                                                                                           'full': len(full), 'rerun': len(re1), 'skipped': [sk1, base['skipped']]})
                results.append(corr.corr_wcmatch(cases[:: 2 if ctx.quick else 1] + [(T.root, fp, ep, fl, None, True)]))
                # routing: each visited file -> exactly one of on_match / on_skip
                vf = [(b, nm) for kind, b, nm in base['hooks'] if kind == 'vfile']
                om = [(b, nm) for kind, b, nm in base['hooks'] if kind == 'on_match']
                osk = [(b, nm) for kind, b, nm in base['hooks'] if kind == 'on_skip']
                evals += 1
                if sorted(vf) != sorted(om + osk) or set(om) & set(osk) or len(vf) != len(set(vf)):
                    ctx.counterexample('visited files are not routed to exactly one of on_match/on_skip', {'file_pattern': fp, 'tree': spec})
                if base['resets'] != 1:
                    ctx.counterexample('on_reset called %d times in one run' % base['resets'], {'file_pattern': fp})
            if len(samples) < 2:
                samples.append({'tree': spec[:6], 'hooks_in_run': n})
    ctx.corr('WcMatch walker under kill schedules', corr.merge(results))

    # ---- raising hooks, hook values passed through, on_reset per run, call interleavings, other-thread kill -------------
    with trees.Tree(trees.DESIGNED[2]) as T:
        class Rec(WM.WcMatch):
            def on_init(self, **kw):
                self.log = []
                self.boom = kw.get('boom')

            def on_validate_file(self, base, name):
                self.log.append(('validate', name))
                if self.boom == ('validate', name):
                    raise RuntimeError('boom')
                return True

            def on_match(self, base, name):
                self.log.append(('match', name))
                return ('M', name)

            def on_skip(self, base, name):
                self.log.append(('skip', name))
                return ('S', name)

            def on_error(self, base, name):
                self.log.append(('error', name))
                return ('E', name)

            def on_reset(self):
                self.log.append(('reset', None))
        w0 = Rec(T.root, '*.txt', flags=WM.RECURSIVE)
        full = w0.match()
        names = [v[1] for v in full]
        for target in names[:6]:
            evals += 1
            w = Rec(T.root, '*.txt', flags=WM.RECURSIVE, boom=('validate', target))
            got = w.match()
            exp = []
            for v in full:
                if v[1] == target and v[0] == 'M':
                    exp += [('E', target), ('S', target)]
                else:
                    exp.append(v)
            if got != exp:
                ctx.counterexample('a raising on_validate_file for %r: yielded %r, expected on_error then on_skip values in place' % (target, got[:6]), {'target': target})
            if w.get_skipped() != w0.get_skipped() + (1 if ('M', target) in full else 0):
                ctx.counterexample('skipped counter wrong after a raising hook', {'target': target})
        # a raising hook in the middle of a directory with several matches: the raising file - wherever it comes in the listing,
        # whatever happened to the file before it - is reported by on_error and routed to on_skip, everything else unchanged
        with trees.Tree([('a.txt', 'f', None), ('b.txt', 'f', None), ('c.txt', 'f', None), ('d.log', 'f', None), ('e.txt', 'f', None),
                         ('s', 'd', None), ('s/f.txt', 'f', None), ('s/g.log', 'f', None), ('s/h.txt', 'f', None)]) as TR:
            class RecK(Rec):
                def on_init(self, **kw):
                    self.log = []
                    self.boom = None
                    self.k = kw.get('k')
                    self.calls = 0

                def on_validate_file(self, base, name):
                    self.calls += 1
                    self.log.append(('validate', name))
                    if self.calls == self.k:
                        self.raised = name
                        raise RuntimeError('boom')
                    return True
            wk0 = RecK(TR.root, '*.txt', flags=WM.RECURSIVE, k=0)
            fullk = wk0.match()
            for k in range(1, wk0.calls + 1):
                evals += 1
                wk = RecK(TR.root, '*.txt', flags=WM.RECURSIVE, k=k)
                gotk = wk.match()
                tgt = wk.raised
                expk = []
                for v in fullk:
                    expk += [('E', tgt), ('S', tgt)] if v[1] == tgt else [v]
                if gotk != expk or wk.get_skipped() != wk0.get_skipped() + (1 if ('M', tgt) in fullk else 0):
                    ctx.counterexample('on_validate_file raising at its call %d (file %r): yielded %r, expected %r; skipped %d' % (k, tgt, gotk, expk, wk.get_skipped()),
                                       {'call': k, 'file': tgt, 'got': [list(x) for x in gotk], 'expected': [list(x) for x in expk]})
                    break
            # kill() issued from inside on_validate_file at its k-th call (the hook still answers True): the file in progress is
            # finished by the verdict it got - handed to on_match, its value yielded - and nothing after it is touched
            class RecKill(RecK):
                def on_validate_file(self, base, name):
                    self.calls += 1
                    self.log.append(('validate', name))
                    if self.calls == self.k:
                        self.raised = name
                        self.kill()
                    return True
            for k in range(1, wk0.calls + 1):
                evals += 1
                wq = RecKill(TR.root, '*.txt', flags=WM.RECURSIVE, k=k)
                gotq = wq.match()
                tgt = wq.raised
                cut = next(i for i, v in enumerate(fullk) if v[1] == tgt)
                expq = fullk[:cut + 1]
                if gotq != expq or [e for e in wq.log if e[0] in ('match', 'skip')] != [('match' if v[0] == 'M' else 'skip', v[1]) for v in expq]:
                    ctx.counterexample('kill() from on_validate_file at its call %d (file %r, a match): yielded %r, hooks %r; the uninterrupted run up to and including that file is %r' % (
                        k, tgt, gotq, [e for e in wq.log if e[0] in ('match', 'skip')][-3:], expq),
                        {'call': k, 'file': tgt, 'got': [list(x) for x in gotq], 'expected': [list(x) for x in expq]})
                    break
        # a run starts when its iterator is first advanced, not when imatch() is called: iterators obtained early
        w = Rec(T.root, '*.txt', flags=WM.RECURSIVE)
        one_run = None
        for order in ('two-iterators', 'iterator-then-match'):
            evals += 1
            w = Rec(T.root, '*.txt', flags=WM.RECURSIVE)
            if order == 'two-iterators':
                it1, it2 = w.imatch(), w.imatch()
                r1 = list(it1)
                s1 = w.get_skipped()
                cut = len(w.log)
                r2 = list(it2)
                s2 = w.get_skipped()
            else:
                it1 = w.imatch()
                r1 = w.match()
                s1 = w.get_skipped()
                cut = len(w.log)
                r2 = list(it1)
                s2 = w.get_skipped()
            log1, log2 = w.log[:cut], w.log[cut:]
            if not (r1 == full == r2) or s1 != w0.get_skipped() or s2 != w0.get_skipped() or log1 != log2 or log1[:1] != [('reset', None)] or \
                    sum(1 for e in log1 if e[0] == 'reset') != 1:
                ctx.counterexample('%s on one object: the two runs are not identical complete runs (files %d/%d of %d, skipped %d/%d of %d, resets per run %d/%d)' % (
                    order, len(r1), len(r2), len(full), s1, s2, w0.get_skipped(), sum(1 for e in log1 if e[0] == 'reset'), sum(1 for e in log2 if e[0] == 'reset')),
                    {'sequence': order, 'pattern': '*.txt'})
        # interleavings of calls on one object
        import itertools
        ops = ['match', 'imatch', 'kill', 'reset', 'is_aborted']
        for seq in itertools.product(ops, repeat=4 if ctx.quick else 5):
            evals += 1
            w = Rec(T.root, '*.txt', flags=WM.RECURSIVE)
            aborted = False
            for op in seq:
                if op == 'match':
                    r = w.match()
                    want = [] if aborted else full
                elif op == 'imatch':
                    r = list(w.imatch())
                    want = [] if aborted else full
                elif op == 'kill':
                    w.kill()
                    aborted = True
                    continue
                elif op == 'reset':
                    w.reset()
                    aborted = False
                    continue
                else:
                    r, want = w.is_aborted(), aborted
                if r != want:
                    ctx.counterexample('call sequence %r: %s returned %r, expected %r' % (seq, op, r if op == 'is_aborted' else r[:3], want if op == 'is_aborted' else want[:3]), {'sequence': list(seq)})
                    break
            if w.log.count(('reset', None)) != sum(1 for o in seq if o in ('match', 'imatch')):
                ctx.counterexample('on_reset not called exactly once per run in %r' % (seq,), {'sequence': list(seq)})
        # ---- hook values pass through unchanged (also None / 0 / '' from on_match; None from on_skip/on_error is dropped),
        #      raising directory hooks, and 'nothing further beyond the file being processed' at every kill point --------
        VALS = [None, 0, '', (), 'v', ('t', 1), False]

        class Val(WM.WcMatch):
            def on_init(self, **kw):
                self.events = []        # what the hooks returned, in call order: (kind, base, name, value)
                self.kill_at = kw.get('kill_at')      # kill from inside the k-th hook call that returns a value
                self.bad_dirs = kw.get('bad_dirs', ())
                self.bad_files = kw.get('bad_files', ())
                if kw.get('kill_in_init'):
                    self.kill()           # abort point 0: the first hook of the object's life

            def _ret(self, kind, base, name, value):
                self.events.append((kind, base, name, value))
                if self.kill_at is not None and len(self.events) == self.kill_at:
                    self.kill()
                return value

            def on_validate_directory(self, base, name):
                if name in self.bad_dirs:
                    raise RuntimeError('bad dir')
                return True

            def on_validate_file(self, base, name):
                if name in self.bad_files:
                    raise RuntimeError('bad file')
                return True

            def on_match(self, base, name):
                return self._ret('match', base, name, VALS[sum(map(ord, name)) % len(VALS)])

            def on_skip(self, base, name):
                return self._ret('skip', base, name, [None, ('S', name), '', 0, (), False, b'', 0.0][len(name) % 8])

            def on_error(self, base, name):
                return self._ret('error', base, name, None if name.startswith('n') else ('' if name.startswith('q') else ('E', name)))

        def expected(events):
            return [v for (kind, b, nm, v) in events if kind == 'match' or v is not None]
        vspec = [('top.txt', 'f', None), ('a.py', 'f', None), ('n.txt', 'f', None), ('bad', 'd', None), ('bad/x.txt', 'f', None),
                 ('d1', 'd', None), ('d1/bad', 'd', None), ('d1/one.txt', 'f', None), ('d1/two.py', 'f', None),
                 ('d2', 'd', None), ('d2/bad', 'd', None), ('d2/sub', 'd', None), ('d2/sub/bad', 'd', None), ('d2/sub/deep.txt', 'f', None),
                 ('d2/nn.txt', 'f', None), ('d2/q.txt', 'f', None)]
        with trees.Tree(vspec) as TV:
            for bad_dirs, bad_files in (((), ()), (('bad',), ()), (('bad',), ('q.txt', 'nn.txt')), ((), ('top.txt',))):
                kw = dict(bad_dirs=bad_dirs, bad_files=bad_files)
                w = Val(TV.root, '*.txt', flags=WM.RECURSIVE, **kw)
                full = w.match()
                evals += 1
                if full != expected(w.events):
                    ctx.counterexample('hook values are not passed through unchanged: yielded %r, the hooks returned %r' % (full[:8], expected(w.events)[:8]),
                                       {'tree': vspec, 'bad_dirs': list(bad_dirs), 'bad_files': list(bad_files)})
                    continue
                if w.match() != full:
                    ctx.counterexample('a second match() of the same object returns a different sequence', {'tree': vspec})
                nev = len(w.events)
                base_events = list(w.events)
                # kill() from on_init: aborted from the start, nothing is yielded until reset()
                evals += 1
                w0 = Val(TV.root, '*.txt', flags=WM.RECURSIVE, kill_in_init=True, **kw)
                st0 = (w0.is_aborted(), w0.match(), list(w0.imatch()), w0.is_aborted(), len(w0.events))
                w0.reset()
                after0 = w0.match()
                if st0 != (True, [], [], True, 0) or after0 != full:
                    ctx.counterexample('kill() inside on_init: (is_aborted, match(), imatch(), is_aborted, hook calls) = %r, expected (True, [], [], True, 0); after reset() match() %s the complete result' % (
                        st0, 'returns' if after0 == full else 'does not return'), {'tree': vspec, 'kill_at_hook': 0, 'bad_dirs': list(bad_dirs), 'bad_files': list(bad_files)})
                # kill from inside the k-th value-returning hook call
                for k in range(1, nev + 1):
                    evals += 1
                    wk = Val(TV.root, '*.txt', flags=WM.RECURSIVE, kill_at=k, **kw)
                    got = wk.match()
                    # the file being processed when kill() ran may finish (its remaining hooks), nothing of any other entry may follow
                    kb, kn = base_events[k - 1][1], base_events[k - 1][2]
                    allowed = [e for i, e in enumerate(base_events) if i < k or (e[1], e[2]) == (kb, kn)]
                    if wk.events != base_events[:len(wk.events)] or len(wk.events) > len(allowed) or got != expected(wk.events):
                        ctx.counterexample('kill() inside hook call %d/%d: the run went on to %r (yielded %r)' % (
                            k, nev, [(e[0], e[2]) for e in wk.events[k:]][:4], got[-3:]),
                            {'tree': vspec, 'kill_at_hook': k, 'bad_dirs': list(bad_dirs), 'bad_files': list(bad_files)})
                        break
                    extra = [e for e in wk.events[k:] if (e[1], e[2]) != (kb, kn)]
                    if extra:
                        ctx.counterexample('kill() inside hook call %d/%d: hooks of other entries still ran: %r' % (k, nev, [(e[0], e[2]) for e in extra][:4]),
                                           {'tree': vspec, 'kill_at_hook': k, 'bad_dirs': list(bad_dirs), 'bad_files': list(bad_files)})
                        break
                # kill by the consumer after the j-th yielded value
                for j in range(0, len(full) + 1):
                    evals += 1
                    wj = Val(TV.root, '*.txt', flags=WM.RECURSIVE, **kw)
                    got = []
                    if j == 0:
                        wj.kill()
                    n_at_kill = None
                    for v in wj.imatch():
                        got.append(v)
                        if len(got) == j:
                            wj.kill()
                            n_at_kill = len(wj.events)
                    if j == 0:
                        if got:
                            ctx.counterexample('kill() before the run: still yielded %r' % (got[:3],), {'tree': vspec, 'bad_dirs': list(bad_dirs)})
                        continue
                    cur = wj.events[n_at_kill - 1]
                    late = [e for e in wj.events[n_at_kill:] if (e[1], e[2]) != (cur[1], cur[2])]
                    if got != full[:len(got)] or late:
                        ctx.counterexample('consumer kill() after value %d: yielded %r of %r; hooks of other entries after the kill: %r' % (
                            j, got[-3:], full[:j + 2][-3:], [(e[0], e[2]) for e in late][:3]),
                            {'tree': vspec, 'kill_after_value': j, 'bad_dirs': list(bad_dirs), 'bad_files': list(bad_files)})
                        break
        # kill from another thread at arbitrary moments: still a prefix
        for trial in range(30 if ctx.quick else 300):
            evals += 1
            w = Rec(T.root, '*', flags=WM.RECURSIVE | WM.HIDDEN)
            fullw = Rec(T.root, '*', flags=WM.RECURSIVE | WM.HIDDEN).match()
            got = []
            kth = rng.randint(0, max(1, len(fullw)))
            ev = threading.Event()

            def killer():
                ev.wait()
                w.kill()
            th = threading.Thread(target=killer)
            th.start()
            for i, v in enumerate(w.imatch()):
                got.append(v)
                if i == kth:
                    ev.set()
                    th.join()
            ev.set()
            th.join()
            if got != fullw[:len(got)] or (kth < len(fullw) - 1 and len(got) > kth + 2):
                ctx.counterexample('kill() from a second thread after %d results: got %d results, not a prefix or too many' % (kth, len(got)), {'after': kth})
    ctx.counted('abort points, interleavings, threads, raising hooks', evals, len(nontriv), samples)
    from props import glue
    glue.cross_thread_kill(ctx)
    glue.interleaved_walkers(ctx)
    return ctx.finish(RULE)


def replay(data):
    print(json.dumps(data, indent=1))
    return 0
