"""C05 - glob returns exactly the paths the pattern denotes on the real tree."""
import json
import corr
import trees
from wclib import import_impl, seeded_rng
from props import common, globcommon

RULE = ('proof: Properties/C05.v (walker model lemmas). correspondence: exact result SEQUENCE of glob.Glob(...).glob() '
        'vs the extracted walker model (coq/Glob.v) driven by the recorded os.scandir/lexists answers and per-part '
        'matcher verdicts, on generated trees (files, dirs, hidden entries, links to files/dirs/ancestors/nowhere/'
        'themselves, names differing in case) x random pattern lists x 13 flags. search: glob() result set between '
        'the lower and upper bound of an independent segment-by-segment interpretation (tools/specwalk.py) whose '
        'segment meaning is the Coq spec Spec.den; every result must lexist. non-trivial = case with a non-empty, '
        'non-total result')


def walker_corr(ctx, rng, ntrees, ncases):
    import_impl()
    from wcmatch import glob as Gm
    segs = ['data', 'real', 'sub', 'p?', 'lnk', 'd', 'a', 'b', '*', 'a*', '.*', '.', '..', '**', '?', '.h', 'ab', '*b', '***', '[ab]', '@(a|b)', '!(a)', 'A', '*.txt', 'x', '?(x)*', '*?a']
    results = []
    for t in range(len(trees.DESIGNED) + ntrees):
        spec = trees.DESIGNED[t] if t < len(trees.DESIGNED) else trees.random_spec(rng, size=rng.randint(4, 14), case=True)
        with trees.Tree(spec) as T:
            cyc = globcommon.has_dir_cycle(T.root)
            cases = []
            for _ in range(ncases):
                pats = []
                for _ in range(rng.choice([1, 1, 1, 2, 3])):
                    ss = [rng.choice(segs) for _ in range(rng.randint(1, 3))]
                    if ss.count('..') > 2:
                        continue
                    pats.append('/'.join(ss) + ('/' if rng.random() < 0.2 else ''))
                if not pats:
                    continue
                f = 0
                for nm, pr in (('GLOBSTAR', .6), ('DOTGLOB', .3), ('MARK', .3), ('NODIR', .15), ('EXTGLOB', .5), ('IGNORECASE', .2),
                               ('FOLLOW', .15), ('GLOBSTARLONG', .2), ('MATCHBASE', .15), ('SCANDOTDIR', .15), ('NOUNIQUE', .15),
                               ('NEGATE', .2), ('NODOTDIR', .1), ('BRACE', .1), ('SPLIT', .1)):
                    if rng.random() < pr:
                        f |= getattr(Gm, nm)
                if cyc:
                    f &= ~(Gm.FOLLOW | Gm.GLOBSTARLONG)
                ex = None if rng.random() < 0.7 else [rng.choice(segs)]
                cases.append((T.root, pats if len(pats) > 1 else pats[0], f, ex))
            results.append(corr.corr_glob(cases))
    return corr.merge(results)


def run(ctx):
    import_impl()
    rng, seed = seeded_rng('c05')
    ctx.proof('Properties/C05.v')
    globcommon.gsplit_corr(ctx, seeded_rng('gsplit')[0])
    ctx.corr('glob walker sequence', walker_corr(ctx, rng, 8 if ctx.quick else 60, 40))
    ev, nt, samples, known = globcommon.run_spec_search(ctx, rng, 6 if ctx.quick else 50, 22 if ctx.quick else 40)
    for kid, (pattern, fl, extra) in sorted(known.items()):
        ctx.known_finding(kid, 'glob(%r, %s) returns %r' % (pattern, fl, extra))
    ctx.counted('glob vs segment-wise interpretation', ev, nt, samples, {'known_sites_hit': sorted(known)})
    nm = globcommon.mixed_abs_rel(ctx, rng, 3 if ctx.quick else 12)
    ctx.counted('lists mixing absolute and relative patterns', nm, nm // 2, [{'patterns': ['<root>/other/*', 'sub/*']}])
    nfe = globcommon.frontends_equiv(ctx, rng)
    ctx.counted('dir_fd / iglob / pathlib / cloned matchers vs glob', nfe, nfe // 2, [{'pattern': 'vis/*'}])
    nin_ = globcommon.inert_arguments(ctx, rng, 3 if ctx.quick else 6)
    ctx.counted('arguments that cannot change the answer (inert exclude=, root spelling, NOUNIQUE)', nin_, nin_ // 2, [{'pattern': '**', 'exclude': 'zz-no-such-name*'}])
    nfr_ = globcommon.fringe_names(ctx)
    ctx.counted('non-ASCII entry names: exact spellings are found, the walk stays inside the matcher', nfr_, nfr_ // 2, [{'entry': '\u0130stanbul.txt', 'flags': 'IGNORECASE'}])
    ntn_ = globcommon.trailing_newline_names(ctx)
    ctx.counted('names ending in a line feed: walk (str, bytes, dir_fd, descriptor 0, pathlib) vs REALPATH matcher', ntn_, ntn_ // 2, [{'pattern': '[b]', 'entry': 'b\\n'}])
    nug_ = globcommon.unclosed_group_paths(ctx)
    ctx.counted('unclosed groups in path patterns: walker vs matcher', nug_, nug_ // 2, [{'pattern': '@(a/[b'}])
    nsp = globcommon.spelling_equiv(ctx, rng, 3 if ctx.quick else 12, 30 if ctx.quick else 120)
    ctx.counted('separator runs and a dangling backslash in the pattern do not change the walk', nsp, nsp // 2, [{'pattern': 'sub/\\/**//f*\\', 'same_as': 'sub/**/f*'}])
    from props import glue
    glue.bytes_dirfd_hidden(ctx)
    glue.root_through_link(ctx)
    from props import clauses
    clauses.misc_clauses(ctx, 'C05')
    return ctx.finish(RULE)


def replay(data):
    print(json.dumps(data, indent=1))
    return 0
