"""C01 - file-name matching follows the documented wildcard language."""
import json
import re
import corr
import astgen
from wclib import import_impl, seeded_rng
from props import common

RULE = ('proof: Properties/C01.v (POSIX tables regenerated from posix.py = documented classes on every code point). '
        'correspondence: exact regex text of the extracted WcParse model vs WcParse(p,flags).parse() on all strings '
        'over a 15-symbol metacharacter alphabet up to the tier length plus bracket-token products, str and bytes, '
        'fnmatch flag sets. search: fnmatch.compile().match and fnmatch.filter vs the executable spec Spec.den on '
        'every name up to length 4 over an alphabet derived from the pattern (bounded-exhaustive flat token '
        'sequences + random nested ASTs). non-trivial = pattern accepting some but not all of its names; distinct '
        'by (pattern, flags)')


def flagsets():
    F = corr.fl
    return [0, F('DOTMATCH'), F('EXTMATCH'), F('EXTMATCH', 'DOTMATCH'), F('IGNORECASE'), F('EXTMATCH', 'FORCEUNIX', 'CASE'),
            F('EXTMATCH', 'IGNORECASE', 'FORCEUNIX'), F('FORCEWIN', 'EXTMATCH')]


def classifiers():
    return [
        ('C01-excl-newline', lambda m: m['name'] is not None and m['name'].endswith('\n') and 'xN' in m['ast']
         and m['impl'] is False and m['lb'] is True),
        ('C01-group-dot-guard-repeat', lambda m: m['name'] is not None and not m['dot'] and m['ast'].startswith('x')
         and ('xS' in m['ast'] or 'xP' in m['ast']) and '.' in m['name'][1:] and
         ((m['impl'] is False and m['lb'] is True) or (m['ast'].startswith('xN') and m['impl'] is True and m['ub'] is False))),
    ]


def run(ctx):
    import_impl()
    from wcmatch import fnmatch as Fm
    rng, seed = seeded_rng('c01')
    ctx.proof('Properties/C01.v')
    res = common.parse_text_corr(ctx, 'wcparse text (fnmatch flag sets)', flagsets())
    F = corr.flags()
    dmism = []
    for a, fv in common.directed_asts(res, 'flat'):
        if fv & F['FORCEWIN']:
            continue
        e_, n_, mm = corr.search_den([a], [(int(bool(fv & F['IGNORECASE'])), int(bool(fv & F['DOTMATCH'])), 0)],
                                     maxlen=4, hidden='none')
        dmism += mm

    g = astgen.Gen(rng)
    asts = [astgen.seq_str(t) for t in astgen.flat_seqs(2 if ctx.quick else 3)]
    asts += [astgen.seq_str(g.seq()) for _ in range(250 if ctx.quick else 3000)]
    asts = sorted(set(asts))
    cfgs = [(0, 0, 0), (0, 1, 0), (1, 0, 0), (0, 1, 1)]
    ev, nt, mism = corr.search_den(asts, cfgs, maxlen=4, hidden='none')
    # ranges whose end points differ in case (the punctuation between `Z` and `a` lies inside), on names made of the end
    # points and that punctuation - case-insensitively too: `[A-z]` contains `_`, `[Z-a]` is a valid range
    rasts = []
    for neg in (0, 1):
        for lo, hi in ((0x41, 0x7a), (0x5a, 0x61), (0x41, 0x61), (0x5f, 0x62), (0x58, 0x60), (0x30, 0x41)):
            rasts.append('b%d[r%x-%x]' % (neg, lo, hi))
            rasts.append('l78.b%d[r%x-%x].s' % (neg, lo, hi))
    ev2, nt2, mism2 = corr.search_den(rasts, [(0, 1, 0), (1, 1, 0), (1, 0, 0)], maxlen=2, extra='_^x')
    # CASE wins over IGNORECASE whatever else is set: the case-sensitive language with both flags given (and FORCEUNIX)
    ev4, nt4, mism4 = corr.search_den(rasts + ['l41.l62', 'b0[r41-43].l78', 'xA(l41.l62;l63.l44).l65', 'xN(l41.l62)', 'l72.s.l45'],
                                      [(0, 1, 0), (0, 0, 0)], maxlen=3, extra='aBe', extra_flags=Fm.IGNORECASE)
    # the characters that open an extended group when `(` follows are plain literals otherwise - with EXTMATCH on, at the
    # start of the name and later, before a wildcard, a bracket, a dot
    xlits = []
    for c_ in ('2b', '40', '21'):
        for rest_ in ('s', 'q', 's.l61', 'l61.s', 'b0[c61,c62]', 'l2e.s', 'q.s', 'l2b.s', 'xA(l61).s', 'e2a.s'):
            xlits.append('l%s.%s' % (c_, rest_))
            xlits.append('l61.l%s.%s' % (c_, rest_))
    ev5, nt5, mism5 = corr.search_den(xlits, [(0, 0, 0), (0, 1, 0)], maxlen=3, extra='a.', extra_flags=Fm.EXTMATCH)
    ev, nt = ev + ev2 + ev4 + ev5, nt + nt2 + nt4 + nt5
    mism = dmism + mism + mism2 + mism4 + mism5
    # POSIX classes are the C-locale ones for str as for bytes: no code point above 0x7f is in any of them (case-sensitive mode)
    ncls = 0
    classes = ['alnum', 'alpha', 'ascii', 'blank', 'cntrl', 'digit', 'graph', 'lower', 'print', 'punct', 'space', 'upper', 'word', 'xdigit']
    doc = {'ascii': lambda o: o < 128, 'cntrl': lambda o: o < 32 or o == 127}
    probes = ['\u0663', '\xa0', '\xe9', '\x1c', '\x1f', '\uff15', '\u03a3', '\xdf', '\x85', '\u2028', '\u2003', '\u0660', '\u00b2', '\u4e00', '\u0130', '\x7f', '\xaa']
    for cl in classes:
        for ch_ in probes:
            want = doc.get(cl, lambda o: False)(ord(ch_)) if ord(ch_) > 127 or ord(ch_) < 32 or ord(ch_) == 127 else None
            if want is None:
                continue
            for form, neg in (('[[:%s:]]' % cl, False), ('[![:%s:]]' % cl, True), ('x[[:%s:]]y' % cl, False), ('+([[:%s:]])' % cl, False), ('[[:%s:]_]' % cl, False)):
                ncls += 1
                name_ = ('x' + ch_ + 'y') if form.startswith('x') else ch_
                fl_c = Fm.FORCEUNIX | Fm.CASE | Fm.EXTMATCH | Fm.DOTMATCH
                got = [Fm.fnmatch(name_, form, flags=fl_c), Fm.filter([name_], form, flags=fl_c) == [name_], Fm.compile(form, flags=fl_c).match(name_)]
                if got != [want != neg] * 3:
                    ctx.counterexample('fnmatch(%r, %r) = %r: U+%04X is%s in the C-locale class %s' % (name_, form, got, ord(ch_), '' if want else ' not', cl),
                                       {'name': name_, 'pattern': form, 'class': cl, 'code_point': ord(ch_), 'got': got})
                    break
    ctx.counted('POSIX classes on non-ASCII code points', ncls, ncls // 2, [{'pattern': '[[:digit:]]', 'name': '\u0663'}])
    # a backslash-escaped character inside a bracket expression is that character, whatever it is (str and bytes)
    nesc = 0
    alln = [chr(o) for o in range(32, 127)] + ['a]', '/]', '[]', 'ab', '']
    for o in range(33, 127):
        c_ = chr(o)
        for form, member in (('[\\%s]', lambda n_: n_ == c_), ('[a\\%s]', lambda n_: n_ in ('a', c_)), ('[!\\%sx]', lambda n_: len(n_) == 1 and n_ not in (c_, 'x')),
                             ('z[\\%s-\\%s]', None)):
            if member is None:
                pat_ = form % (c_, c_)
                names_ = ['z' + n_ for n_ in alln]
                want = [n_ == 'z' + c_ for n_ in names_]
            else:
                pat_ = form % c_
                names_ = alln
                want = [member(n_) for n_ in names_]
            for fl_ in (Fm.FORCEUNIX | Fm.DOTMATCH, Fm.FORCEUNIX | Fm.DOTMATCH | Fm.EXTMATCH | Fm.CASE):
                nesc += len(names_)
                try:
                    cm_ = Fm.compile(pat_, flags=fl_)
                    got = [cm_.match(n_) for n_ in names_]
                    cb_ = Fm.compile(pat_.encode(), flags=fl_)
                    gotb = [cb_.match(n_.encode()) for n_ in names_]
                except Exception as ex_:
                    ctx.counterexample('fnmatch.compile(%r) raises %s' % (pat_, type(ex_).__name__), {'pattern': pat_, 'flags': corr.flag_names(fl_)})
                    break
                if got != want or gotb != want:
                    k_ = next(i for i in range(len(want)) if got[i] != want[i] or gotb[i] != want[i])
                    ctx.counterexample('fnmatch(%r, %r, %s) = %r (bytes %r): an escaped character in a bracket expression is that character' % (
                        names_[k_], pat_, corr.flag_names(fl_), got[k_], gotb[k_]), {'name': names_[k_], 'pattern': pat_, 'flags': corr.flag_names(fl_)})
                    break
    ctx.counted('escaped members of bracket expressions', nesc, nesc // 3, [{'pattern': '[a\\/]', 'name': '/'}])
    # bracket expressions assembled from single members and ranges whose end points may be written as escapes; a hyphen is
    # written right after a range (where it cannot start another one) or last: the set is known by construction
    nbr_ = 0
    nbr_bad = 0
    specials = set('\\]-^![')
    pool = 'Aa0+z\\]-^!.Z9_/'

    def wr(c_):
        return '\\' + c_ if (c_ in specials or rng.random() < 0.25) else c_
    for _ in range(1500 if ctx.quick else 20000):
        items, text, members = rng.randint(1, 4), '', set()
        prev_range = False
        for k_ in range(items):
            r_ = rng.random()
            if r_ < 0.2:
                # a POSIX class, possibly right after `x-` (a class cannot end a range: that hyphen is a member), possibly followed by `-`
                cls, cset = rng.choice([('digit', '0123456789'), ('upper', 'ABCDEFGHIJKLMNOPQRSTUVWXYZ'), ('xdigit', '0123456789abcdefABCDEF')])
                if rng.random() < 0.5:
                    c0 = rng.choice('Aa0+z_.')
                    text += wr(c0) + '-'
                    members |= {c0, '-'}
                text += '[:%s:]' % cls
                members |= set(cset)
                if rng.random() < 0.3:
                    text += '-'
                    members.add('-')
                prev_range = False
                continue
            if r_ < 0.6:
                lo, hi = sorted((rng.choice(pool), rng.choice(pool)))
                if lo == '/' or hi == '/':
                    continue
                text += wr(lo) + '-' + wr(hi)
                members |= set(chr(o) for o in range(ord(lo), ord(hi) + 1))
                prev_range = True
                if rng.random() < 0.5:
                    text += '-'          # literal: a range has just ended
                    members.add('-')
                    prev_range = False
            else:
                c_ = rng.choice(pool)
                if c_ == '/' or (c_ == '-' and not prev_range and text):
                    continue
                text += ('\\' + c_) if c_ in specials else wr(c_)
                members.add(c_)
                prev_range = False
        if not text:
            continue
        neg = rng.random() < 0.3
        pat_ = '[' + ('!' if neg else '') + text + ']'
        names_ = [chr(o) for o in range(33, 127)]
        want = [(n_ in members) != neg for n_ in names_]
        for fl_ in (Fm.FORCEUNIX | Fm.DOTMATCH, Fm.FORCEUNIX | Fm.DOTMATCH | Fm.EXTMATCH):
            nbr_ += len(names_)
            try:
                cm_ = Fm.compile(pat_, flags=fl_)
                got = [cm_.match(n_) for n_ in names_]
                gotb = [Fm.fnmatch(n_.encode(), pat_.encode(), flags=fl_) for n_ in names_]
                re.compile(Fm.translate(pat_, flags=fl_)[0][0])
            except Exception as ex_:
                if nbr_bad < 3:
                    nbr_bad += 1
                    ctx.counterexample('fnmatch.compile/translate(%r, %s) raises %s: %s' % (pat_, corr.flag_names(fl_), type(ex_).__name__, ex_), {'pattern': pat_, 'flags': corr.flag_names(fl_)})
                break
            if (got != want or gotb != want) and nbr_bad < 3:
                nbr_bad += 1
                k_ = next(i for i in range(len(want)) if got[i] != want[i] or gotb[i] != want[i])
                ctx.counterexample('fnmatch(%r, %r, %s) = %r (bytes %r) but the set written is %s%r' % (
                    names_[k_], pat_, corr.flag_names(fl_), got[k_], gotb[k_], 'the complement of ' if neg else '', ''.join(sorted(members))),
                    {'name': names_[k_], 'pattern': pat_, 'flags': corr.flag_names(fl_), 'members': ''.join(sorted(members)), 'negated': neg})
                break
    ctx.counted('bracket expressions with escaped range end points', nbr_, nbr_ // 3, [{'pattern': '[A-\\\\-+]', 'members': 'A..\\ - +'}])
    hits, rest = common.attribute(
        ctx, mism, classifiers(),
        lambda m: 'fnmatch %s(%r, %r, %s) = %r but the documented language says %s' % (
            m.get('api', ''), m['name'], m['pattern'], m['flags'], m['impl'], m['ub']))
    ctx.counted('fnmatch vs Spec.den', ev, nt,
                [{'pattern': corr.dec(a) if False else a, 'kind': 'ast'} for a in asts[:: max(1, len(asts) // 3)]][:3],
                {'patterns': len(asts), 'configs': len(cfgs), 'attributed': {k: len(v) for k, v in hits.items()},
                 'unattributed': len(rest)})
    E = Fm.EXTMATCH
    common.replay_witnesses(ctx, [
        ('C01-group-dot-guard-repeat', "fnmatch('a.b', '+(?)', EXTMATCH) is False (dot guard repeated on every iteration of a group at name start)",
         lambda: Fm.fnmatch('a.b', '+(?)', flags=E) is False),
        ('C01-starstar-ext', "fnmatch('a', '**(b)', EXTMATCH) is False (`*` swallows the following `*` before `*(` is recognised)",
         lambda: Fm.fnmatch('a', '**(b)', flags=E) is False),
        ('C01-excl-newline', "fnmatch('a\\n', '!(a)', EXTMATCH) is False (`$` inside the !() look-ahead matches before a final newline)",
         lambda: Fm.fnmatch('a\n', '!(a)', flags=E) is False),
    ])
    from props import fringe
    fringe.nonascii_case(ctx)
    fringe.filter_iterables(ctx)
    from props import glue
    glue.filter_vs_match(ctx, rng)
    glue.emptied_brackets(ctx)
    from props import clauses
    clauses.bytes_high_and_nonascii_dirs(ctx)
    clauses.empty_groups(ctx)
    return ctx.finish(RULE)


def replay(data):
    import_impl()
    from wcmatch import fnmatch as Fm
    print(json.dumps(data, indent=1))
    if data.get('pattern') is not None and data.get('name') is not None:
        f = 0
        for n in data.get('flags', '').split('|'):
            f |= getattr(Fm, n, 0)
        print('implementation now:', Fm.fnmatch(data['name'], data['pattern'], flags=f))
    return 0
