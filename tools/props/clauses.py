"""Probes for clauses and flag dimensions that earlier generators left thin (ninth round): each is a law with an
expectation known by construction or through a second route of the library."""
import os
import corr


def _count(ctx, label, n, sample):
    ctx.counted(label, n, max(1, n // 2), [sample])
    return n


def _ce(ctx, state, what, data):
    if state[0] < state[1]:
        state[0] += 1
        ctx.counterexample(what, data)


def negateall_default(ctx, label='the inclusion NEGATEALL implies is `**`, whatever other flags say'):
    """An exclusion-only list under NEGATEALL behaves as the same list with `**` written in front (with GLOBSTAR added for
    the written form) - also under GLOBSTARLONG, FOLLOW, NODIR, DOTGLOB: the implied inclusion never follows links by itself."""
    import trees
    from wcmatch import glob as Gm
    n, st = 0, [0, 4]
    spec = [('real', 'd', None), ('real/f', 'f', None), ('real/sub', 'd', None), ('real/sub/g', 'f', None), ('link', 'l', 'real'), ('a', 'd', None), ('a/up', 'l', '..'), ('a/k', 'f', None), ('x', 'f', None), ('b', 'f', None), ('.h', 'f', None)]
    with trees.Tree(spec) as T:
        listed = []
        real_scandir = os.scandir

        def spy(p='.'):
            listed.append(os.fsdecode(p) if isinstance(p, (str, bytes)) else p)
            return real_scandir(p)
        for excl in (['!x'], ['!x', '!b'], ['-x']):
            for fl in (Gm.GLOBSTARLONG, Gm.GLOBSTAR, Gm.GLOBSTARLONG | Gm.NODIR, Gm.GLOBSTAR | Gm.NODIR, Gm.GLOBSTARLONG | Gm.DOTGLOB, Gm.GLOBSTAR | Gm.MARK, 0, Gm.NODIR, Gm.GLOBSTARLONG | Gm.GLOBSTAR):
                n += 1
                neg = Gm.NEGATE | (Gm.MINUSNEGATE if excl[0].startswith('-') else 0)
                want = sorted(Gm.glob(['**'] + excl, flags=fl | neg | Gm.GLOBSTAR, root_dir=T.root))
                del listed[:]
                os.scandir = spy
                try:
                    got = sorted(Gm.glob(excl, flags=fl | neg | Gm.NEGATEALL, root_dir=T.root))
                    gotb = sorted(x.decode() for x in Gm.glob([e.encode() for e in excl], flags=fl | neg | Gm.NEGATEALL, root_dir=T.root.encode()))
                    goti = sorted(Gm.iglob(tuple(excl), flags=fl | neg | Gm.NEGATEALL, root_dir=T.root))
                finally:
                    os.scandir = real_scandir
                through = [p for p in listed if isinstance(p, str) and ('/link' in p[len(T.root):] or '/up' in p[len(T.root):])]
                if got != want or gotb != want or goti != want or through:
                    _ce(ctx, st, 'glob(%r, %s|NEGATEALL) returns %d paths %r..., scanning %d directories through symlinks; with `**` written in front: %r' % (excl, corr.flag_names(fl | neg), len(got), got[:6], len(through), want),
                        {'patterns': excl, 'flags': corr.flag_names(fl | neg | Gm.NEGATEALL), 'tree': [list(map(str, x)) for x in spec]})
    return _count(ctx, label, n, {'patterns': ['!x'], 'flags': 'NEGATE|NEGATEALL|GLOBSTARLONG'})


def dotdot_paths(ctx, label='escaped and literal paths with `.` and `..` components on a real tree'):
    import trees
    from wcmatch import glob as Gm
    n, st = 0, [0, 4]
    spec = [('sub', 'd', None), ('sub/f[1].txt', 'f', None), ('other', 'd', None), ('other/g', 'f', None), ('sub/deep', 'd', None), ('sub/deep/h*', 'f', None)]
    with trees.Tree(spec) as T:
        for s in ('sub/../sub/f[1].txt', 'sub/..', 'sub/../other/', 'sub/../other', './sub/f[1].txt', 'sub/./f[1].txt', 'sub/deep/../f[1].txt', 'sub/deep/../../other/g', 'sub/deep/./h*', '../' + os.path.basename(T.root) + '/sub/f[1].txt'):
            for fl in (0, Gm.MARK, Gm.GLOBSTAR | Gm.EXTGLOB | Gm.BRACE, Gm.NODOTDIR, Gm.DOTGLOB, Gm.IGNORECASE):
                n += 1
                e = Gm.escape(s)
                want = [s] if not (fl & Gm.MARK and os.path.isdir(os.path.join(T.root, s)) and not s.endswith('/')) else [s + '/']
                got = {'glob': Gm.glob(e, flags=fl, root_dir=T.root), 'bytes': [x.decode() for x in Gm.glob(e.encode(), flags=fl, root_dir=T.root.encode())], 'iglob, list': list(Gm.iglob([e], flags=fl, root_dir=T.root))}
                if not Gm.is_magic(s, flags=fl):
                    got['the plain string (not magic)'] = Gm.glob(s, flags=fl, root_dir=T.root)
                wrong = [k for k, v in got.items() if v != want]
                if wrong:
                    _ce(ctx, st, 'glob(escape(%r) = %r, %s) [%s] returns %r; the path exists and the escaped pattern denotes exactly it' % (s, e, corr.flag_names(fl), wrong[0], got[wrong[0]]), {'string': s, 'escaped': e, 'flags': corr.flag_names(fl), 'tree': [x[0] for x in spec]})
    return _count(ctx, label, n, {'string': 'sub/../sub/f[1].txt'})


def tilde_follows_fs(ctx, label='GLOBTILDE looks at the home directory at every call'):
    import tempfile
    import shutil
    from wcmatch import glob as Gm
    n, st = 0, [0, 4]
    tmp = tempfile.mkdtemp(prefix='wchome_')
    oldhome = os.environ.get('HOME')
    try:
        home = os.path.join(tmp, 'home')
        os.environ['HOME'] = home
        calls = {'glob': lambda: sorted(Gm.glob('~/*.txt', flags=Gm.GLOBTILDE)), 'glob bytes': lambda: sorted(os.fsdecode(x) for x in Gm.glob(b'~/*.txt', flags=Gm.GLOBTILDE)),
                 'list with NEGATE': lambda: sorted(Gm.glob(['~/*', '!~/b*'], flags=Gm.GLOBTILDE | Gm.NEGATE))}
        before = {k: th() for k, th in calls.items()}
        os.makedirs(home)
        for f in ('a.txt', 'b.txt'):
            open(os.path.join(home, f), 'w').close()
        after = {k: th() for k, th in calls.items()}
        want_after = {'glob': [os.path.join(home, 'a.txt'), os.path.join(home, 'b.txt')], 'glob bytes': [os.path.join(home, 'a.txt'), os.path.join(home, 'b.txt')], 'list with NEGATE': [os.path.join(home, 'a.txt')]}
        shutil.rmtree(home)
        again = {k: th() for k, th in calls.items()}
        for k in calls:
            n += 3
            if after[k] != want_after[k] or again[k] != before[k]:
                _ce(ctx, st, '%s with `~/*.txt` under GLOBTILDE: %r while the home directory is missing, %r once it exists with a.txt and b.txt (expected %r), %r after it is removed again' % (k, before[k], after[k], want_after[k], again[k]),
                    {'call': k, 'sequence': 'home missing -> created -> removed, one interpreter'})
    finally:
        if oldhome is None:
            os.environ.pop('HOME', None)
        else:
            os.environ['HOME'] = oldhome
        shutil.rmtree(tmp, ignore_errors=True)
    return _count(ctx, label, n, {'pattern': '~/*.txt', 'flags': 'GLOBTILDE'})


def mixed_globstars(ctx, label='`***` and `**` side by side under GLOBSTARLONG: walk vs REALPATH matcher'):
    import trees
    from wcmatch import glob as Gm
    n, st = 0, [0, 4]
    spec = [('real', 'd', None), ('real/a.txt', 'f', None), ('real/deep', 'd', None), ('real/deep/b.txt', 'f', None), ('link', 'l', 'real'), ('top.txt', 'f', None), ('d', 'd', None), ('d/l2', 'l', '../real/deep')]
    with trees.Tree(spec) as T:
        cands = T.entries_follow(4)
        for pat in ('***/**/*.txt', '***/**', '***/**/deep/*', '**/***/**/a.txt', '**/***/*.txt', '***/*.txt', '**/*.txt', '***/***/b.txt', '**/**/*.txt', 'd/***/**', 'd/**/***/*.txt'):
            for fl in (Gm.GLOBSTARLONG, Gm.GLOBSTARLONG | Gm.MARK, Gm.GLOBSTARLONG | Gm.FOLLOW, Gm.GLOBSTARLONG | Gm.DOTGLOB):
                n += 1
                walk = sorted(set(x.rstrip('/') for x in Gm.glob(pat, flags=fl, root_dir=T.root)))
                acc = sorted(c for c in cands if Gm.globmatch(c, pat, flags=fl | Gm.REALPATH, root_dir=T.root) and not (os.path.islink(os.path.join(T.root, c)) and not os.path.isdir(os.path.join(T.root, c))))
                # when `***` takes part, the merged run follows links (both sides say so); the walk must return what the matcher accepts
                missing = [c for c in acc if c not in walk]
                extra = [w for w in walk if w not in acc]
                if missing or (extra and '***' not in pat):
                    _ce(ctx, st, 'glob(%r, %s) returns %r; globmatch(REALPATH) accepts %r (not returned: %r)' % (pat, corr.flag_names(fl), walk, acc, missing), {'pattern': pat, 'flags': corr.flag_names(fl), 'tree': [list(map(str, x)) for x in spec]})
    return _count(ctx, label, n, {'pattern': '***/**/*.txt', 'flags': 'GLOBSTARLONG'})


def windows_separators(ctx, label='Windows rules: separator runs in the pattern, both separators in the name (str, bytes, NODIR)'):
    from wcmatch import glob as Gm
    n, st = 0, [0, 6]
    W = Gm.FORCEWIN
    names = ['a\\b', 'a/b', 'a\\\\b', 'a//b', 'a/\\b', 'ab', 'a\\c', 'x\\a\\b', 'a\\b\\', 'a/b/']
    for ref, runs in (('a/b', ['a//b', 'a///b', 'a/\\\\b', 'a\\\\/b', 'a\\\\\\\\b', 'a//\\\\/b', 'a\\\\//b']), ('a/*', ['a//*', 'a//\\\\*', 'a\\\\/*', 'a///*']), ('**/b', ['**//b', '**/\\\\b', '**\\\\/b']), ('a/b/', ['a//b//', 'a/b\\\\/', 'a\\\\b/\\\\'])):
        for fl in (W, W | Gm.GLOBSTAR, W | Gm.CASE, W | Gm.EXTGLOB | Gm.DOTGLOB):
            want = [x for x in names if Gm.globmatch(x, ref, flags=fl)]
            for p in runs:
                n += 1
                got = [x for x in names if Gm.globmatch(x, p, flags=fl)]
                gotb = [x for x in names if Gm.globmatch(x.encode(), p.encode(), flags=fl)]
                gotf = Gm.globfilter(names, p, flags=fl)
                if got != want or gotb != want or gotf != want:
                    _ce(ctx, st, 'under %s the pattern %r (a run of separators) accepts %r (bytes %r, globfilter %r); the single-separator spelling %r accepts %r' % (corr.flag_names(fl), p, got, gotb, gotf, ref, want), {'pattern': p, 'reference': ref, 'flags': corr.flag_names(fl), 'names': names})
    # `/` and `\` in the name are interchangeable - also for what NODIR considers a directory-style path
    for nm in ('dir/', 'dir/sub/', 'dir/sub/.', 'dir/..', 'dir/file', 'a/b/c.txt', 'dir/.h/'):
        for pat in ('**', 'dir/**', '*/*', '**/*', 'dir/*/', '*'):
            for fl in (W | Gm.GLOBSTAR | Gm.NODIR, W | Gm.GLOBSTAR, W | Gm.GLOBSTAR | Gm.NODIR | Gm.DOTGLOB, W | Gm.GLOBSTAR | Gm.MARK):
                n += 1
                alt = nm.replace('/', '\\')
                res = {'str /': Gm.globmatch(nm, pat, flags=fl), 'str \\': Gm.globmatch(alt, pat, flags=fl), 'bytes /': Gm.globmatch(nm.encode(), pat.encode(), flags=fl), 'bytes \\': Gm.globmatch(alt.encode(), pat.encode(), flags=fl),
                       'compiled bytes \\': bool(Gm.compile(pat.encode(), flags=fl).match(alt.encode())), 'filter bytes \\': Gm.globfilter([alt.encode()], pat.encode(), flags=fl) == [alt.encode()]}
                if len(set(res.values())) != 1:
                    _ce(ctx, st, 'under %s, %r against the name %r written with either separator, str and bytes: %r' % (corr.flag_names(fl), pat, nm, res), {'pattern': pat, 'name': nm, 'flags': corr.flag_names(fl)})
    return _count(ctx, label, n, {'pattern': 'a//b', 'flags': 'FORCEWIN'})


def matchbase_inert(ctx, label='MATCHBASE is inert for patterns that contain a separator or a drive'):
    from wcmatch import glob as Gm
    n, st = 0, [0, 4]
    W = Gm.FORCEWIN
    names = ['sub/c:/leaf', 'd:/c:/leaf', 'c:/leaf', 'C:\\leaf', '//?/c:/leaf', 'sub\\C:\\leaf', 'c:/dir/leaf', 'x/dir/leaf', 'dir/leaf', 'd:/sub/c:/a.txt', 'c:/a.txt', '//host/share/leaf', 'x//host/share/leaf', 'a/b', 'x/a/b', '/a', 'x/a']
    for pat in ('c:/leaf', 'c:/*.txt', 'C:/leaf', 'c:/dir/leaf', '//host/share/leaf', 'dir/leaf', 'a/b', '/a', 'c:\\\\leaf', '*/leaf', 'c:/**', 'c:'):
        for fl in (W, W | Gm.CASE, W | Gm.GLOBSTAR, W | Gm.DOTGLOB | Gm.EXTGLOB, Gm.FORCEUNIX, Gm.FORCEUNIX | Gm.GLOBSTAR):
            if pat == 'c:' and not fl & W:
                continue
            n += 1
            try:
                want = [x for x in names if Gm.globmatch(x, pat, flags=fl)]
                got = [x for x in names if Gm.globmatch(x, pat, flags=fl | Gm.MATCHBASE)]
                gotb = [x for x in names if Gm.globmatch(x.encode(), pat.encode(), flags=fl | Gm.MATCHBASE)]
                gott = Gm.translate(pat, flags=fl | Gm.MATCHBASE) == Gm.translate(pat, flags=fl)
            except Exception as ex:
                want, got, gotb, gott = None, 'raised %s: %s' % (type(ex).__name__, ex), None, True
            sepless = ('/' not in pat and not (fl & W and '\\' in pat)) and not (fl & W and pat.endswith(':'))
            if sepless:
                continue
            if got != want or gotb != want or not gott:
                _ce(ctx, st, 'globmatch(<names>, %r, %s|MATCHBASE) accepts %r (bytes %r); without MATCHBASE %r - the pattern is not slash-less%s' % (pat, corr.flag_names(fl), got, gotb, want, '' if gott else '; translate differs too'), {'pattern': pat, 'flags': corr.flag_names(fl), 'names': names})
    return _count(ctx, label, n, {'pattern': 'c:/leaf', 'flags': 'FORCEWIN|MATCHBASE', 'name': 'sub/c:/leaf'})


def bytes_high_and_nonascii_dirs(ctx, label='bytes: every byte value against the POSIX classes; non-ASCII directory names'):
    """For bytes, no byte >= 0x80 is in any POSIX class but none is lost to its negation; a bytes pattern naming a
    directory with a non-ASCII (UTF-8) name finds what the str pattern finds."""
    import trees
    from wcmatch import fnmatch as Fm, glob as Gm
    n, st = 0, [0, 6]
    classes = ['alnum', 'alpha', 'blank', 'cntrl', 'digit', 'graph', 'lower', 'print', 'punct', 'space', 'upper', 'word', 'xdigit']
    for cl in classes:
        for form, neg in (('[[:%s:]]', False), ('[![:%s:]]', True), ('x[![:%s:]]', True), ('[[:%s:]_]', False)):
            pat = (form % cl).encode()
            cm = Fm.compile(pat, flags=Fm.DOTMATCH | Fm.FORCEUNIX)
            gm = Gm.compile(pat, flags=Gm.DOTGLOB | Gm.FORCEUNIX | Gm.IGNORECASE)
            for o in range(128, 256):
                n += 1
                nm = (b'x' if form.startswith('x') else b'') + bytes([o])
                got = (bool(cm.match(nm)), bool(gm.match(nm)), Fm.filter([nm], pat, flags=Fm.DOTMATCH) == [nm])
                if got != (neg, neg, neg):
                    _ce(ctx, st, 'bytes: (fnmatch, globmatch under IGNORECASE, filter)(%r, %r) = %r; the byte %#x is in no C-locale class, so the answer is %r' % (nm, pat, got, o, neg), {'name': repr(nm), 'pattern': pat.decode(), 'byte': o})
                    break
    spec = [('d\xe9', 'd', None), ('d\xe9/f', 'f', None), ('d\xe9/sub', 'd', None), ('d\xe9/sub/g', 'f', None), ('plain', 'd', None), ('plain/f', 'f', None), ('\xfc.txt', 'f', None)]
    with trees.Tree(spec) as T:
        fd = os.open(T.root, os.O_RDONLY)
        try:
            for pat in ('d\xe9/f', 'd\xe9/*', 'd\xe9/sub/', '*\xe9/f', './d\xe9/*', 'd\xe9/**', '{d\xe9,plain}/f', 'd\xe9', '*/f', '\xfc.txt', '[\xfc]*', 'd\xe9/sub/g'):
                for fl in (Gm.GLOBSTAR | Gm.BRACE, Gm.GLOBSTAR | Gm.BRACE | Gm.MARK, Gm.GLOBSTAR | Gm.BRACE | Gm.NODIR):
                    n += 1
                    want = sorted(Gm.glob(pat, flags=fl, root_dir=T.root))
                    got = {'bytes root_dir': sorted(os.fsdecode(x) for x in Gm.glob(os.fsencode(pat), flags=fl, root_dir=os.fsencode(T.root))), 'bytes dir_fd': sorted(os.fsdecode(x) for x in Gm.glob(os.fsencode(pat), flags=fl, dir_fd=fd)),
                           'str dir_fd': sorted(Gm.glob(pat, flags=fl, dir_fd=fd))}
                    wrong = [k for k, v in got.items() if v != want]
                    if wrong:
                        _ce(ctx, st, 'glob(%r, %s) [%s] returns %r; the str pattern with a str root returns %r' % (pat, corr.flag_names(fl), wrong[0], got[wrong[0]], want), {'pattern': pat, 'flags': corr.flag_names(fl), 'how': wrong[0], 'tree': [x[0] for x in spec]})
        finally:
            os.close(fd)
    return _count(ctx, label, n, {'pattern': "b'd\\xc3\\xa9/f'"})


def translate_clauses(ctx, label='translate vs match: inline exclusions on hidden names, Windows rules in fnmatch mode'):
    import re
    from wcmatch import fnmatch as Fm, glob as Gm
    n, st = 0, [0, 6]
    names = ['.a.txt', 'a.txt', '.ba', 'xa', 'x/.ba', '.cfg/b.txt', 'b.py', '.h', 'a/b', 'a\\b', 'a//b', 'a\\\\b', 'ab', 'a/x', 'a/']
    cases = [(Gm, ['.*', '!*.txt'], Gm.NEGATE), (Gm, ['.*', 'x*', '!*a'], Gm.NEGATE), (Gm, ['**/.*', '**/*.txt', '!**/*a'], Gm.GLOBSTAR | Gm.NEGATE), (Gm, ['.cfg/*.txt', '!*/b*'], Gm.NEGATE), (Gm, ['.*', '-*.txt'], Gm.NEGATE | Gm.MINUSNEGATE),
             (Fm, '.*|!*.txt', Fm.NEGATE | Fm.SPLIT), (Fm, ['.*', '!*.txt'], Fm.NEGATE | Fm.FORCEWIN), (Fm, ['*', '!.*'], Fm.NEGATE | Fm.DOTMATCH), (Gm, ['.*', '!*.txt'], Gm.NEGATE | Gm.FORCEWIN),
             (Fm, 'a\\/b', Fm.FORCEWIN), (Fm, 'a\\/*', Fm.FORCEWIN), (Fm, '@(a\\/)b', Fm.FORCEWIN | Fm.EXTMATCH), (Fm, 'a\\/b', Fm.FORCEWIN | Fm.CASE), (Fm, 'a/b', Fm.FORCEWIN), (Fm, 'a\\/b', Fm.FORCEUNIX), (Gm, 'a\\/b', Gm.FORCEWIN),
             (Fm, ['*', '!a\\/b'], Fm.FORCEWIN | Fm.NEGATE), (Fm, 'a\\\\b', Fm.FORCEWIN)]
    for mod, pat, fl in cases:
        for isb in (False, True):
            for kw in ({}, {'exclude': 'x*'}):
                n += 1
                cv = (lambda z: [i.encode() for i in z] if isinstance(z, list) else z.encode()) if isb else (lambda z: z)
                kwc = {k: cv(v) for k, v in kw.items()}
                one = mod.fnmatch if mod is Fm else mod.globmatch
                try:
                    inc, exc = mod.translate(cv(pat), flags=fl, **kwc)
                    got = [x for x in names if any(re.compile(r).fullmatch(cv(x)) for r in inc) and not any(re.compile(r).fullmatch(cv(x)) for r in exc)]
                    want = [x for x in names if one(cv(x), cv(pat), flags=fl, **kwc)]
                except Exception as ex:
                    got, want = 'raised %s: %s' % (type(ex).__name__, ex), None
                if got != want:
                    _ce(ctx, st, '%s.translate(%r, %s%s)%s applied with fullmatch accepts %r; the matcher accepts %r' % (mod.__name__.split('.')[-1], pat, corr.flag_names(fl), ''.join(', %s=%r' % kv for kv in kw.items()), ' (bytes)' if isb else '', got, want),
                        {'patterns': pat, 'flags': corr.flag_names(fl), 'bytes': isb, 'names': names})
    return _count(ctx, label, n, {'patterns': ['.*', '!*.txt'], 'flags': 'NEGATE', 'name': '.a.txt'})


def rawchars_errors(ctx, label='escape-looking text: only documented errors, decoded only under RAWCHARS'):
    from wcmatch import fnmatch as Fm, glob as Gm, pathlib as PLm
    n, st = 0, [0, 6]
    R = Fm.RAWCHARS
    # out-of-range and incomplete escapes under RAWCHARS: SyntaxError (or the lookup error of \N{...}), nothing else
    for pat in ('\\U00110000', '*\\U00110000', '[a\\U0FFFFFFF]', '@(x|\\U7FFFFFFF)', '\\UFFFFFFFF', '\\x4', '\\x', 'a\\xg', '\\u12', '\\N', '\\N{DIGIT ONE'):
        for isb in (False, True):
            if isb and any(t in pat for t in ('\\U', '\\u', '\\N')):
                continue
            P = pat.encode() if isb else pat
            nm = b'x4' if isb else 'x4'
            for what, th in (('fnmatch', lambda: Fm.fnmatch(nm, P, flags=R | Fm.EXTMATCH)), ('fnmatch.translate', lambda: Fm.translate(P, flags=R)), ('filter(exclude=)', lambda: Fm.filter([nm], b'*' if isb else '*', flags=R, exclude=P)),
                             ('globmatch', lambda: Gm.globmatch(nm, P, flags=R)), ('globmatch FORCEWIN', lambda: Gm.globmatch(nm, P, flags=R | Gm.FORCEWIN)), ('glob', lambda: Gm.glob(P, flags=R))):
                n += 1
                try:
                    th()
                    got = 'no exception'
                except SyntaxError:
                    got = 'SyntaxError'
                except Exception as ex:
                    got = type(ex).__name__
                if got != 'SyntaxError':
                    _ce(ctx, st, '%s(%r, RAWCHARS): %s; an escape that denotes no character raises SyntaxError' % (what, P, got), {'api': what, 'pattern': pat, 'bytes': isb})
    # without RAWCHARS the same text is an escaped letter followed by ordinary characters - under every platform rule
    for pat, lit in (('\\x41', 'x41'), ('\\101', '101'), ('\\u0041', 'u0041'), ('\\U00000041', 'U00000041'), ('\\N{DIGIT ONE}', None), ('\\x4', 'x4'), ('\\x', 'x'), ('\\N', 'N')):
        for fl in (Fm.FORCEWIN, Fm.FORCEUNIX, 0, Fm.FORCEWIN | Fm.CASE, Fm.FORCEWIN | Fm.BRACE if lit else Fm.FORCEWIN):
            for isb in (False, True):
                n += 1
                P = pat.encode() if isb else pat
                try:
                    got = [Fm.fnmatch((lit or 'N{DIGIT ONE}').encode() if isb else (lit or 'N{DIGIT ONE}'), P, flags=fl), Gm.globmatch((lit or 'N{DIGIT ONE}').encode() if isb else (lit or 'N{DIGIT ONE}'), P, flags=fl),
                           Fm.fnmatch(b'A' if isb else 'A', P, flags=fl), bool(Fm.translate(P, flags=fl)[0])]
                    if not isb and fl & Fm.FORCEWIN and not fl & Fm.BRACE:
                        got.append(PLm.PureWindowsPath(lit or 'N{DIGIT ONE}').globmatch(pat))
                    else:
                        got.append(True)
                except Exception as ex:
                    got = 'raised %s: %s' % (type(ex).__name__, str(ex)[:60])
                if got != [True, True, False, True, True]:
                    _ce(ctx, st, 'without RAWCHARS, %r under %s%s: (fnmatch of the literal text, globmatch of it, fnmatch of `A`, translate works, PureWindowsPath) = %r; nothing is decoded, the literal text matches' % (pat, corr.flag_names(fl), ' (bytes)' if isb else '', got),
                        {'pattern': pat, 'flags': corr.flag_names(fl), 'bytes': isb})
    return _count(ctx, label, n, {'pattern': '\\\\U00110000', 'flags': 'RAWCHARS'})


def brace_stray(ctx, label='BRACE = the list of the Bash brace expansions, with stray braces around'):
    """Expansions taken from bracex itself (the oracle the library documents): the pattern under BRACE behaves as the list."""
    import bracex
    from wcmatch import fnmatch as Fm, glob as Gm
    n, st = 0, [0, 4]
    names = ['a}b', 'a}c', 'a}{b,c}', '}x1', '}y', '}1', '}2', '}3', 'q}', 'rt', 'st', 'ab', '{a}b', 'a{b', 'a{b}', 'ac', '}{x,y}1']
    for pat in ('a}{b,c}', '}{x,y}*', '[}]{1..3}', 'q}|{r,s}t', '{a,b}}{c,d}', 'a{b,c}}', '}{a,b}{', '{a}{b,c}', 'a{b{c,d}', '}}{a,b}', 'x}y{1..2}'):
        for mod, one, flt in ((Fm, 'fnmatch', 'filter'), (Gm, 'globmatch', 'globfilter')):
            for fl in (mod.BRACE, mod.BRACE | mod.SPLIT, mod.BRACE | mod.EXTMATCH):
                n += 1
                exp = []
                for piece in (pat.split('|') if fl & mod.SPLIT else [pat]):
                    exp += list(bracex.expand(piece, keep_escapes=True))
                try:
                    want = [x for x in names if any(getattr(mod, one)(x, e, flags=(fl & ~mod.BRACE)) for e in exp if e)]
                    got = {one: [x for x in names if getattr(mod, one)(x, pat, flags=fl)], flt: getattr(mod, flt)(names, pat, flags=fl), 'bytes': [x for x in names if getattr(mod, one)(x.encode(), pat.encode(), flags=fl)],
                           'exclude=': [x for x in names if not getattr(mod, one)(x, '*', flags=fl | (mod.DOTMATCH if mod is Fm else mod.DOTGLOB), exclude=pat)]}
                except Exception as ex:
                    got, want = {'raised': '%s: %s' % (type(ex).__name__, ex)}, None
                wrong = [k for k, v in got.items() if v != want]
                if wrong:
                    _ce(ctx, st, '%s(<names>, %r, %s) accepts %r; its brace expansions %r accept %r' % (wrong[0], pat, corr.flag_names(fl), got[wrong[0]], exp, want), {'pattern': pat, 'flags': corr.flag_names(fl), 'expansions': exp, 'names': names})
    return _count(ctx, label, n, {'pattern': 'a}{b,c}', 'flags': 'BRACE'})


def windows_drive_bytes(ctx, label='escape / is_magic on Windows device prefixes: bytes = str, history-free'):
    from wcmatch import glob as Gm
    n, st = 0, [0, 4]
    strs = ['//?/UNC/ser-ver/sh(a)re/file[1].txt', '//?/unc/ser-ver/sh(a)re/f*', '//./GLOBAL/dev-ice/x?', '//?/Unc/a-b/c(d)/e!', '//?/GLOBALROOT/x-y/z', '//?/C:/a-b/c*', 'C:/a-b', 'c:\\\\a(b)', '//server/sh{a}re/file', '//server/sh|a|re/file',
            '//?/UNC/server/sh{a}re/x', '\\\\\\\\?\\\\UNC\\\\a-b\\\\c(d)\\\\e']
    for s in strs:
        n += 1
        a, b = Gm.escape(s, unix=False), Gm.escape(s.encode(), unix=False)
        if b != a.encode():
            _ce(ctx, st, 'glob.escape(%r, unix=False) = %r for str but %r for bytes' % (s, a, b), {'string': s})
        flagsets = (Gm.FORCEWIN | Gm.BRACE, Gm.FORCEWIN, Gm.FORCEWIN | Gm.SPLIT, Gm.FORCEWIN, Gm.FORCEWIN | Gm.BRACE | Gm.SPLIT | Gm.EXTGLOB, Gm.FORCEWIN)
        first = {}
        for rnd in range(2):
            for fl in flagsets:
                n += 1
                va, vb = Gm.is_magic(s, flags=fl), Gm.is_magic(s.encode(), flags=fl)
                f0 = first.setdefault(fl, va)
                if va != vb or f0 != va:
                    _ce(ctx, st, 'glob.is_magic(%r, %s) = %r for str, %r for bytes (first answer in this process: %r)' % (s, corr.flag_names(fl), va, vb, f0), {'string': s, 'flags': corr.flag_names(fl)})
    return _count(ctx, label, n, {'string': "b'//?/UNC/ser-ver/sh(a)re/file[1].txt'"})


def misc_clauses(ctx, which, label=None):
    """Small clause probes grouped by the check that owns them."""
    import trees
    from wcmatch import glob as Gm, fnmatch as Fm, pathlib as PLm, wcmatch as WMm, _wcparse as W
    n, st = 0, [0, 8]
    if which == 'C05':
        label = 'MARK on literal `.` / `..`; literal dangling and looping links'
        spec = [('d', 'd', None), ('f', 'f', None), ('dangling', 'l', 'nowhere'), ('loop', 'l', 'loop'), ('d/dl', 'l', 'nope'), ('ln', 'l', 'd')]
        with trees.Tree(spec) as T:
            for pat, want in (('..', ['../']), ('.', ['./']), (['..', 'd', 'f'], ['../', 'd/', 'f']), ('./', ['./']), ('d/..', ['d/../']), ('.|..', ['./', '../'])):
                for fl in (Gm.MARK, Gm.MARK | Gm.SCANDOTDIR, Gm.MARK | Gm.NODOTDIR, Gm.MARK | Gm.DOTGLOB):
                    n += 1
                    got = Gm.glob(pat, flags=fl | Gm.SPLIT, root_dir=T.root)
                    goti = list(Gm.iglob(pat, flags=fl | Gm.SPLIT, root_dir=T.root))
                    if got != want or goti != want:
                        _ce(ctx, st, 'glob(%r, %s) returns %r (iglob %r): with MARK every directory, `.` and `..` included, ends in a separator: %r' % (pat, corr.flag_names(fl), got, goti, want), {'pattern': pat, 'flags': corr.flag_names(fl)})
            for pat, want in (('dangling', ['dangling']), ('loop', ['loop']), (['f', 'dangling', 'loop', 'missing'], ['f', 'dangling', 'loop']), ('d/dl', ['d/dl']), ('ln/dl', ['ln/dl']), ('dang*', ['dangling']), ('l[o]op', ['loop'])):
                for fl in (0, Gm.IGNORECASE, Gm.MARK | Gm.GLOBSTAR | Gm.DOTGLOB, Gm.NODIR):
                    n += 1
                    got = Gm.glob(pat, flags=fl, root_dir=T.root)
                    gotb = [x.decode() for x in Gm.glob([p.encode() for p in pat] if isinstance(pat, list) else pat.encode(), flags=fl, root_dir=T.root.encode())]
                    if got != want or gotb != want:
                        _ce(ctx, st, 'glob(%r, %s) returns %r (bytes %r); the links exist (lexists) although they resolve nowhere: %r' % (pat, corr.flag_names(fl), got, gotb, want), {'pattern': pat, 'flags': corr.flag_names(fl), 'tree': [list(map(str, x)) for x in spec]})
    elif which == 'C10':
        label = 'nested negations after a pending negation compile'
        import re
        for pat in ('!(a)@(!(b))', '!(a)*(!(b)|c)', '!(x|y)+(!(!(z)))', '!(a)!(b|c)', '!(!(!(a)))', '!(a)?(!(b))d', '@(!(a))!(b)', '!(a)/@(!(b))', '*(!(a)|!(b))!(c)'):
            for fl in (Fm.EXTMATCH, Fm.EXTMATCH | Fm.DOTMATCH, Fm.EXTMATCH | Fm.FORCEWIN, Fm.EXTMATCH | Fm.IGNORECASE):
                for isb in (False, True):
                    n += 1
                    P = pat.encode() if isb else pat
                    try:
                        for rx in sum(map(list, Fm.translate(P, flags=fl)), []) + sum(map(list, Gm.translate(P, flags=fl)), []):
                            re.compile(rx)
                        Fm.fnmatch(b'ab' if isb else 'ab', P, flags=fl), Gm.globmatch(b'a/b' if isb else 'a/b', P, flags=fl), Fm.filter([b'q' if isb else 'q'], P, flags=fl)
                        if not isb:
                            PLm.PurePath('ab').match(pat, flags=fl & PLm.FLAG_MASK), Gm.glob(pat, flags=fl, root_dir=os.path.dirname(__file__))
                    except Exception as ex:
                        _ce(ctx, st, 'the pattern %r under %s%s: %s: %s' % (pat, corr.flag_names(fl), ' (bytes)' if isb else '', type(ex).__name__, str(ex)[:80]), {'pattern': pat, 'flags': corr.flag_names(fl), 'bytes': isb})
    elif which == 'C11':
        label = 'limits on path objects that are not directories; `|` inside brackets under Windows rules'
        with trees.Tree([('f', 'f', None), ('d', 'd', None)]) as T:
            for target in ('f', 'missing', 'd'):
                for meth in ('glob', 'rglob'):
                    for pats, kw, lim, expect in (('{1..11}', {}, 10, True), ('{1..10}', {}, 10, False), (['{1..3}'], {'exclude': ['{a,b}|c']}, 5, True), ('{1..1001}', {}, None, True), ('{1..1000}', {}, None, False)):
                        n += 1
                        k2 = dict(kw, **({} if lim is None else {'limit': lim}))
                        try:
                            list(getattr(PLm.Path(os.path.join(T.root, target)), meth)(pats, flags=PLm.BRACE | PLm.SPLIT, **k2))
                            raised = False
                        except W.PatternLimitException:
                            raised = True
                        if raised != expect:
                            _ce(ctx, st, 'Path(<%s>).%s(%r, BRACE|SPLIT%s): %s' % ('a regular file' if target == 'f' else ('a missing path' if target == 'missing' else 'a directory'), meth, pats, ''.join(', %s=%r' % kv for kv in k2.items()),
                                                                        'PatternLimitException' if raised else 'no PatternLimitException'), {'path': target, 'method': meth, 'patterns': pats, 'limit': lim})
        for pat, fl, count in (('[a\\\\|b]', Gm.FORCEWIN | Gm.SPLIT, 2), ('[a/|b]', Gm.FORCEWIN | Gm.SPLIT, 2), ('[a/|b]', Gm.FORCEUNIX | Gm.SPLIT, 2), ('[a\\\\|b]', Gm.FORCEUNIX | Gm.SPLIT, 1), ('[a|b]', Gm.FORCEWIN | Gm.SPLIT, 1),
                               ('{1..3}[a\\\\|b]', Gm.FORCEWIN | Gm.SPLIT | Gm.BRACE, 6), ('[a\\\\|b]|c', Gm.FORCEWIN | Gm.SPLIT, 3)):
            for api, th in (('globmatch', lambda L: Gm.globmatch('zz', pat, flags=fl, limit=L)), ('globfilter', lambda L: Gm.globfilter(['zz'], pat, flags=fl, limit=L)), ('glob.translate', lambda L: Gm.translate(pat, flags=fl, limit=L)),
                            ('glob.compile bytes', lambda L: Gm.compile(pat.encode(), flags=fl, limit=L)), ('PureWindowsPath.globmatch', lambda L: PLm.PureWindowsPath('zz').globmatch(pat, flags=fl & ~(Gm.FORCEWIN | Gm.FORCEUNIX), limit=L) if fl & Gm.FORCEWIN else Gm.globmatch('zz', pat, flags=fl, limit=L))):
                for L, expect in ((count - 1, True), (count, False)):
                    if L < 1:
                        continue
                    n += 1
                    try:
                        th(L)
                        raised = False
                    except W.PatternLimitException:
                        raised = True
                    if raised != expect:
                        _ce(ctx, st, '%s(%r, %s, limit=%d): %s although the pattern is %d pattern(s) (a separator ends the bracket expression in path mode)' % (api, pat, corr.flag_names(fl), L, 'PatternLimitException' if raised else 'no PatternLimitException', count),
                            {'api': api, 'pattern': pat, 'flags': corr.flag_names(fl), 'limit': L, 'patterns_denoted': count})
    elif which == 'C16':
        label = 'full_match = globmatch (REALPATH, foreign flavours); Path.glob yields no file twice'
        with trees.Tree([('sub', 'd', None), ('sub/a.txt', 'f', None), ('d', 'd', None), ('e', 'd', None), ('e/x', 'f', None), ('k.v', 'd', None)]) as T:
            old = os.getcwd()
            os.chdir(T.root)
            try:
                for cls in (PLm.PureWindowsPath, PLm.PurePosixPath, PLm.Path, PLm.PurePath):
                    for q in ('sub/a.txt', 'sub/missing.txt', 'sub', 'd'):
                        for pat in ('**/*.txt', 'sub/*', '*', 'sub/'):
                            for fl in (PLm.REALPATH | PLm.GLOBSTAR, PLm.GLOBSTAR, PLm.REALPATH, PLm.REALPATH | PLm.GLOBSTAR | PLm.MARK if hasattr(PLm, 'MARK') else PLm.REALPATH):
                                n += 1
                                res = []
                                for meth in ('globmatch', 'full_match'):
                                    try:
                                        res.append(getattr(cls(q), meth)(pat, flags=fl))
                                    except Exception as ex:
                                        res.append('raises ' + type(ex).__name__)
                                if res[0] != res[1]:
                                    _ce(ctx, st, '%s(%r): globmatch(%r, %s) = %r but full_match = %r' % (cls.__name__, q, pat, corr.flag_names(fl), res[0], res[1]), {'class': cls.__name__, 'path': q, 'pattern': pat, 'flags': corr.flag_names(fl)})
                for pats in (['d/', 'd'], ['*/', '*'], 'd/|d', 'd{/,}', ['D/', 'd'], ['e/', 'e'], ['k.v/', 'k.v'], ['sub', 'sub/', 'su*']):
                    for meth in ('glob', 'rglob'):
                        for fl in (PLm.SPLIT | PLm.BRACE, PLm.SPLIT | PLm.BRACE | PLm.IGNORECASE, PLm.SPLIT | PLm.BRACE | PLm.GLOBSTAR):
                            n += 1
                            got = [str(x) for x in getattr(PLm.Path('.'), meth)(pats, flags=fl)]
                            nu = [str(x) for x in getattr(PLm.Path('.'), meth)(pats, flags=fl | PLm.NOUNIQUE)]
                            ref = Gm.glob(pats if meth == 'glob' else ([('**/' + p) for p in pats] if isinstance(pats, list) else None) or pats, flags=fl | Gm.NOUNIQUE | (Gm.GLOBSTAR if meth == 'rglob' else 0), root_dir='.') if meth == 'glob' else None
                            if len(got) != len(set(got)) or (ref is not None and len(nu) != len(ref)):
                                _ce(ctx, st, 'Path.%s(%r, %s) yields %r (with NOUNIQUE %d results, glob.glob with NOUNIQUE %s): no file twice unless NOUNIQUE, every repeat kept with it' % (meth, pats, corr.flag_names(fl), got, len(nu), 'n/a' if ref is None else len(ref)),
                                    {'patterns': pats, 'method': meth, 'flags': corr.flag_names(fl)})
            finally:
                os.chdir(old)
    elif which == 'C20':
        label = 'RAWCHARS: incomplete bytes escapes raise SyntaxError through every entry point'
        for pat in (b'\\x4', b'\\x', b'a\\xg', b'[\\x4]', b'\\x4|a'):
            for what, th in (('fnmatch', lambda: Fm.fnmatch(b'x4', pat, flags=Fm.RAWCHARS)), ('filter', lambda: Fm.filter([b'x4'], pat, flags=Fm.RAWCHARS)), ('globmatch', lambda: Gm.globmatch(b'x4', pat, flags=Gm.RAWCHARS)),
                             ('globmatch FORCEWIN', lambda: Gm.globmatch(b'x4', pat, flags=Gm.RAWCHARS | Gm.FORCEWIN)), ('glob', lambda: Gm.glob(pat, flags=Gm.RAWCHARS)), ('WcMatch', lambda: WMm.WcMatch(b'.', pat, flags=WMm.RAWCHARS).match()),
                             ('translate', lambda: Fm.translate(pat, flags=Fm.RAWCHARS))):
                n += 1
                try:
                    th()
                    got = 'no exception'
                except SyntaxError:
                    got = 'SyntaxError'
                except Exception as ex:
                    got = type(ex).__name__
                if got != 'SyntaxError':
                    _ce(ctx, st, '%s(%r, RAWCHARS): %s; an incomplete \\x escape raises SyntaxError' % (what, pat, got), {'api': what, 'pattern': pat.decode()})
    return _count(ctx, label, n, {'check': which})


def empty_groups(ctx, label='extended groups whose list is empty'):
    """`@()`, `?()`, `*()`, `+()` match the empty string (the quantifier applied to the one, empty, alternative) and `!()`
    every non-empty string; the characters themselves are never literals under EXTMATCH."""
    from wcmatch import fnmatch as Fm, glob as Gm
    n, st = 0, [0, 4]
    cases = [('@()x', 'x', True), ('@()x', '@()x', False), ('x?()', 'x', True), ('*()x', 'x', True), ('+()x', 'x', True), ('a@()', 'a', True), ('@(a|@())x', 'x', True), ('@(a|@())x', 'ax', True), ('!()', 'abc', True), ('!()', '!()', True),
             ('x!()', 'xq', True), ('@(|)x', 'x', True), ('a@()b', 'ab', True), ('a@()b', 'a@()b', False), ('?()', '?()', False)]
    for pat, name, want in cases:
        for fl in (Fm.EXTMATCH | Fm.DOTMATCH, Fm.EXTMATCH | Fm.IGNORECASE | Fm.DOTMATCH, Fm.EXTMATCH | Fm.FORCEUNIX | Fm.DOTMATCH):
            n += 1
            got = (Fm.fnmatch(name, pat, flags=fl), Fm.fnmatch(name.encode(), pat.encode(), flags=fl), bool(Fm.compile(pat, flags=fl).match(name)), Fm.filter([name], pat, flags=fl) == [name], Gm.globmatch(name, pat, flags=fl))
            if got != (want,) * 5:
                _ce(ctx, st, '(fnmatch, bytes, compiled, filter, globmatch)(%r, %r, %s) = %r; a group with an empty list matches the empty string (`!()` everything else), so the answer is %r' % (name, pat, corr.flag_names(fl), got, want), {'name': name, 'pattern': pat, 'flags': corr.flag_names(fl)})
    return _count(ctx, label, n, {'pattern': '@()x', 'name': 'x'})
