"""Probes of the glue and state around the matching core, shared by several checks: argument handling, object life cycle,
laziness of the generators, error paths, the convenience layers.  Each states a law whose expectation is known by
construction or through a second route of the library."""
import os
import corr


def _count(ctx, label, n, sample):
    ctx.counted(label, n, max(1, n // 2), [sample])
    return n


def realpath_follows_fs(ctx, label='REALPATH (and pathlib match) answers follow the file system, not earlier calls'):
    """The same relative path over two trees (one where a component is a symlink, one where it is a directory), reached by
    chdir, root_dir and dir_fd in every order, and over one tree that changes between calls: each answer is the tree's."""
    import trees
    from wcmatch import glob as Gm, pathlib as PLm
    n = bad = 0
    one = [('real', 'd', None), ('real/f.txt', 'f', None), ('d', 'l', 'real'), ('x', 'f', None)]
    two = [('d', 'd', None), ('d/f.txt', 'f', None), ('real', 'd', None), ('real/f.txt', 'f', None), ('x', 'f', None)]
    R = Gm.GLOBSTAR | Gm.REALPATH
    old = os.getcwd()
    with trees.Tree(one) as T1, trees.Tree(two) as T2:
        try:
            want = {'one': {'d/f.txt': False, 'real/f.txt': True}, 'two': {'d/f.txt': True, 'real/f.txt': True}}
            for order in (('one', 'two', 'one'), ('two', 'one', 'two')):
                cm = Gm.compile('**/f.txt', flags=R)
                for how in ('chdir', 'root_dir', 'dir_fd', 'compiled, chdir', 'Path.match, chdir', 'globfilter, chdir'):
                    for tag in order:
                        T = T1 if tag == 'one' else T2
                        for q in ('d/f.txt', 'real/f.txt'):
                            n += 1
                            os.chdir(T.root if 'chdir' in how else old)
                            try:
                                if how == 'chdir':
                                    got = Gm.globmatch(q, '**/f.txt', flags=R)
                                elif how == 'root_dir':
                                    got = Gm.globmatch(q, '**/f.txt', flags=R, root_dir=T.root)
                                elif how == 'dir_fd':
                                    fd = os.open(T.root, os.O_RDONLY)
                                    try:
                                        got = Gm.globmatch(q, '**/f.txt', flags=R, dir_fd=fd)
                                    finally:
                                        os.close(fd)
                                elif how == 'compiled, chdir':
                                    got = bool(cm.match(q))
                                elif how == 'globfilter, chdir':
                                    got = Gm.globfilter([q, 'x'], '**/f.txt', flags=R) == [q]
                                else:
                                    got = PLm.Path(q).match('f.txt', flags=PLm.REALPATH)
                                    yielded = q in [os.path.relpath(str(p), T.root) for p in PLm.Path('.').rglob('f.txt')]
                                    if got != yielded and bad < 4:
                                        bad += 1
                                        ctx.counterexample('Path(%r).match(`f.txt`, REALPATH) = %r but rglob %s it, in tree %s visited in the order %r' % (q, got, 'yields' if yielded else 'does not yield', tag, order),
                                                           {'path': q, 'tree': tag, 'order': list(order), 'how': how})
                            finally:
                                os.chdir(old)
                            if got != want[tag][q] and bad < 4:
                                bad += 1
                                ctx.counterexample('globmatch(%r, `**/f.txt`, GLOBSTAR|REALPATH) [%s] over tree %s (in it `d` is %s), trees visited in the order %r: %r' % (
                                    q, how, tag, 'a symlink' if tag == 'one' else 'a directory', order, got), {'path': q, 'tree': tag, 'order': list(order), 'how': how})
            # one tree changing between calls
            for how in ('root_dir', 'Path.match'):
                res = []
                for step in range(3):
                    n += 1
                    if step == 1:
                        os.unlink(os.path.join(T1.root, 'd'))
                        os.mkdir(os.path.join(T1.root, 'd'))
                        open(os.path.join(T1.root, 'd', 'f.txt'), 'w').close()
                    if step == 2:
                        os.unlink(os.path.join(T1.root, 'd', 'f.txt'))
                        os.rmdir(os.path.join(T1.root, 'd'))
                        os.symlink('real', os.path.join(T1.root, 'd'))
                    if how == 'root_dir':
                        res.append(Gm.globmatch('d/f.txt', '**/f.txt', flags=R, root_dir=T1.root))
                    else:
                        os.chdir(T1.root)
                        try:
                            res.append(PLm.Path('d/f.txt').match('f.txt', flags=PLm.REALPATH))
                        finally:
                            os.chdir(old)
                if res != [False, True, False] and bad < 4:
                    bad += 1
                    ctx.counterexample('`d/f.txt` against `**/f.txt` under REALPATH [%s] while `d` is a symlink, then a directory, then a symlink again: %r' % (how, res), {'how': how, 'expected': [False, True, False]})
        finally:
            os.chdir(old)
    return _count(ctx, label, n, {'path': 'd/f.txt', 'pattern': '**/f.txt'})


def dirfd_dangling(ctx, label='REALPATH with a directory descriptor: dangling and looping links exist'):
    import trees
    from wcmatch import glob as Gm
    n = bad = 0
    spec = [('d', 'd', None), ('d/f', 'f', None), ('d/dang', 'l', 'nowhere'), ('d/loop', 'l', 'loop'), ('top', 'l', 'missing')]
    with trees.Tree(spec) as T:
        fd = os.open(T.root, os.O_RDONLY)
        try:
            for pat in ('d/*', '*/*', '*/[dl]*', 'd/@(dang|loop|f)', '*', 'top', 'd/dang', 'd/????'):
                for fl in (Gm.REALPATH | Gm.EXTGLOB, Gm.REALPATH | Gm.EXTGLOB | Gm.MATCHBASE, Gm.REALPATH | Gm.EXTGLOB | Gm.MARK):
                    for q in ('d/f', 'd/dang', 'd/loop', 'top', 'd'):
                        n += 1
                        a = Gm.globmatch(q, pat, flags=fl, root_dir=T.root)
                        got = {'dir_fd': Gm.globmatch(q, pat, flags=fl, dir_fd=fd), 'compiled, dir_fd': bool(Gm.compile(pat, flags=fl).match(q, dir_fd=fd)),
                               'filter, dir_fd': Gm.compile(pat, flags=fl).filter([q], dir_fd=fd) == [q], 'globfilter, dir_fd': Gm.globfilter([q], pat, flags=fl, dir_fd=fd) == [q],
                               'bytes, dir_fd': Gm.globmatch(q.encode(), pat.encode(), flags=fl, dir_fd=fd)}
                        wrong = [k for k, v in got.items() if v != a]
                        if wrong and bad < 4:
                            bad += 1
                            ctx.counterexample('globmatch(%r, %r, %s) is %r with root_dir but %r through %s (entries: a file, a dangling link, a link to itself)' % (q, pat, corr.flag_names(fl), a, got[wrong[0]], wrong[0]),
                                               {'path': q, 'pattern': pat, 'flags': corr.flag_names(fl), 'how': wrong[0]})
        finally:
            os.close(fd)
    return _count(ctx, label, n, {'path': 'd/dang', 'pattern': 'd/*', 'dir_fd': '<fd>'})


def bytes_dirfd_hidden(ctx, label='bytes patterns relative to a directory descriptor on a tree with hidden entries'):
    """Every pattern, as bytes and as str, through root_dir and through dir_fd: the same paths (encoded)."""
    import trees
    from wcmatch import glob as Gm
    n = bad = 0
    spec = [('a', 'd', None), ('a/x', 'f', None), ('a/.z', 'f', None), ('.h', 'd', None), ('.h/y', 'f', None), ('.h/sub', 'd', None), ('.h/sub/w', 'f', None), ('b', 'f', None), ('.c', 'f', None), ('y', 'f', None)]
    with trees.Tree(spec) as T:
        fd = os.open(T.root, os.O_RDONLY)
        try:
            for pat in ('**', '**/y', 'y', '**/', '**/*', 'a/**', '*', '.*', '**/[xyzw]', '.h/**', '**/.*'):
                for fl in (Gm.GLOBSTAR, Gm.GLOBSTAR | Gm.MATCHBASE, Gm.GLOBSTAR | Gm.MARK, Gm.GLOBSTAR | Gm.NODIR, Gm.GLOBSTAR | Gm.DOTGLOB, Gm.GLOBSTARLONG | Gm.FOLLOW):
                    n += 1
                    want = sorted(Gm.glob(pat, flags=fl, root_dir=T.root))
                    got = {'str, dir_fd': sorted(Gm.glob(pat, flags=fl, dir_fd=fd)), 'bytes, root_dir': sorted(x.decode() for x in Gm.glob(pat.encode(), flags=fl, root_dir=T.root.encode())),
                           'bytes, dir_fd': sorted(x.decode() for x in Gm.glob(pat.encode(), flags=fl, dir_fd=fd)), 'bytes iglob, dir_fd': sorted(x.decode() for x in Gm.iglob(pat.encode(), flags=fl, dir_fd=fd))}
                    wrong = [k for k, v in got.items() if v != want]
                    if wrong and bad < 4:
                        bad += 1
                        ctx.counterexample('glob(%r, %s) [%s] returns %r; with a str root_dir: %r' % (pat, corr.flag_names(fl), wrong[0], [x for x in got[wrong[0]] if x not in want][:5] or got[wrong[0]][:5], want[:8]),
                                           {'pattern': pat, 'flags': corr.flag_names(fl), 'how': wrong[0], 'tree': [x[0] for x in spec]})
        finally:
            os.close(fd)
    return _count(ctx, label, n, {'pattern': "b'**'", 'dir_fd': '<fd>'})


def filter_vs_match(ctx, rng, label='filter == one-by-one matching (every route)'):
    """fnmatch.filter / globfilter / compiled.filter keep exactly the names the single-name call accepts - for patterns with
    and without magic, groups without wildcards under EXTMATCH, REALPATH with root_dir and with dir_fd."""
    import trees
    import textgen
    from wcmatch import fnmatch as Fm, glob as Gm
    n = bad = 0
    pats = ['@(ab)', '+(ab)', '!(ab)', '?(ab)c', 'ab', 'a b', '@(a|b)', '*(a)', 'a|b', '{a,b}', '!ab', '-ab', 'AB', 'a.b', '@(ab', 'ab)', '(ab)', '@', '+', '!', '~', 'a\\b', '**', '[ab]', 'a-b'] + textgen.corpus(rng, 150 if ctx.quick else 1500)
    names = ['ab', 'abab', '@(ab)', '+(ab)', '!(ab)', 'abc', 'c', 'a', 'b', 'a b', 'AB', 'a|b', '{a,b}', '!ab', '-ab', 'a.b', '(ab)', '@(ab', 'ab)', '@', '+', '!', '~', 'ab/', 'a/b', 'a-b', 'x']
    for p in pats:
        for mod, one, flt in ((Fm, 'fnmatch', 'filter'), (Gm, 'globmatch', 'globfilter')):
            for fl in (mod.EXTMATCH, 0, mod.EXTMATCH | mod.CASE, mod.EXTMATCH | mod.NEGATE, mod.EXTMATCH | mod.BRACE | mod.SPLIT, mod.EXTMATCH | mod.IGNORECASE, mod.EXTMATCH | mod.FORCEUNIX | mod.DOTMATCH,
                       mod.MINUSNEGATE | mod.NEGATE):
                n += 1
                try:
                    want = [x for x in names if getattr(mod, one)(x, p, flags=fl)]
                    got = {flt: getattr(mod, flt)(names, p, flags=fl), 'compile().filter': mod.compile(p, flags=fl).filter(names), flt + ' of a tuple': getattr(mod, flt)(tuple(names), p, flags=fl),
                           flt + ', bytes': [x.decode() for x in getattr(mod, flt)([x.encode() for x in names], p.encode(), flags=fl)] if all(ord(c) < 128 for c in p) else want}
                except Exception as ex:
                    if bad < 4:
                        bad += 1
                        ctx.counterexample('%s / %s(%r, %s) raised %s: %s' % (one, flt, p, corr.flag_names(fl), type(ex).__name__, ex), {'pattern': p, 'flags': corr.flag_names(fl)})
                    continue
                wrong = [k for k, v in got.items() if v != want]
                if wrong and bad < 4:
                    bad += 1
                    ctx.counterexample('%s(<names>, %r, %s) keeps %r; one by one %s accepts %r' % (wrong[0], p, corr.flag_names(fl), got[wrong[0]], one, want), {'pattern': p, 'flags': corr.flag_names(fl), 'names': names, 'route': wrong[0]})
    spec = [('sub', 'd', None), ('sub/we[i]rd*na-me{1}!(x)~.txt', 'f', None), ('sub/plain.txt', 'f', None), ('top.txt', 'f', None), ('lnk', 'l', 'sub')]
    with trees.Tree(spec) as T:
        fd = os.open(T.root, os.O_RDONLY)
        fds = os.open(os.path.join(T.root, 'sub'), os.O_RDONLY)
        try:
            cands = sorted(T.entries()) + ['missing', 'sub/missing']
            for p in [Gm.escape(c) for c in cands[:6]] + ['*/*.txt', '**/*.txt', '*', 'sub/*', '**']:
                for fl in (Gm.REALPATH | Gm.GLOBSTAR, Gm.REALPATH | Gm.GLOBSTAR | Gm.FOLLOW, Gm.REALPATH | Gm.MARK):
                    n += 1
                    want = [c for c in cands if Gm.globmatch(c, p, flags=fl, root_dir=T.root)]
                    got = {'globfilter, root_dir': Gm.globfilter(cands, p, flags=fl, root_dir=T.root), 'globfilter, dir_fd': Gm.globfilter(cands, p, flags=fl, dir_fd=fd),
                           'compile().filter, dir_fd': Gm.compile(p, flags=fl).filter(cands, dir_fd=fd), 'one by one, dir_fd': [c for c in cands if Gm.globmatch(c, p, flags=fl, dir_fd=fd)],
                           'compile().match, dir_fd': [c for c in cands if Gm.compile(p, flags=fl).match(c, dir_fd=fd)],
                           'globfilter, root_dir=`sub/..` with dir_fd': Gm.globfilter(cands, p, flags=fl, root_dir='sub/..', dir_fd=fd)}
                    wrong = [k for k, v in got.items() if v != want]
                    if wrong and bad < 6:
                        bad += 1
                        ctx.counterexample('%s of %r under %s keeps %r; globmatch one by one with root_dir accepts %r' % (wrong[0], p, corr.flag_names(fl), got[wrong[0]], want), {'pattern': p, 'flags': corr.flag_names(fl), 'route': wrong[0], 'tree': [x[0] for x in spec]})
        finally:
            os.close(fd)
            os.close(fds)
    return _count(ctx, label, n, {'pattern': '@(ab)', 'flags': 'EXTMATCH', 'names': ['ab', '@(ab)']})


def copied_matchers(ctx, label='pickled / copied matchers answer like the original'):
    import copy
    import pickle
    import trees
    from wcmatch import glob as Gm, fnmatch as Fm
    n = bad = 0
    spec = [('real', 'd', None), ('real/f.txt', 'f', None), ('real/sub', 'd', None), ('real/sub/g.txt', 'f', None), ('link', 'l', 'real'), ('top.txt', 'f', None)]
    with trees.Tree(spec) as T:
        cands = T.entries_follow(4) + ['nowhere/x.txt', 'a/b/c.txt', 'ghost.txt']
        G, L, P = Gm.GLOBSTAR, Gm.FOLLOW, Gm.REALPATH
        for pat, fl, kw in (('**/*.txt', G | L | P, {}), ('**/*.txt', G | P, {}), ('***/*.txt', Gm.GLOBSTARLONG | P, {}), ('**', G | L | P | Gm.NODIR, {'exclude': '**/g*'}), ('*.txt', G | P | Gm.MATCHBASE | L, {}),
                            ('**/*.txt', G, {}), (['**/f*', '!**/sub/**'], G | L | P | Gm.NEGATE, {})):
            m = Gm.compile(pat, flags=fl, **kw)
            want = [c for c in cands if m.match(c, root_dir=T.root)]
            walk = sorted(x.rstrip('/') for x in Gm.glob(pat, flags=fl & ~P, root_dir=T.root, **kw))
            clones = {'pickle': lambda: pickle.loads(pickle.dumps(m)), 'pickle protocol 0': lambda: pickle.loads(pickle.dumps(m, 0)), 'deepcopy': lambda: copy.deepcopy(m), 'copy': lambda: copy.copy(m),
                      'pickle of its inner matcher': lambda: type(m)(pickle.loads(pickle.dumps(m._matcher))) if hasattr(m, '_matcher') else m}
            for how, mk in clones.items():
                n += 1
                try:
                    c2 = mk()
                    got = [c for c in cands if c2.match(c, root_dir=T.root)]
                    eq = (c2 == m, hash(c2) == hash(m), c2.filter(cands, root_dir=T.root) == want)
                except Exception as ex:
                    got, eq = 'raised %s: %s' % (type(ex).__name__, ex), None
                if (got != want or eq != (True, True, True)) and bad < 4:
                    bad += 1
                    ctx.counterexample('glob.compile(%r, %s%s) after %s accepts %r (equal, hash-equal, filter equal: %r); the original accepts %r (the walk returns %r)' % (
                        pat, corr.flag_names(fl), ''.join(', %s=%r' % kv for kv in kw.items()), how, got, eq, want, walk), {'pattern': pat, 'flags': corr.flag_names(fl), 'clone': how, 'tree': [list(map(str, x)) for x in spec]})
        for pat, fl in (('*.txt', Fm.IGNORECASE), ('@(a|b)*', Fm.EXTMATCH), ('!x*', Fm.NEGATE | Fm.NEGATEALL)):
            n += 1
            m = Fm.compile(pat, flags=fl)
            c2 = pickle.loads(pickle.dumps(copy.deepcopy(m)))
            names = ['a.TXT', 'b', 'x.txt', 'xa']
            if (c2 != m or [c2.match(x) for x in names] != [m.match(x) for x in names]) and bad < 4:
                bad += 1
                ctx.counterexample('fnmatch.compile(%r, %s) after deepcopy + pickle differs from the original' % (pat, corr.flag_names(fl)), {'pattern': pat, 'flags': corr.flag_names(fl)})
    return _count(ctx, label, n, {'pattern': '**/*.txt', 'flags': 'GLOBSTAR|FOLLOW|REALPATH', 'clone': 'pickle'})


DEEP2_SCRIPT = r'''
import os, sys, json, resource, tempfile, shutil
from wcmatch import glob as G
depth = int(sys.argv[1]); extra = int(sys.argv[2])
root = tempfile.mkdtemp(prefix='wcdeep2_')
try:
    for t in ('one', 'two'):
        p = os.path.join(root, t)
        os.mkdir(p)
        for i in range(depth):
            p = os.path.join(p, 'd')
            os.mkdir(p)
            open(os.path.join(p, 'f'), 'w').close()
    one, two = os.path.join(root, 'one'), os.path.join(root, 'two')
    soft, hard = resource.getrlimit(resource.RLIMIT_NOFILE)
    top = max(int(x) for x in os.listdir('/proc/self/fd'))
    resource.setrlimit(resource.RLIMIT_NOFILE, (top + 1 + extra, hard))
    out = {}
    every = ['/'.join(['d'] * k) for k in range(1, depth + 1)] + ['/'.join(['d'] * k) + '/f' for k in range(1, depth + 1)]
    out['paths'] = len(every)
    walk = set(x.rstrip('/') for x in G.glob('**', flags=G.GLOBSTAR, root_dir=one))
    acc = set(q for q in every if G.globmatch(q, '**', flags=G.GLOBSTAR | G.REALPATH, root_dir=one))
    out['walk'] = len(walk); out['matcher'] = len(acc); out['walk == matcher'] = walk == acc
    out['**/f'] = len(G.glob('**/f', flags=G.GLOBSTAR, root_dir=one))
    fd = os.open(one, os.O_RDONLY)
    out['dir_fd walk'] = len(G.glob('**', flags=G.GLOBSTAR, dir_fd=fd))
    os.close(fd)
    # a half-consumed iterator over tree one must not change what a call over tree two returns
    before = len(os.listdir('/proc/self/fd'))
    it = G.iglob('**/f', flags=G.GLOBSTAR, root_dir=one)
    first = next(it)
    out['descriptors held by a suspended iglob'] = len(os.listdir('/proc/self/fd')) - before
    out['glob over tree two meanwhile'] = len(G.glob('**/f', flags=G.GLOBSTAR, root_dir=two))
    out['second iglob meanwhile'] = len(list(G.iglob('**/f', flags=G.GLOBSTAR, root_dir=two)))
    rest = list(it)
    out['suspended iglob in the end'] = 1 + len(rest)
    resource.setrlimit(resource.RLIMIT_NOFILE, (soft, hard))
    print(json.dumps(out))
finally:
    shutil.rmtree(root, ignore_errors=True)
'''


def deep_tree_state(ctx, label='deep trees with a small descriptor budget: walk vs matcher, suspended iterators'):
    import json
    import subprocess
    import sys
    from wclib import REPO
    n = 0
    for depth, extra in ((40, 60), (48, 30)):
        n += 1
        r = subprocess.run([sys.executable, '-c', DEEP2_SCRIPT, str(depth), str(extra)], capture_output=True, text=True, env=dict(os.environ, PYTHONPATH=REPO, PYTHONHASHSEED='0'), cwd='/', timeout=300)
        try:
            out = json.loads(r.stdout.strip().splitlines()[-1])
        except Exception:
            ctx.counterexample('the deep-tree child process failed: %s' % (r.stderr or r.stdout)[-300:], {'depth': depth})
            continue
        want = {'paths': 2 * depth, 'walk': 2 * depth, 'matcher': 2 * depth, 'walk == matcher': True, '**/f': depth, 'dir_fd walk': 2 * depth, 'glob over tree two meanwhile': depth,
                'second iglob meanwhile': depth, 'suspended iglob in the end': depth}
        wrong = {k: out.get(k) for k, v in want.items() if out.get(k) != v}
        if wrong or out.get('descriptors held by a suspended iglob', 0) > 3:
            ctx.counterexample('two chains of %d nested directories (a file at every level), %d spare descriptors: %r (expected %r; descriptors held by a suspended iglob: %r)' % (
                depth, extra, wrong, {k: want[k] for k in wrong}, out.get('descriptors held by a suspended iglob')), {'depth': depth, 'spare_descriptors': extra, 'measured': out, 'script': 'glue.DEEP2_SCRIPT %d %d' % (depth, extra)})
    return _count(ctx, label, n * 9, {'depth': 40, 'spare_descriptors': 60})


def root_through_link(ctx, label='a root written through a symlink and `..`'):
    """root_dir = <link to a directory elsewhere>/.. is the parent of the link's target (the OS resolves it so)."""
    import pathlib
    import trees
    from wcmatch import glob as Gm, pathlib as PLm
    n = bad = 0
    spec = [('box', 'd', None), ('box/top.txt', 'f', None), ('box/real', 'd', None), ('box/real/f.txt', 'f', None), ('box/real/inner', 'd', None), ('box/real/inner/deep.txt', 'f', None),
            ('box/real/inner/core', 'd', None), ('box/real/inner/core/c.txt', 'f', None), ('box/lnk', 'l', 'real/inner/core')]
    with trees.Tree(spec) as T:
        box = os.path.join(T.root, 'box')
        for rootspell, phys in ((os.path.join(box, 'lnk', '..'), os.path.join(box, 'real', 'inner')), (os.path.join(box, 'lnk', '..', '..'), os.path.join(box, 'real')),
                                (os.path.join(box, 'real', '..'), box), (os.path.join(box, 'lnk', '.'), os.path.join(box, 'real', 'inner', 'core'))):
            for pat in ('*', '*/', '**/*', '*.txt', '../*', '.', '*/*'):
                for fl in (Gm.GLOBSTAR, Gm.GLOBSTAR | Gm.MARK):
                    n += 1
                    want = sorted(Gm.glob(pat, flags=fl, root_dir=phys))
                    fd = os.open(box, os.O_RDONLY)
                    try:
                        got = {'str': sorted(Gm.glob(pat, flags=fl, root_dir=rootspell)), 'bytes': sorted(os.fsdecode(x) for x in Gm.glob(os.fsencode(pat), flags=fl, root_dir=os.fsencode(rootspell))),
                               'PathLike': sorted(Gm.glob(pat, flags=fl, root_dir=pathlib.PurePath(rootspell) if '..' not in rootspell else _Raw(rootspell))),
                               'iglob': sorted(Gm.iglob(pat, flags=fl, root_dir=rootspell)),
                               'relative to dir_fd': sorted(Gm.glob(pat, flags=fl, root_dir=rootspell[len(box) + 1:], dir_fd=fd))}
                    finally:
                        os.close(fd)
                    wrong = [k for k, v in got.items() if v != want]
                    if wrong and bad < 4:
                        bad += 1
                        ctx.counterexample('glob(%r, %s, root_dir=<box>/%s) [%s] returns %r; that directory is <box>/%s, which holds %r' % (
                            pat, corr.flag_names(fl), rootspell[len(box) + 1:], wrong[0], got[wrong[0]], phys[len(box) + 1:], want),
                            {'pattern': pat, 'flags': corr.flag_names(fl), 'root': rootspell[len(box) + 1:], 'how': wrong[0], 'tree': [list(map(str, x)) for x in spec]})
    return _count(ctx, label, n, {'pattern': '*', 'root_dir': '<box>/lnk/..'})


class _Raw(os.PathLike):
    def __init__(self, p):
        self.p = p

    def __fspath__(self):
        return self.p


def pathlib_exclude(ctx, label='pathlib methods with exclude= (also empty) vs wcmatch.glob'):
    """PurePath.globmatch / full_match / match with exclude= equal glob.globmatch with the same arguments (and the inline
    NEGATE form); Path.glob / rglob with an exclude= that is present but empty equal glob.glob with the same arguments."""
    import trees
    from wcmatch import glob as Gm, pathlib as PLm
    n = bad = 0
    for cls in (PLm.PurePosixPath, PLm.PurePath):
        for q in ('a.txt', 'b.txt', '.hid', 'd/a.txt', 'd/b.py', 'x'):
            for pats, ex in ((['*.txt'], ['a.*']), ('*.txt', 'a.*'), (['*'], '.h*'), (['*/*', '*'], ['*/a.*']), ('**/*', ['**/b*']), ('*.txt', []), ('*.txt', ''), ('!a*', []), (['*', '!a*'], ()), ('*', None)):
                for fl in (0, PLm.GLOBSTAR, PLm.NEGATE, PLm.NEGATE | PLm.NEGATEALL | PLm.GLOBSTAR, PLm.DOTGLOB):
                    n += 1
                    kw = {} if ex is None else {'exclude': ex}
                    want = Gm.globmatch(q, pats, flags=fl | Gm.FORCEUNIX if cls is PLm.PurePosixPath else fl, **kw)
                    try:
                        got = {'globmatch': cls(q).globmatch(pats, flags=fl, **kw), 'full_match': cls(q).full_match(pats, flags=fl, **kw)}
                    except Exception as exn:
                        got = {'globmatch': 'raised %s: %s' % (type(exn).__name__, exn)}
                    wrong = [k for k, v in got.items() if v != want]
                    if wrong and bad < 4:
                        bad += 1
                        ctx.counterexample('%s(%r).%s(%r, %s%s) = %r; glob.globmatch with the same arguments gives %r (all: %r)' % (cls.__name__, q, wrong[0], pats, corr.flag_names(fl), '' if ex is None else ', exclude=%r' % (ex,), got[wrong[0]], want, got),
                                           {'path': q, 'patterns': pats, 'exclude': repr(ex), 'flags': corr.flag_names(fl), 'method': wrong[0]})
    spec = [('x', 'f', None), ('y', 'f', None), ('!x', 'f', None), ('sub', 'd', None), ('sub/x', 'f', None), ('sub/!x', 'f', None), ('-y', 'f', None)]
    with trees.Tree(spec) as T:
        old = os.getcwd()
        os.chdir(T.root)
        try:
            for pat in ('!x', '*', ['*', '!x'], '!*', 'x', '-y', ['*', '-y']):
                for fl in (Gm.NEGATE, Gm.NEGATE | Gm.GLOBSTAR, Gm.NEGATE | Gm.NEGATEALL, Gm.NEGATE | Gm.MINUSNEGATE, 0):
                    for ex in ([], (), '', None, ['y'], 'y'):
                        n += 1
                        kw = {} if ex is None else {'exclude': ex}
                        want = sorted(Gm.glob(pat, flags=fl, root_dir=T.root, **kw))
                        rec = (lambda p_: p_ if isinstance(p_, str) else list(p_))
                        try:
                            got = sorted(os.path.relpath(str(p_), T.root) for p_ in PLm.Path(T.root).glob(rec(pat), flags=fl, **kw))
                            gotr = sorted(os.path.relpath(str(p_), T.root) for p_ in PLm.Path('.').rglob(rec(pat), flags=fl, **kw))
                            mt = sorted(q for q in T.entries() if isinstance(pat, str) and not fl & Gm.NEGATEALL and PLm.Path(q).match(pat, flags=fl | PLm.REALPATH, **kw)) if isinstance(pat, str) and not fl & Gm.NEGATEALL else gotr
                        except Exception as exn:
                            got = gotr = mt = 'raised %s: %s' % (type(exn).__name__, exn)
                        if (got != want or mt != gotr) and bad < 8:
                            bad += 1
                            ctx.counterexample('Path.glob(%r, %s%s) yields %r; glob.glob with the same arguments returns %r (rglob yields %r, match(REALPATH) accepts %r)' % (
                                pat, corr.flag_names(fl), '' if ex is None else ', exclude=%r' % (ex,), got, want, gotr, mt), {'pattern': pat, 'flags': corr.flag_names(fl), 'exclude': repr(ex), 'tree': [x[0] for x in spec]})
        finally:
            os.chdir(old)
    return _count(ctx, label, n, {'path': 'a.txt', 'patterns': ['*.txt'], 'exclude': ['a.*'], 'method': 'full_match'})


def translate_lists(ctx, label='translate vs match for pattern strings that expand to several patterns'):
    """One pattern string that BRACE / SPLIT expand into alternatives of different shapes (with and without a separator,
    under MATCHBASE), and bytes lists made of exclusions only under NEGATEALL: the translated regexes, applied with
    fullmatch, decide like the matcher; every regex has the string type of the patterns."""
    import re
    from wcmatch import glob as Gm, fnmatch as Fm
    n = bad = 0
    names = ['src/notes.txt', 'notes.txt', 'docs/index.md', 'a/docs/index.md', 'x/y/z.txt', 'index.md', 'b.py', 'tmp/b.py', 'a/tmp/c', '.h.txt', 'q/.h.txt']
    cases = [('docs/index.md|*.txt', Gm.MATCHBASE | Gm.SPLIT), ('{docs/index.md,*.txt}', Gm.MATCHBASE | Gm.BRACE), ('*.txt|docs/index.md', Gm.MATCHBASE | Gm.SPLIT), ('{*.md,x/y/*.txt,*.py}', Gm.MATCHBASE | Gm.BRACE | Gm.GLOBSTAR),
             ('a/**|*.py|docs/*', Gm.MATCHBASE | Gm.SPLIT | Gm.GLOBSTAR), ('docs/index.md|!*.txt|*', Gm.MATCHBASE | Gm.SPLIT | Gm.NEGATE), ('{a/b,c}|{d,e/f}.txt', Gm.MATCHBASE | Gm.SPLIT | Gm.BRACE),
             ('docs/index.md|*.txt', Gm.SPLIT), (['docs/index.md', '*.txt'], Gm.MATCHBASE), ('x/y/*|*.txt', Gm.MATCHBASE | Gm.SPLIT | Gm.DOTGLOB), ('**/tmp/**|*.md', Gm.SPLIT | Gm.GLOBSTAR | Gm.MATCHBASE)]
    for pat, fl in cases:
        for isb in (False, True):
            n += 1
            cv = (lambda z: [i.encode() for i in z] if isinstance(z, list) else z.encode()) if isb else (lambda z: z)
            try:
                inc, exc = Gm.translate(cv(pat), flags=fl | Gm.FORCEUNIX)
                ri, re_ = [re.compile(r) for r in inc], [re.compile(r) for r in exc]
                got = [x for x in names if any(r.fullmatch(cv(x)) for r in ri) and not any(r.fullmatch(cv(x)) for r in re_)]
                want = [x for x in names if Gm.globmatch(cv(x), cv(pat), flags=fl | Gm.FORCEUNIX)]
            except Exception as ex:
                got, want = 'raised %s: %s' % (type(ex).__name__, ex), None
            if got != want and bad < 4:
                bad += 1
                ctx.counterexample('glob.translate(%r, %s)%s applied with fullmatch accepts %r; globmatch accepts %r' % (pat, corr.flag_names(fl), ' (bytes)' if isb else '', got, want), {'pattern': pat, 'flags': corr.flag_names(fl), 'bytes': isb, 'names': names})
    NA = Fm.NEGATE | Fm.NEGATEALL
    for mod, pl, fl in ((Fm, [b'!*.txt'], NA), (Fm, (b'!*.txt', b'!a*'), NA), (Gm, [b'!**/tmp/**'], NA | Gm.GLOBSTAR), (Fm, b'!*.txt', NA), (Fm, [b'-*.txt'], NA | Fm.MINUSNEGATE), (Fm, ['!*.txt'], NA), (Gm, [b'!*.txt|!b*'], NA | Gm.SPLIT),
                        (Fm, [b'*.py', b'!b*'], Fm.NEGATE), (Gm, [b'*'], Gm.NODIR), (Gm, [b'!*.txt'], NA | Gm.NODIR)):
        n += 1
        isb = isinstance(pl[0] if not isinstance(pl, bytes) else pl, bytes)
        try:
            inc, exc = mod.translate(pl, flags=fl)
            types_ok = all(isinstance(r, bytes if isb else str) for r in inc + exc)
            nm = [(x.encode() if isb else x) for x in ('b.py', 'a.txt', 'c', 'tmp/b.py', 'x/tmp/y')]
            got = [x for x in nm if any(re.compile(r).fullmatch(x) for r in inc) and not any(re.compile(r).fullmatch(x) for r in exc)] if types_ok else None
            want = [x for x in nm if (mod.fnmatch if mod is Fm else mod.globmatch)(x, pl, flags=fl)]
        except Exception as ex:
            types_ok, got, want = True, 'raised %s: %s' % (type(ex).__name__, ex), None
        if (not types_ok or got != want) and bad < 6:
            bad += 1
            ctx.counterexample('%s.translate(%r, %s) returns regexes of types %r accepting %r; the matcher accepts %r' % (mod.__name__.split('.')[-1], pl, corr.flag_names(fl), [type(r).__name__ for r in inc + exc] if 'inc' in dir() else None, got, want),
                               {'patterns': repr(pl), 'flags': corr.flag_names(fl)})
    return _count(ctx, label, n, {'pattern': 'docs/index.md|*.txt', 'flags': 'MATCHBASE|SPLIT'})


def odd_os_states(ctx, label='walks under odd OS states: over-long names, closed descriptors'):
    """Only documented errors come out of a walk, whatever the state around it: the walk returns what it can reach."""
    import tempfile
    import shutil
    from wcmatch import glob as Gm, pathlib as PLm
    n = 0

    def run(what, th, ok=lambda r: True):
        nonlocal n
        n += 1
        try:
            r = th()
        except (TypeError, ValueError, SyntaxError) as ex:
            ctx.counterexample('%s raised %s: %s' % (what, type(ex).__name__, str(ex)[:80]), {'call': what})
            return
        except Exception as ex:
            ctx.counterexample('%s raised %s: %s (an OS error is not among the documented errors: the walk returns what it can reach)' % (what, type(ex).__name__, str(ex)[:80]), {'call': what})
            return
        if not ok(r):
            ctx.counterexample('%s returned %r' % (what, r if not isinstance(r, list) else r[:4]), {'call': what})
    run("glob('*', root_dir='x'*5000)", lambda: Gm.glob('*', root_dir='x' * 5000), lambda r: r == [])
    run("glob(b'*', root_dir=b'x'*5000)", lambda: Gm.glob(b'*', root_dir=b'x' * 5000), lambda r: r == [])
    run("glob('x'*300 + '/*')", lambda: Gm.glob('x' * 300 + '/*'), lambda r: r == [])
    run("glob('**/' + 'y'*300, GLOBSTAR)", lambda: Gm.glob('**/' + 'y' * 300, flags=Gm.GLOBSTAR, root_dir=os.path.dirname(__file__)), lambda r: r == [])
    tmp = tempfile.mkdtemp(prefix='wclong_')
    try:
        p = tmp
        nm = 'n' * 242
        try:
            for i in range(24):          # the full path grows beyond PATH_MAX: built with relative steps
                os.mkdir(os.path.join(p, nm)) if len(p) < 3800 else None
                if len(p) >= 3800:
                    fdp = os.open(p, os.O_RDONLY)
                    try:
                        os.mkdir(nm, dir_fd=fdp)
                    finally:
                        os.close(fdp)
                p = os.path.join(p, nm)
        except OSError:
            pass
        run('glob(`**`, GLOBSTAR) over a tree deeper than PATH_MAX', lambda: Gm.glob('**', flags=Gm.GLOBSTAR, root_dir=tmp), lambda r: len(r) >= 10)
        run('Path.rglob(`*n`) over a tree deeper than PATH_MAX', lambda: list(PLm.Path(tmp).rglob('*n')), lambda r: len(r) >= 10)
        fd = os.open(tmp, os.O_RDONLY)
        os.close(fd)
        run('glob(`**/*.txt`, GLOBSTAR, dir_fd=<closed descriptor>)', lambda: Gm.glob('**/*.txt', flags=Gm.GLOBSTAR, dir_fd=fd), lambda r: r == [])
        fd2 = os.open(tmp, os.O_RDONLY)
        it = Gm.iglob('**', flags=Gm.GLOBSTAR, dir_fd=fd2)

        def closed_midway():
            out = [next(it)]
            os.close(fd2)
            out += list(it)
            return out
        run('iglob(`**`, GLOBSTAR, dir_fd=fd) with the descriptor closed after the first result', closed_midway, lambda r: len(r) >= 1)
    finally:
        # remove the over-long tree bottom-up with relative steps
        try:
            shutil.rmtree(tmp)
        except OSError:
            os.system('rm -rf %s' % tmp)
    return _count(ctx, label, n, {'call': "glob('*', root_dir='x'*5000)"})


def wcmatch_every_flag(ctx, label='WcMatch under every flag word, foreign flags included'):
    """Every subset-of-two of the module's flags constructs and walks without an undocumented error; a flag the module does
    not have (glob.FORCEWIN, FORCEUNIX, NODIR ... given through a shared flag word) is ignored: the result is the result
    without it - matching stays case-sensitive on this platform."""
    import itertools
    import trees
    from wcmatch import wcmatch as WMm, glob as Gm
    n = bad = 0
    spec = [('Notes.TXT', 'f', None), ('sub', 'd', None), ('sub/notes.txt', 'f', None), ('sub/NOTES.txt', 'f', None), ('Build', 'd', None), ('Build/notes.txt', 'f', None), ('build', 'd', None), ('build/Notes.txt', 'f', None), ('.hid', 'f', None), ('a.py', 'f', None)]
    own = [getattr(WMm, k) for k in ('CASE', 'IGNORECASE', 'RAWCHARS', 'EXTMATCH', 'BRACE', 'RECURSIVE', 'FILEPATHNAME', 'DIRPATHNAME', 'HIDDEN', 'SYMLINKS', 'GLOBSTAR', 'MATCHBASE', 'MINUSNEGATE', 'GLOBSTARLONG') if hasattr(WMm, k)]
    with trees.Tree(spec) as T:
        rel = lambda xs: sorted(os.path.relpath(x, T.root) for x in xs)
        for a, b in itertools.combinations_with_replacement(own, 2):
            for fp, ep in (('*.txt', None), ('*.txt', 'build'), ('notes.txt|*.py', 'sub')):
                n += 1
                try:
                    WMm.WcMatch(T.root, fp, ep, flags=a | b | WMm.RECURSIVE).match()
                    WMm.WcMatch(T.root.encode(), fp.encode(), None if ep is None else ep.encode(), flags=a | b).match()
                except Exception as ex:
                    if bad < 4:
                        bad += 1
                        ctx.counterexample('WcMatch(root, %r, %r, flags=%#x).match() raised %s: %s' % (fp, ep, a | b | WMm.RECURSIVE, type(ex).__name__, str(ex)[:80]), {'file_pattern': fp, 'exclude_pattern': ep, 'flags': a | b})
        foreign = [f for f in (Gm.FORCEWIN, Gm.FORCEUNIX, Gm.FORCEWIN | Gm.FORCEUNIX, Gm.NODIR, Gm.MARK, Gm.REALPATH, Gm.NOUNIQUE, Gm.SPLIT, Gm.NEGATEALL, Gm.DOTGLOB) if f & ~WMm.FLAG_MASK == f]
        for fg in foreign:
            for base in (WMm.RECURSIVE, WMm.RECURSIVE | WMm.HIDDEN, WMm.RECURSIVE | WMm.FILEPATHNAME | WMm.GLOBSTAR, 0):
                for fp, ep in (('notes.txt', None), ('notes.txt', 'build'), ('*.txt', 'Build'), ('**/notes.txt' if base & WMm.FILEPATHNAME else 'n*', None)):
                    n += 1
                    want = rel(WMm.WcMatch(T.root, fp, ep, flags=base).match())
                    got = rel(WMm.WcMatch(T.root, fp, ep, flags=base | fg).match())
                    gotb = sorted(os.fsdecode(os.path.relpath(x, T.root.encode())) for x in WMm.WcMatch(T.root.encode(), fp.encode(), None if ep is None else ep.encode(), flags=base | fg).match())
                    if (got != want or gotb != want) and bad < 8:
                        bad += 1
                        ctx.counterexample('WcMatch(root, %r, %r, flags=%#x | glob.%s) returns %r (bytes %r); without the flag, which this module does not have: %r' % (fp, ep, base, corr.flag_names(fg), got, gotb, want),
                                           {'file_pattern': fp, 'exclude_pattern': ep, 'flags': base, 'foreign_flag': corr.flag_names(fg), 'tree': [x[0] for x in spec]})
    return _count(ctx, label, n, {'file_pattern': 'notes.txt', 'flags': 'RECURSIVE | glob.FORCEWIN'})


def list_is_union(ctx, label='pattern lists whose members name files as directories'):
    """glob of a list / `a|b` / `{a,b}` is the union of the single-pattern results (order-independent as a set); with
    NOUNIQUE their concatenation - in particular when one member is a plain name and another writes a regular file
    followed by a separator (which denotes nothing)."""
    import trees
    from wcmatch import glob as Gm, pathlib as PLm
    n = bad = 0
    spec = [('a', 'f', None), ('b', 'f', None), ('d', 'd', None), ('d/x', 'f', None), ('g', 'f', None), ('e', 'd', None)]
    with trees.Tree(spec) as T:
        singles = ['a', 'b', 'a/', 'b/', 'd', 'd/', 'a/..', 'd/..', 'a/**', 'd/**', 'g', 'e/', 'a/.', 'd/x', 'd/x/', '*', '*/']
        import itertools
        for p1, p2 in itertools.permutations(singles, 2):
            for fl in (Gm.GLOBSTAR, Gm.GLOBSTAR | Gm.NODIR, Gm.GLOBSTAR | Gm.MARK):
                n += 1
                r1, r2 = Gm.glob(p1, flags=fl, root_dir=T.root), Gm.glob(p2, flags=fl, root_dir=T.root)
                want = sorted(set(r1) | set(r2))
                got = {'list': sorted(Gm.glob([p1, p2], flags=fl, root_dir=T.root)), 'SPLIT': sorted(Gm.glob(p1 + '|' + p2, flags=fl | Gm.SPLIT, root_dir=T.root)),
                       'BRACE': sorted(Gm.glob('{%s,%s}' % (p1, p2), flags=fl | Gm.BRACE, root_dir=T.root)), 'iglob': sorted(Gm.iglob((p1, p2), flags=fl, root_dir=T.root)),
                       'bytes': sorted(x.decode() for x in Gm.glob([p1.encode(), p2.encode()], flags=fl, root_dir=T.root.encode()))}
                nu = Gm.glob([p1, p2], flags=fl | Gm.NOUNIQUE, root_dir=T.root)
                wrong = [k for k, v in got.items() if v != want]
                if nu != r1 + r2:
                    wrong.append('NOUNIQUE')
                    got['NOUNIQUE'] = nu
                # pathlib normalises `x/.` and trailing separators: compare existence only
                gp = [os.path.relpath(str(x), T.root) for x in PLm.Path(T.root).glob([p1, p2], flags=fl)]
                if any(not os.path.lexists(os.path.join(T.root, x)) for x in gp) or (not want and gp):
                    wrong.append('Path.glob')
                    got['Path.glob'] = gp
                if wrong and bad < 4:
                    bad += 1
                    ctx.counterexample('glob of %r and %r together (%s, %s) returns %r; alone they return %r and %r' % (p1, p2, wrong[0], corr.flag_names(fl), got[wrong[0]], r1, r2),
                                       {'patterns': [p1, p2], 'form': wrong[0], 'flags': corr.flag_names(fl), 'tree': [x[0] for x in spec]})
    return _count(ctx, label, n, {'patterns': ['b', 'a/'], 'tree': ['a (file)', 'b (file)']})


def interleaved_walkers(ctx, label='one WcMatch object: generators interleaved, abandoned, created and left'):
    """Each generator of one WcMatch object yields the complete result whatever other generators of the same object do in
    between; an abandoned generator leaves the object usable (not aborted); the skipped count after a run that was
    neither interleaved nor interrupted is the number of files visited and not returned."""
    import trees
    from wcmatch import wcmatch as WMm
    n = bad = 0
    spec = [('top.txt', 'f', None), ('d1', 'd', None), ('d1/a.txt', 'f', None), ('d1/b.txt', 'f', None), ('d1/c.txt', 'f', None), ('d1/n.log', 'f', None), ('d1/sub', 'd', None), ('d1/sub/x.txt', 'f', None), ('d1/sub/y.log', 'f', None),
            ('other', 'd', None), ('other/g.txt', 'f', None)]
    with trees.Tree(spec) as T:
        for fp, ep, fl in (('d1/*.txt', None, WMm.RECURSIVE | WMm.FILEPATHNAME), ('*.txt', None, WMm.RECURSIVE), ('**/*.txt', 'd1/sub', WMm.RECURSIVE | WMm.FILEPATHNAME | WMm.DIRPATHNAME | WMm.GLOBSTAR), ('*.txt', 'other', WMm.RECURSIVE)):
            fresh = WMm.WcMatch(T.root, fp, ep, flags=fl)
            full = fresh.match()
            skipped = fresh.get_skipped()
            scenarios = []

            def s_interleave():
                w = WMm.WcMatch(T.root, fp, ep, flags=fl)
                g1, g2 = w.imatch(), w.imatch()
                first = [next(g1)] if full else []
                r2 = list(g2)
                r1 = first + list(g1)
                return (sorted(r1), sorted(r2)), (sorted(full), sorted(full))

            def s_lockstep():
                w = WMm.WcMatch(T.root, fp, ep, flags=fl)
                g1, g2 = w.imatch(), w.imatch()
                r1, r2 = [], []
                for a_, b_ in zip(g1, g2):
                    r1.append(a_)
                    r2.append(b_)
                return (sorted(r1), sorted(r2)), (sorted(full), sorted(full))

            def s_abandon_break():
                w = WMm.WcMatch(T.root, fp, ep, flags=fl)
                for f_ in w.imatch():
                    break
                import gc
                gc.collect()
                return (w.is_aborted(), sorted(w.match()), sorted(w.imatch()), w.get_skipped()), (False, sorted(full), sorted(full), skipped)

            def s_abandon_close():
                w = WMm.WcMatch(T.root, fp, ep, flags=fl)
                it = w.imatch()
                next(it, None)
                next(it, None)
                it.close()
                return (w.is_aborted(), sorted(w.match()), w.get_skipped()), (False, sorted(full), skipped)

            def s_created_not_advanced():
                w = WMm.WcMatch(T.root, fp, ep, flags=fl)
                r = w.match()
                p_ = w.imatch()      # never advanced: nothing has run
                return (sorted(r), w.get_skipped()), (sorted(full), skipped)

            def s_created_then_run():
                w = WMm.WcMatch(T.root, fp, ep, flags=fl)
                p_ = w.imatch()
                w.match()
                r = list(p_)
                return (sorted(r), w.get_skipped()), (sorted(full), skipped)
            for sc in (s_interleave, s_lockstep, s_abandon_break, s_abandon_close, s_created_not_advanced, s_created_then_run):
                n += 1
                try:
                    got, want = sc()
                except Exception as ex:
                    got, want = 'raised %s: %s' % (type(ex).__name__, ex), None
                if got != want and bad < 6:
                    bad += 1
                    ctx.counterexample('WcMatch(root, %r, %r, flags=%#x), scenario %s: %r, a fresh object gives %r' % (fp, ep, fl, sc.__name__[2:], got, want), {'file_pattern': fp, 'exclude_pattern': ep, 'flags': fl, 'scenario': sc.__name__[2:], 'tree': [x[0] for x in spec]})
    return _count(ctx, label, n, {'file_pattern': 'd1/*.txt', 'flags': 'RECURSIVE|FILEPATHNAME', 'scenario': 'interleave'})


def cross_thread_kill(ctx, label='kill() and reset() from another thread; hooks that raise'):
    import threading
    import trees
    from wcmatch import wcmatch as WMm
    n = bad = 0
    spec = [('a.txt', 'f', None), ('b.txt', 'f', None), ('c.log', 'f', None), ('sub', 'd', None), ('sub/d.txt', 'f', None), ('sub/e.txt', 'f', None), ('sub/deep', 'd', None), ('sub/deep/f.txt', 'f', None), ('.h.txt', 'f', None)]
    with trees.Tree(spec) as T:
        full = WMm.WcMatch(T.root, '*.txt', flags=WMm.RECURSIVE | WMm.HIDDEN).match()

        def in_thread(fn):
            t = threading.Thread(target=fn)
            t.start()
            t.join()
        for k in range(len(full) + 1):
            n += 1
            w = WMm.WcMatch(T.root, '*.txt', flags=WMm.RECURSIVE | WMm.HIDDEN)
            it = w.imatch()
            got = [next(it) for _ in range(k)]
            in_thread(w.kill)                     # the consumer is parked between two results
            rest = list(it)
            state = (w.is_aborted(), w.match())
            in_thread(w.reset)
            after = w.match()
            if (rest or state != (True, []) or after != full) and bad < 4:
                bad += 1
                ctx.counterexample('kill() from another thread after %d of %d results: %d more results came out, (is_aborted, match()) = %r; after reset() from another thread match() %s the complete result' % (
                    k, len(full), len(rest), (state[0], state[1][:2]), 'returns' if after == full else 'does not return'), {'results_before_kill': k, 'tree': [x[0] for x in spec]})
        # a raising on_match: the exception reaches the caller, the file is handed to no other hook, nothing is counted as skipped
        for k in range(len(full)):
            n += 1
            calls = []

            class R(WMm.WcMatch):
                def on_match(self, base, name):
                    calls.append(('match', name))
                    if len([c for c in calls if c[0] == 'match']) == k + 1:
                        raise RuntimeError('boom')
                    return os.path.join(base, name)

                def on_skip(self, base, name):
                    calls.append(('skip', name))

                def on_error(self, base, name):
                    calls.append(('error', name))
            w = R(T.root, '*.txt', flags=WMm.RECURSIVE | WMm.HIDDEN)
            out, raised = [], None
            try:
                for v in w.imatch():
                    out.append(v)
            except RuntimeError as ex:
                raised = str(ex)
            bad_name = [c[1] for c in calls if c[0] == 'match'][k] if len([c for c in calls if c[0] == 'match']) > k else None
            twice = [c for c in calls if c[1] == bad_name and c[0] != 'match']
            if (raised != 'boom' or out != full[:k] or twice) and bad < 8:
                bad += 1
                ctx.counterexample('on_match raising on its call number %d: exception seen by the caller: %r, yielded %d values (the undisturbed run yields %d before that file), the same file was also handed to %r' % (
                    k + 1, raised, len(out), k, twice), {'raise_at_match_call': k + 1, 'tree': [x[0] for x in spec]})
    return _count(ctx, label, n, {'kill_from': 'another thread', 'results_before_kill': 2})


def windows_path_case(ctx, label='pure Windows path objects under CASE / IGNORECASE vs glob.globmatch(FORCEWIN)'):
    from wcmatch import glob as Gm, pathlib as PLm
    n = bad = 0
    for q in ('Docs/ReadMe.TXT', 'docs/readme.txt', 'C:/Docs/a.TXT', 'a/B/c.Py'):
        for pat in ('docs/readme.txt', 'Docs/ReadMe.TXT', 'docs/*.txt', '*/*.TXT', 'c:/docs/*', 'C:/Docs/*.TXT', 'A/b/*.py', '**/*.py', 'readme.txt', '*.TXT'):
            for fl in (0, PLm.CASE, PLm.IGNORECASE, PLm.CASE | PLm.IGNORECASE, PLm.GLOBSTAR | PLm.CASE, PLm.GLOBSTAR):
                for kw in ({}, {'exclude': 'docs/readme.txt'}, {'exclude': '*/*.txt'}):
                    n += 1
                    want = Gm.globmatch(q.replace('/', '\\'), pat, flags=fl | Gm.FORCEWIN, **kw)
                    got = {'globmatch': PLm.PureWindowsPath(q).globmatch(pat, flags=fl, **kw), 'full_match': PLm.PureWindowsPath(q).full_match(pat, flags=fl, **kw)}
                    wm = Gm.globmatch(q, pat, flags=fl | Gm.FORCEWIN | Gm._EXTMATCHBASE, **kw) if hasattr(Gm, '_EXTMATCHBASE') else None
                    wrong = [k for k, v in got.items() if v != want]
                    if wrong and bad < 4:
                        bad += 1
                        ctx.counterexample('PureWindowsPath(%r).%s(%r, %s%s) = %r; glob.globmatch under FORCEWIN with the same flags gives %r' % (q, wrong[0], pat, corr.flag_names(fl), ''.join(', %s=%r' % kv for kv in kw.items()), got[wrong[0]], want),
                                           {'path': q, 'pattern': pat, 'flags': corr.flag_names(fl), 'method': wrong[0]})
        # right-anchored match: case rule only (the anchoring is C16's business)
        for fl, same in ((PLm.CASE, False), (0, True), (PLm.CASE | PLm.IGNORECASE, False), (PLm.IGNORECASE, True)):
            n += 1
            last = q.split('/')[-1]
            other = last.swapcase()
            got = (PLm.PureWindowsPath(q).match(last, flags=fl), PLm.PureWindowsPath(q).match(other, flags=fl))
            if got != (True, same) and bad < 6:
                bad += 1
                ctx.counterexample('PureWindowsPath(%r).match(%r / %r, %s) = %r: case is %s there' % (q, last, other, corr.flag_names(fl), got, 'ignored' if same else 'significant (CASE wins)'), {'path': q, 'flags': corr.flag_names(fl)})
    return _count(ctx, label, n, {'path': 'Docs/ReadMe.TXT', 'pattern': 'docs/readme.txt', 'flags': 'CASE'})


class _BytesName(os.PathLike):
    def __init__(self, p):
        self.p = p

    def __fspath__(self):
        return self.p


def pathlike_names(ctx, label='path-like names and roots carrying str or bytes'):
    """A path-like object stands for what its __fspath__ returns - str or bytes - in every route, REALPATH included."""
    import trees
    from wcmatch import glob as Gm, fnmatch as Fm
    n = bad = 0
    spec = [('a.txt', 'f', None), ('b.py', 'f', None), ('d', 'd', None), ('d/c.txt', 'f', None)]
    with trees.Tree(spec) as T:
        for q in ('a.txt', 'b.py', 'd/c.txt', 'd', 'missing'):
            for pat in ('*.txt', '**/*.txt', '*', 'd/'):
                for fl in (Gm.REALPATH | Gm.GLOBSTAR, Gm.GLOBSTAR, Gm.REALPATH | Gm.GLOBSTAR | Gm.MARK):
                    n += 1
                    want = Gm.globmatch(q, pat, flags=fl, root_dir=T.root)
                    thunks = {'str path-like': lambda: Gm.globmatch(_BytesName(q), pat, flags=fl, root_dir=T.root), 'bytes': lambda: Gm.globmatch(q.encode(), pat.encode(), flags=fl, root_dir=T.root.encode()),
                              'bytes path-like': lambda: Gm.globmatch(_BytesName(q.encode()), pat.encode(), flags=fl, root_dir=T.root.encode()),
                              'bytes path-like, path-like root': lambda: Gm.globmatch(_BytesName(q.encode()), pat.encode(), flags=fl, root_dir=_BytesName(T.root.encode())),
                              'compiled, bytes path-like': lambda: bool(Gm.compile(pat.encode(), flags=fl).match(_BytesName(q.encode()), root_dir=T.root.encode())),
                              'filter, bytes path-likes': lambda: len(Gm.compile(pat.encode(), flags=fl).filter([_BytesName(q.encode())], root_dir=T.root.encode())) == 1,
                              'globfilter, str path-likes': lambda: len(Gm.globfilter([_BytesName(q)], pat, flags=fl, root_dir=T.root)) == 1}
                    for how, th in thunks.items():
                        try:
                            got = th()
                        except Exception as ex:
                            got = 'raised %s: %s' % (type(ex).__name__, ex)
                        if got != want and bad < 4:
                            bad += 1
                            ctx.counterexample('globmatch(<%s %r>, %r, %s) = %r; for the plain str name the answer is %r' % (how, q, pat, corr.flag_names(fl), got, want), {'name': q, 'pattern': pat, 'flags': corr.flag_names(fl), 'how': how})
                            break
        n += 1
        gotf = sorted(os.fsdecode(e.p) for e in Fm.filter([_BytesName(x.encode()) for x in ('a.txt', 'b.py')], b'*.txt'))
        gots = sorted(e.p for e in Fm.filter([_BytesName(x) for x in ('a.txt', 'b.py')], '*.txt'))
        if gotf != ['a.txt'] or gots != ['a.txt']:
            ctx.counterexample('fnmatch.filter of path-likes carrying bytes keeps %r, carrying str %r: a.txt is the one name that matches' % (gotf, gots), {'how': 'fnmatch.filter of path-likes'})
    return _count(ctx, label, n, {'name': "PathLike(b'a.txt')", 'pattern': "b'*.txt'", 'flags': 'REALPATH'})


def rawchars_glue(ctx, label='RAWCHARS through the glue: WcMatch arguments, one-shot iterables of patterns'):
    import trees
    from wcmatch import fnmatch as Fm, glob as Gm, wcmatch as WMm, pathlib as PLm
    n = bad = 0
    R = Fm.RAWCHARS
    with trees.Tree([('A', 'f', None), ('B', 'f', None), ('d', 'd', None), ('d/A', 'f', None)]) as T:
        for badp in ('\\x', '\\x4', '\\u004', '\\U0000004', '\\N', '\\N{DIGIT ONE', 'skip|\\x4'):
            for fl in (WMm.RAWCHARS, WMm.RAWCHARS | WMm.RECURSIVE, WMm.RAWCHARS | WMm.HIDDEN):
                for which in ('exclude pattern', 'file pattern'):
                    for isb in (False, True):
                        if isb and ('\\u' in badp or '\\U' in badp or '\\N' in badp):
                            continue
                        n += 1
                        cv = (lambda z: z.encode()) if isb else (lambda z: z)
                        args = (cv('*'), cv(badp)) if which == 'exclude pattern' else (cv(badp), None)
                        try:
                            WMm.WcMatch(cv(T.root), *args, flags=fl).match()
                            got = 'no exception'
                        except SyntaxError:
                            got = 'SyntaxError'
                        except Exception as ex:
                            got = type(ex).__name__
                        if got != 'SyntaxError' and bad < 4:
                            bad += 1
                            ctx.counterexample('WcMatch(root, %s = %r, flags=%#x RAWCHARS%s): %s; an incomplete escape raises SyntaxError' % (which, badp, fl, ', bytes' if isb else '', got), {'which': which, 'pattern': badp, 'flags': fl, 'bytes': isb})
            n += 1
            try:
                WMm.WcMatch(T.root, '*', badp, flags=0).match()
            except Exception as ex:
                ctx.counterexample('WcMatch(root, `*`, %r) without RAWCHARS raised %s' % (badp, type(ex).__name__), {'pattern': badp})
        names = ['A', 'B', 'A/b', 'C']
        for raw, dec, fl in ((['\\x41'], ['A'], R), (['\\x41', 'B'], ['A', 'B'], R), (['B'], ['B'], R), (['B', '\\x41'], ['A', 'B'], R), (['A\\/b'], ['A/b'], Gm.FORCEWIN), (['B', 'A\\/b'], ['B', 'A/b'], Gm.FORCEWIN), (['\\u0041|C'], ['A|C'], R | Fm.SPLIT)):
            for mod, one, flt in ((Fm, 'fnmatch', 'filter'), (Gm, 'globmatch', 'globfilter')):
                if mod is Fm and fl & Gm.FORCEWIN:
                    continue     # `\\/` in fnmatch mode under Windows rules: a known oddity outside this law
                n += 1
                base = fl & ~R
                want = [x for x in names if getattr(mod, one)(x, dec, flags=base)]
                thunks = {'list': lambda: [x for x in names if getattr(mod, one)(x, list(raw), flags=fl)], 'iterator': lambda: [x for x in names if getattr(mod, one)(x, iter(raw), flags=fl)],
                          'generator': lambda: [x for x in names if getattr(mod, one)(x, (p for p in raw), flags=fl)], 'filter, iterator': lambda: getattr(mod, flt)(names, iter(raw), flags=fl),
                          'compile, generator': lambda: [x for x in names if mod.compile((p for p in raw), flags=fl).match(x)], 'exclude= iterator': lambda: [x for x in names if not getattr(mod, one)(x, '**' if mod is Gm else '*', flags=fl | (Gm.GLOBSTAR if mod is Gm else 0), exclude=iter(raw))],
                          'PurePath.globmatch, iterator': lambda: [x for x in names if PLm.PurePosixPath(x).globmatch(iter(raw), flags=fl & ~Gm.FORCEWIN)] if mod is Gm and not fl & Gm.FORCEWIN else want,
                          'translate, iterator': lambda: want if mod.translate(iter(raw), flags=fl) == mod.translate(list(raw), flags=fl) else 'differs from the list form'}
                for how, th in thunks.items():
                    try:
                        got = th()
                    except Exception as ex:
                        got = 'raised %s: %s' % (type(ex).__name__, ex)
                    if got != want and bad < 8:
                        bad += 1
                        ctx.counterexample('%s(<names>, <%s of %r>, %s) accepts %r; the decoded patterns %r accept %r' % (one, how, raw, corr.flag_names(fl), got, dec, want), {'patterns': raw, 'carrier': how, 'flags': corr.flag_names(fl), 'decoded': dec})
                        break
    return _count(ctx, label, n, {'patterns': "iter(['\\\\x41'])", 'flags': 'RAWCHARS'})


def limit_zero(ctx, label='limit=0 and large expansions through the convenience layers'):
    import trees
    from wcmatch import fnmatch as Fm, glob as Gm, wcmatch as WMm, pathlib as PLm, _wcparse as W
    n = bad = 0
    big = 'f{1..1200}'
    with trees.Tree([('f7.txt', 'f', None), ('sub', 'd', None), ('sub/f1001.txt', 'f', None), ('f1150', 'f', None)]) as T:
        calls = {"fnmatch('f1150', big, BRACE, limit=0)": (lambda: Fm.fnmatch('f1150', big, flags=Fm.BRACE, limit=0), True), "filter(['f1150','g'], big, BRACE, limit=0)": (lambda: Fm.filter(['f1150', 'g'], big, flags=Fm.BRACE, limit=0), ['f1150']),
                 "compile([big], BRACE, limit=0, exclude='f{5..1100}').match('f1150')": (lambda: bool(Fm.compile([big], flags=Fm.BRACE, limit=0, exclude='f{5..1100}').match('f1150')), True),
                 "fnmatch('f7', [big, '!f{5..1100}'], BRACE|NEGATE, limit=0)": (lambda: Fm.fnmatch('f7', [big, '!f{5..1100}'], flags=Fm.BRACE | Fm.NEGATE, limit=0), False),
                 "globmatch('f1150', big, BRACE, limit=0)": (lambda: Gm.globmatch('f1150', big, flags=Gm.BRACE, limit=0), True), "globfilter(['f1150'], big, BRACE, limit=0)": (lambda: Gm.globfilter(['f1150'], big, flags=Gm.BRACE, limit=0), ['f1150']),
                 "translate(big, BRACE, limit=0) has 1200 regexes": (lambda: len(Fm.translate(big, flags=Fm.BRACE, limit=0)[0]), 1200), "glob(big, BRACE, limit=0)": (lambda: Gm.glob(big, flags=Gm.BRACE, limit=0, root_dir=T.root), ['f1150']),
                 "PurePath('f1150').globmatch(big, BRACE, limit=0)": (lambda: PLm.PurePath('f1150').globmatch(big, flags=PLm.BRACE, limit=0), True), "Path.glob(big, BRACE, limit=0)": (lambda: [x.name for x in PLm.Path(T.root).glob(big, flags=PLm.BRACE, limit=0)], ['f1150']),
                 "WcMatch(root, 1001 names joined by |, RECURSIVE, limit=0)": (lambda: sorted(os.path.relpath(x, T.root) for x in WMm.WcMatch(T.root, '|'.join('f%d.txt' % i for i in range(1, 1002)), flags=WMm.RECURSIVE, limit=0).match()), ['f7.txt', 'sub/f1001.txt']),
                 "WcMatch(root, 'f{1..1001}.txt', BRACE|RECURSIVE, limit=0)": (lambda: sorted(os.path.relpath(x, T.root) for x in WMm.WcMatch(T.root, 'f{1..1001}.txt', flags=WMm.RECURSIVE | WMm.BRACE, limit=0).match()), ['f7.txt', 'sub/f1001.txt']),
                 "WcMatch(root, '*', 1001-piece folder exclusion, RECURSIVE, limit=0)": (lambda: sorted(os.path.relpath(x, T.root) for x in WMm.WcMatch(T.root, '*.txt', '|'.join('x%d' % i for i in range(1001)), flags=WMm.RECURSIVE, limit=0).match()), ['f7.txt', 'sub/f1001.txt']),
                 "WcMatch bytes, limit=0": (lambda: len(WMm.WcMatch(T.root.encode(), b'|'.join(b'f%d.txt' % i for i in range(1, 1002)), flags=WMm.RECURSIVE, limit=0).match()), 2)}
        for what, (th, want) in calls.items():
            n += 1
            try:
                got = th()
            except W.PatternLimitException:
                got = 'PatternLimitException'
            except Exception as ex:
                got = 'raised %s' % type(ex).__name__
            if got != want and bad < 6:
                bad += 1
                ctx.counterexample('%s gives %r (big = %r): limit=0 disables the limit; expected %r' % (what, got, big, want), {'call': what})
        # and the default still applies where no limit is given
        for what, th in (("fnmatch('f1', big, BRACE)", lambda: Fm.fnmatch('f1', big, flags=Fm.BRACE)), ("WcMatch(root, 'f{1..1001}.txt', BRACE)", lambda: WMm.WcMatch(T.root, 'f{1..1001}.txt', flags=WMm.BRACE).match())):
            n += 1
            try:
                th()
                ctx.counterexample('%s did not raise PatternLimitException (default limit 1000)' % what, {'call': what})
            except W.PatternLimitException:
                pass
    return _count(ctx, label, n, {'call': "fnmatch('f1150', 'f{1..1200}', BRACE, limit=0)"})


def emptied_brackets(ctx, label='bracket expressions left empty by reversed ranges, on every byte / many code points'):
    """`[b-a]` matches nothing and `[!b-a]` any single character - for str on code points up to U+2FF and astral ones, for
    bytes on every byte value."""
    from wcmatch import fnmatch as Fm, glob as Gm
    n = bad = 0
    for pat, want in (('[b-a]', False), ('[!b-a]', True), ('[^z-a9-0]', True), ('x[!b-a]', True), ('[b-a]*', False), ('@([!b-a])', True), ('[!b-a][!9-0]', True)):
        for fl in (Fm.DOTMATCH | Fm.EXTMATCH, Fm.DOTMATCH | Fm.EXTMATCH | Fm.IGNORECASE, Fm.DOTMATCH | Fm.EXTMATCH | Fm.FORCEUNIX):
            k = 2 if pat == '[!b-a][!9-0]' else 1
            pre = 'x' if pat.startswith('x') else ''
            cs, cb = Fm.compile(pat, flags=fl), Fm.compile(pat.encode(), flags=fl)
            gs, gb = Gm.compile(pat, flags=fl), Gm.compile(pat.encode(), flags=fl)
            for o in list(range(1, 0x300)) + [0x1f600, 0x10ffff, 0xdc80]:
                if o in (47, 46):
                    continue     # the separator; `.` and `..` as whole segments are C03's business
                n += 1
                nm = pre + chr(o) * k
                got = [bool(cs.match(nm)), bool(gs.match(nm))]
                if o < 256:
                    bn = pre.encode() + bytes([o]) * k
                    got += [bool(cb.match(bn)), bool(gb.match(bn))]
                if any(g != want for g in got) and bad < 4:
                    bad += 1
                    ctx.counterexample('%r against the character U+%04X%s: (fnmatch str, globmatch str%s) = %r; the bracket expression is empty after its reversed ranges are dropped, so the answer is %r' % (
                        pat, o, ' / the byte %#x' % o if o < 256 else '', ', fnmatch bytes, globmatch bytes' if o < 256 else '', got, want), {'pattern': pat, 'code_point': o, 'flags': corr.flag_names(fl)})
    return _count(ctx, label, n, {'pattern': "b'[!b-a]'", 'name': "b'\\xe9'"})


def escape_default_platform(ctx, rng, label='escape() with the platform argument omitted'):
    """On this host (not Windows) glob.escape(s) == glob.escape(s, unix=None) == glob.escape(s, unix=True), for str and bytes;
    the escaped string matches s and none of its neighbours obtained by instantiating a metacharacter."""
    import sys
    from wcmatch import glob as Gm
    n = bad = 0
    assert not sys.platform.startswith('win')
    strs = ['//a*/b?/c', '//tmp/w[c]xxxx/file', '//srv/sh(a)re/x', '\\\\\\\\a*\\\\b?\\\\c', 'c:/x*', 'C:\\\\a[b]', '//?/c:/x*', '//a/b', '/a*/b', 'a*', '//a!/b-/c~', '//a|b/c{d}/e', '~user/*', '//./pipe/x?']
    toks = ['//', '/', 'a', 'b', '*', '?', '[', ']', '(', ')', '!', '-', '~', '|', '{', '}', 'c:', '\\\\']
    for _ in range(300 if ctx.quick else 3000):
        strs.append(''.join(rng.choice(toks) for _ in range(rng.randint(2, 7))))
    for s in strs:
        n += 1
        a, b, c = Gm.escape(s), Gm.escape(s, unix=None), Gm.escape(s, unix=True)
        ab = Gm.escape(s.encode())
        if not (a == b == c and ab == c.encode()) and bad < 4:
            bad += 1
            ctx.counterexample('glob.escape(%r) = %r, with unix=None %r, bytes %r; on this host it is the Unix form %r' % (s, a, b, ab, c), {'string': s, 'default': a, 'unix_true': c})
            continue
        if '\\\\' in s or not s.strip('/'):
            continue
        try:
            ok = Gm.globmatch(s, a, flags=Gm.DOTGLOB | Gm.EXTGLOB | Gm.BRACE | Gm.GLOBTILDE if False else Gm.DOTGLOB | Gm.EXTGLOB)
            other = s.replace('*', 'zz').replace('?', 'q').replace('[c]', 'c').replace('[b]', 'b')
            leak = other != s and Gm.globmatch(other, a, flags=Gm.DOTGLOB | Gm.EXTGLOB)
        except Exception as ex:
            ok, leak = 'raised %s' % type(ex).__name__, False
        if (ok is not True or leak) and bad < 4:
            bad += 1
            ctx.counterexample('glob.escape(%r) = %r: globmatch of the string itself is %r%s' % (s, a, ok, '; it also matches %r' % other if leak else ''), {'string': s, 'escaped': a})
    return _count(ctx, label, n, {'string': '//a*/b?/c'})


def lazy_walk_tree_change(ctx, label='a lazy walk over a tree that changes between two results'):
    """iglob is lazy: what a later pattern of the list (or a later run of the same Glob object) lists is the tree as it is
    then - a directory that has meanwhile become a symlink is met by `**` but not traversed."""
    import trees
    from wcmatch import glob as Gm
    n = 0
    spec = [('real', 'd', None), ('real/x', 'f', None), ('real/sub', 'd', None), ('real/sub/z', 'f', None), ('target', 'd', None), ('target/t', 'f', None)]
    for how in ('iglob over a list', 'iglob over SPLIT', 'Glob object run twice', 'iglob, bytes'):
        for fl in (Gm.GLOBSTAR, Gm.GLOBSTAR | Gm.MARK, Gm.GLOBSTAR | Gm.NOUNIQUE):
            n += 1
            with trees.Tree(spec) as T:
                listed = []
                real_scandir = os.scandir

                def spy(p='.'):
                    listed.append(p)
                    return real_scandir(p)

                def swap():
                    os.unlink(os.path.join(T.root, 'real', 'sub', 'z'))
                    os.rmdir(os.path.join(T.root, 'real', 'sub'))
                    os.symlink('../target', os.path.join(T.root, 'real', 'sub'))
                os.scandir = spy
                try:
                    if how == 'Glob object run twice':
                        g = Gm.Glob('**', flags=fl | Gm.NOUNIQUE, root_dir=T.root)
                        list(g.glob())
                        swap()
                        del listed[:]
                        rest = [x for x in g.glob()]
                    else:
                        cv = (lambda z: z.encode()) if how == 'iglob, bytes' else (lambda z: z)
                        pats = cv('real/x|**') if how == 'iglob over SPLIT' else [cv('real/x'), cv('**')]
                        it = Gm.iglob(pats, flags=fl | (Gm.SPLIT if how == 'iglob over SPLIT' else 0), root_dir=cv(T.root))
                        first = next(it)
                        swap()
                        del listed[:]
                        rest = [os.fsdecode(x) for x in it]
                finally:
                    os.scandir = real_scandir
                through = [x for x in rest if x.rstrip('/').startswith('real/sub/')]
                scanned_link = [p for p in listed if isinstance(p, (str, bytes)) and os.fsdecode(p).rstrip('/').endswith('real/sub')]
                missing = [x for x in ('real/sub', 'target/t') if x not in [y.rstrip('/') for y in rest]]
                if through or scanned_link or missing:
                    ctx.counterexample('%s (%s): after `real/sub` was replaced by a symlink to `../target`, the remaining results are %r - %s' % (
                        how, corr.flag_names(fl), rest, 'paths through the symlink: %r' % through if through else ('the symlink was listed with scandir' if scanned_link else 'missing: %r' % missing)),
                        {'how': how, 'flags': corr.flag_names(fl), 'tree': [x[0] for x in spec], 'change': 'real/sub becomes a symlink to ../target after the first result'})
    return _count(ctx, label, n, {'patterns': ['real/x', '**'], 'change': 'real/sub -> ../target after the first result'})
