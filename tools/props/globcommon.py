"""Shared machinery of the glob-family checks (C04, C05, C06, C12, C13, C16)."""
import os
import signal
import corr
import astgen
import trees
import specwalk
from wclib import Model, dec, enc, import_impl

CFG_KEYS = ('dot', 'globstar', 'globstarlong', 'follow', 'scandotdir', 'matchbase', 'nodir', 'icase')


def cfg_flags(c, Gm, ext):
    return ((Gm.DOTGLOB if c['dot'] else 0) | (Gm.GLOBSTAR if c['globstar'] else 0) | (Gm.GLOBSTARLONG if c['globstarlong'] else 0) |
            (Gm.FOLLOW if c['follow'] else 0) | (Gm.SCANDOTDIR if c['scandotdir'] else 0) | (Gm.MATCHBASE if c['matchbase'] else 0) |
            (Gm.NODIR if c['nodir'] else 0) | (Gm.EXTGLOB if ext else 0) | (Gm.IGNORECASE if c.get('icase') else 0))


def mkcfg(**kw):
    c = dict(dot=False, globstar=True, globstarlong=False, follow=False, scandotdir=False, matchbase=False, nodir=False, icase=False)
    c.update(kw)
    return c


CFGS = [mkcfg(), mkcfg(dot=True), mkcfg(globstar=False), mkcfg(scandotdir=True), mkcfg(matchbase=True), mkcfg(nodir=True),
        mkcfg(globstarlong=True), mkcfg(follow=True), mkcfg(globstarlong=True, follow=True, matchbase=True), mkcfg(dot=True, scandotdir=True), mkcfg(icase=True)]


def has_dir_cycle(root):
    """a symlink to a directory that is an ancestor of (or equal to) the link's own directory"""
    for dp, dns, fns in os.walk(root, followlinks=False):
        for n in dns + fns:
            p = os.path.join(dp, n)
            if os.path.islink(p) and os.path.isdir(p):
                real = os.path.realpath(p)
                if os.path.realpath(dp).startswith(real):
                    return True
    return False


class Alarm(Exception):
    pass


ALARMS = {'n': 0}


def with_alarm(seconds, thunk):
    """Run thunk under a wall-clock alarm.  After three alarms in one run every further call fails at once: a walker
    that does not terminate is reported by the first ones; exploring on would only multiply the waiting time."""
    if ALARMS['n'] >= 3:
        raise Alarm()

    def onalarm(*a):
        raise Alarm()
    old = signal.signal(signal.SIGALRM, onalarm)
    signal.alarm(seconds if ALARMS['n'] == 0 else 3)
    try:
        return thunk()
    except Alarm:
        ALARMS['n'] += 1
        raise
    finally:
        signal.alarm(0)
        signal.signal(signal.SIGALRM, old)


def patterns_for(rng, n, long_=True):
    """(ppat wire, pattern text) pairs, relative patterns only"""
    g = astgen.Gen(rng, lits='abx.', path=True)
    pps = sorted(set(g.ppat(long_=long_) for _ in range(n)))
    pps = [p for p in pps if p.startswith('r:')]
    # hand-picked shapes every run should see
    pps += ['r:s:t', 'r:g:t', 'r:g/s:t', 'r:l61/g:t', 'r:s/s:t', 'r:l2e/s:t', 'r:l2e.l2e/s:t', 'r:l2e.s:t', 'r:s.l2e.l74.l78.l74:t', 'r:g/l61:t',
            'r:s/g/s:T', 'r:G:t', 'r:l61/G/s:t', 'r:q:t', 'r:s:T', 'r:g/l2e.l68:t', 'r:b0[c61,c62]/s:t',
            # a written dot heading a group alternative, then a wildcard: `.` and `..` stay out
            'r:xA(l2e.s):t', 'r:s/xA(l2e.q;l78):t', 'r:g/xA(l2e.s):t', 'r:xQ(l2e.s).s:t', 'r:xP(l2e.q;l61)/s:t', 'r:xA(l2e.s)/s:T']
    m = Model()
    outs = m.run(['pden 0 0 0 1 0 0 %s []' % p for p in pps])
    return [(p, dec(o.split(' ')[0])) for p, o in zip(pps, outs)]


def hid(p):
    return any(c.startswith('.') for c in p.split('/'))


def seg_lists(pp):
    return [sg.split('.') if sg not in ('g', 'G') else [sg] for sg in pp.split(':')[1].split('/')]


def group_first(pp):
    return any(sg.startswith('x') for sg in pp.split(':')[1].split('/'))


def group_then_wild(pp):
    """a segment that starts with an extended group and has a wildcard (or another group) after it"""
    return any(gtw_seq(t) for t in top_tokens(pp))


def tok_can_be_empty(t):
    if t == 's':
        return True
    if t.startswith('x'):
        if t[1] in 'QSN':
            return True
        return any(all(tok_can_be_empty(u) for u in split_top(alt, '.') if u) for alt in split_top(t[3:-1], ';'))
    return False


def group_segment_can_be_empty(pp):
    """a segment that starts with an extended group and consists of parts that can all match the empty string"""
    return any(t and t[0].startswith('x') and all(tok_can_be_empty(u) for u in t) for t in top_tokens(pp))


def negated_group_lists_dot(pp):
    """a segment that starts with `!(...)` one of whose alternatives starts with a written dot"""
    for toks in top_tokens(pp):
        if toks and toks[0].startswith('xN('):
            for alt in split_top(toks[0][3:-1], ';'):
                first = split_top(alt, '.')[0] if alt else ''
                if first in ('l2e', 'e2e'):
                    return True
    return False


def gtw_seq(toks):
    if not toks or not toks[0].startswith('x'):
        return False
    if any(u[0] in 'sqbx' or u in ('l2e', 'e2e') for u in toks[1:]):
        return True      # (a written dot after the group is left unguarded in the same way: `*(a)\.` accepts the entry `.`)
    # the same shape inside an alternative of the leading group
    inner = toks[0][3:-1]
    return any(gtw_seq(split_top(alt, '.')) for alt in split_top(inner, ';'))


def top_tokens(pp):
    """per segment, the top-level tokens (a group with its alternatives is one token)"""
    out = []
    for sg in split_top(pp.split(':', 1)[1].rsplit(':', 1)[0], '/'):
        out.append([sg] if sg in ('g', 'G') else split_top(sg, '.'))
    return out


def split_top(s, sep):
    parts, depth, cur = [], 0, ''
    for ch in s:
        if ch in '([':
            depth += 1
        elif ch in ')]':
            depth -= 1
        if ch == sep and depth == 0:
            parts.append(cur)
            cur = ''
        else:
            cur += ch
    parts.append(cur)
    return parts


def star_then_wild(pp):
    """a segment that begins with `*` directly followed by a wildcard (`?`, bracket, group) - also when that beginning
    stands inside an alternative of a group which itself begins the segment (`+(*?|x)`, `@(*)?a`)"""
    return any(stw_seq(t) for t in top_tokens(pp))


def stw_seq(toks):
    if len(toks) >= 2 and toks[0] == 's' and toks[1][0] in 'qbx':
        return True
    if toks and toks[0].startswith('x'):
        for alt in split_top(toks[0][3:-1], ';'):
            at = [u for u in split_top(alt, '.') if u]
            # the alternative, continued by what follows the group - and by the group itself again when it repeats
            again = [toks[0]] if toks[0][1] in 'SP' else []
            if stw_seq(at + toks[1:]) or (again and stw_seq(at + again)):
                return True
    return False


def dot_literal_alt(pp):
    """a group alternative that is literally `.` or `..` (treated by the code as a literal dot-directory pattern)"""
    import re
    return bool(re.search(r'[(;](l2e|e2e)(\.(l2e|e2e))?[;)]', pp))


def run_spec_search(ctx, rng, ntrees, npats, on_case=None, cfgs=CFGS, tree_size=(5, 14)):
    """The C05 search: glob() result set between the lower and upper bound of the reference interpretation.
    on_case(T, pp, pattern, cfg, flags, got_list, lb, ub, sw) lets other properties reuse the same runs."""
    import_impl()
    from wcmatch import glob as Gm
    evals = 0
    nontriv = set()
    samples = []
    known = {}
    extra_pats = [('r:g/s.l2e.l74.l78.l74:t', '**/*.txt'), ('r:s.l2e.l74.l78.l74:t', '*.txt'), ('r:G/s.l2e.l74.l78.l74:t', '***/*.txt'),
                  ('r:g/l78/G:t', '**/x/***'), ('r:l73.l75.l62:T', 'sub/'), ('r:l73.s:T', 's*/'), ('r:g/l78/g:t', '**/x/**'),
                  ('r:l70.q/l6c.l6e.l6b/s:t', 'p?/lnk/*'), ('r:g/l66:t', '**/f'), ('r:l64.l61.l74.l61/s.l2e.l74.l78.l74:t', 'data/*.txt'), ('r:l61/s:t', 'a/*'),
                  ('r:g/l61/g/l78:t', '**/a/**/x'), ('r:g/l61/g:t', '**/a/**'), ('r:g/s/g/s:t', '**/*/**/*')]
    for t in range(len(trees.DESIGNED) + ntrees):
        spec = trees.DESIGNED[t] if t < len(trees.DESIGNED) else trees.random_spec(rng, size=rng.randint(*tree_size))
        with trees.Tree(spec) as T:
            cyc = has_dir_cycle(T.root)
            for pp, pattern in (patterns_for(rng, npats) + extra_pats):
                for c in cfgs:
                    if cyc and (c['follow'] or c['globstarlong']):
                        continue
                    fv = cfg_flags(c, Gm, 'x' in pp)
                    try:
                        got_list = with_alarm(10, lambda: Gm.glob(pattern, flags=fv, root_dir=T.root))
                    except Alarm:
                        ctx.counterexample('glob(%r, %s) did not terminate within 10 s on a tree without followed cycles' % (pattern, corr.flag_names(fv)),
                                           {'pattern': pattern, 'flags': corr.flag_names(fv), 'tree': spec})
                        continue
                    sw = specwalk.SpecWalker(T.root, **c)
                    lb, ub = sw.glob(pp)
                    got = set(x.rstrip('/') for x in got_list)
                    if c.get('icase'):
                        # under IGNORECASE paths differing only in case are one path (C13): compare modulo case
                        got, lb, ub = set(x.lower() for x in got), set(x.lower() for x in lb), set(x.lower() for x in ub)
                    evals += 1
                    if got and lb != ub or (got and len(got) < len(T.entries())):
                        nontriv.add((t, pattern, fv))
                    missing, extra = lb - got, got - ub
                    if dot_literal_alt(pp):
                        extra = set(x for x in extra if not any(s in ('.', '..') for s in x.split('/')))
                    if missing or extra:
                        # each side of the difference must be explained by a listed finding (two may meet in one pattern)
                        kid_x = None
                        if extra:
                            if all(hid(x) for x in extra) and group_then_wild(pp):
                                kid_x = 'C03-group-then-wild'
                            elif c.get('dot') and all(any(sg in ('.', '..') for sg in x.split('/')) for x in extra) and negated_group_lists_dot(pp):
                                kid_x = 'C03-negated-group-dotted-alternative'
                            elif all(hid(x) for x in extra) and star_then_wild(pp):
                                kid_x = 'C03-star-guard-inside-optional'
                            elif group_segment_can_be_empty(pp):
                                kid_x = 'C02-group-segment-empty'
                            elif c['matchbase'] and c['follow'] and c['globstarlong'] and \
                                    all(sg in ('g', 'G') for sg in pp.split(':')[1].split('/')) and len(pp.split(':')[1].split('/')) > 1:
                                kid_x = 'C05-matchbase-merged-globstars'
                        kid_m = None
                        if missing and any(sg.startswith(('xS', 'xP')) for sg in pp.split(':')[1].split('/')) and \
                                all(any('.' in part[1:] for part in x.split('/')) for x in missing):
                            # a repeated group at the start of a segment re-applies its dot guard on later iterations
                            kid_m = 'C01-group-dot-guard-repeat'
                        ok_x = (not extra) or (kid_x and ctx.is_known(lambda e, k=kid_x: e['id'] == k))
                        ok_m = (not missing) or (kid_m and ctx.is_known(lambda e, k=kid_m: e['id'] == k))
                        if ok_x and ok_m:
                            if extra:
                                known.setdefault(kid_x, (pattern, corr.flag_names(fv), sorted(extra)[:3]))
                            if missing:
                                known.setdefault(kid_m, (pattern, corr.flag_names(fv), 'nothing for %r' % sorted(missing)[:3]))
                        else:
                            ctx.counterexample(
                                'glob(%r, %s): %s' % (pattern, corr.flag_names(fv),
                                                      ('missing %r ' % sorted(missing)[:4] if missing else '') +
                                                      ('returned %r which the segment-wise reading does not denote' % sorted(extra)[:4] if extra else '')),
                                {'pattern': pattern, 'ppat': pp, 'flags': corr.flag_names(fv), 'tree': spec, 'missing': sorted(missing)[:10],
                                 'extra': sorted(extra)[:10]})
                    if on_case:
                        on_case(T, spec, pp, pattern, c, fv, got_list, lb, ub, sw)
            if len(samples) < 3:
                samples.append({'tree': spec[:8], 'pattern': pattern})
    return evals, len(nontriv), samples, known


def gsplit_corr(ctx, rng, name='_GlobSplit.split parts (Unix rules)'):
    """Coq GlobSplit.gsplit vs glob._GlobSplit(p, flags).split(): exact part lists (text, is_magic, is_globstar,
    is_globstarlong, dir_only, is_drive) or ValueError."""
    from wclib import strings_upto
    F = corr.fl
    pats = list(strings_upto('a*/\\[]!(|)@.-', 3 if ctx.quick else 5))
    toks = ['**', '***', '/', '\\/', '\\\\', 'a', 'b', '.', '*', '?', '[', ']', '[a/b]', '[!a]', '[[:alpha:]]', '@(', '!(', '+(', ')', '|', '{', '}', '~', '-', '!', '//', '\\']
    for _ in range(4000 if ctx.quick else 60000):
        pats.append(''.join(rng.choice(toks) for _ in range(rng.randint(2, 9))))
    pats = sorted(set(pats))
    fs = [F('PATHNAME'), F('PATHNAME', 'EXTMATCH', 'GLOBSTAR'), F('PATHNAME', 'GLOBSTAR', 'GLOBSTARLONG', 'MATCHBASE', 'FOLLOW'),
          F('PATHNAME', 'EXTMATCH', 'NEGATE', '_EXTMATCHBASE', 'GLOBSTAR'), F('PATHNAME', '_NOABSOLUTE', 'BRACE', 'SPLIT', 'GLOBTILDE'),
          F('PATHNAME', 'EXTMATCH', 'NEGATE', 'MINUSNEGATE', 'MATCHBASE', 'GLOBSTARLONG'), F('PATHNAME', 'GLOBSTARLONG', 'EXTMATCH', 'MATCHBASE')]
    res = corr.corr_gsplit(pats, fs)
    ctx.corr(name, res)
    # a splitter that raises anything but the documented ValueError on some pattern is a failing input by itself
    for d in res.get('disagreements', []):
        if str(d.get('impl', '')).startswith('EXC '):
            ctx.counterexample('glob._GlobSplit(%r, %s).split() raises %s (globbing with this pattern raises an undocumented error)' % (
                d.get('pattern'), d.get('flag_names', d.get('flags')), d['impl'][4:]), {'pattern': d.get('pattern'), 'flags': d.get('flag_names', d.get('flags')), 'error': d['impl'][4:]})
            break
    return res


def mixed_abs_rel(ctx, rng, ntrees=3):
    """Lists mixing absolute and relative patterns (root_dir != cwd): each pattern is interpreted on its own - the result
    is the union of the single-pattern results whatever the order.  Returns the number of evaluations."""
    import trees
    from wcmatch import glob as Gm
    n = 0
    rels = ['*', 'sub/*', '*/*', 'a*', 'SUB/F*', '**/f*', 'other/', 'top', 'sub']
    spec = [('sub', 'd', None), ('sub/f1', 'f', None), ('sub/f2', 'f', None), ('other', 'd', None), ('other/g', 'f', None), ('top', 'f', None), ('a1', 'f', None)]
    for ti in range(ntrees):
        sp = spec if ti == 0 else trees.random_spec(rng, size=rng.randint(5, 10))
        with trees.Tree(sp) as T:
            if has_dir_cycle(T.root):
                continue
            for _ in range(24):
                k = rng.randint(2, 3)
                pats = [rng.choice(rels) for _ in range(k)]
                which = rng.randrange(k)
                pats[which] = os.path.join(T.root, pats[which])
                fv = Gm.GLOBSTAR | rng.choice([0, Gm.IGNORECASE, Gm.MARK, Gm.NOUNIQUE, Gm.BRACE])
                n += 1
                try:
                    res = Gm.glob(pats, flags=fv, root_dir=T.root)
                    singles = [Gm.glob(p, flags=fv, root_dir=T.root) for p in pats]
                except Exception as e:
                    ctx.counterexample('glob(%r) raised %s' % (pats, type(e).__name__), {'patterns': pats, 'tree': sp})
                    continue
                want = set(x for sres in singles for x in sres)
                if set(res) != want:
                    rel = [p.replace(T.root, '<root>') for p in pats]
                    ctx.counterexample('glob(%r, %#x, root_dir=<root>): differs from the union of its single patterns; missing %r, extra %r' % (
                        rel, fv, sorted(x.replace(T.root, '<root>') for x in want - set(res))[:4], sorted(x.replace(T.root, '<root>') for x in set(res) - want)[:4]),
                        {'patterns': rel, 'flags': fv, 'tree': sp, 'absolute_index': which})
    return n


def frontends_equiv(ctx, rng):
    """The same walk through every way of addressing the tree and every front end: `dir_fd=` vs `root_dir=` (also when
    the directory to list is a symlink), `iglob` vs `glob`, `pathlib.Path.glob` vs `glob.glob` (SCANDOTDIR kept), and
    pickled / copied REALPATH matchers vs the original.  Returns the number of evaluations."""
    import copy
    import pickle
    import trees
    from wcmatch import glob as Gm, pathlib as PLm
    n = 0
    pats = [('vis/*', 0), ('*/x.txt', 0), ('vis/**', Gm.GLOBSTAR), ('**/*.txt', Gm.GLOBSTAR | Gm.FOLLOW), ('***/*.txt', Gm.GLOBSTARLONG), ('*/', 0),
            ('vis/x.txt', 0), ('**/vis/*.txt', Gm.GLOBSTAR), ('*', Gm.MARK), ('p1/lnk/*', 0), ('*/lnk/x/*', 0), ('p/a/q/*', 0), ('p/*/q/**', Gm.GLOBSTAR),
            ('.*', Gm.SCANDOTDIR), ('*/.*', Gm.SCANDOTDIR), ('.*/', Gm.SCANDOTDIR), ('.*', Gm.SCANDOTDIR | Gm.DOTGLOB), ('.*', 0), ('**/.*', Gm.GLOBSTAR | Gm.SCANDOTDIR)]
    for spec in (trees.DESIGNED[0], trees.DESIGNED[4], trees.DESIGNED[5], trees.DESIGNED[2]):
        with trees.Tree(spec) as T:
            fd = os.open(T.root, os.O_RDONLY)
            try:
                for pat, fl in pats:
                    n += 1
                    a = sorted(Gm.glob(pat, flags=fl, root_dir=T.root))
                    b = sorted(Gm.glob(pat, flags=fl, dir_fd=fd))
                    c_ = sorted(Gm.iglob(pat, flags=fl, root_dir=T.root))
                    if not (a == b == c_):
                        ctx.counterexample('glob(%r, %s): root_dir gives %r, dir_fd %r, iglob %r' % (pat, corr.flag_names(fl), a[:6], b[:6], c_[:6]),
                                           {'pattern': pat, 'flags': corr.flag_names(fl), 'tree': spec})
                        continue
                    # pathlib: same entries (as paths); `.`/`..` results keep their spelling through joinpath only partly,
                    # so compare the multiset of normalised strings
                    if not pat.endswith('/'):
                        pl = sorted(os.path.normpath(str(x)) for x in PLm.Path(T.root).glob(pat, flags=fl & PLm.FLAG_MASK | (fl & Gm.SCANDOTDIR)))
                        want = sorted(os.path.normpath(os.path.join(T.root, x)) for x in a)
                        if (fl & Gm.SCANDOTDIR) or not any(s in ('.', '..') for x in a for s in x.split('/')):
                            if sorted(set(pl)) != sorted(set(want)):
                                ctx.counterexample('Path.glob(%r, %s) = %r but glob.glob gives %r' % (
                                    pat, corr.flag_names(fl), [p_.replace(T.root, '<root>') for p_ in pl][:6], [p_.replace(T.root, '<root>') for p_ in want][:6]),
                                    {'pattern': pat, 'flags': corr.flag_names(fl), 'tree': spec})
                # clones of REALPATH matchers answer like the original on every entry (also through links)
                ents = T.entries_follow(3)
                for pat, fl in (('**/*.txt', Gm.GLOBSTAR), ('vis/**', Gm.GLOBSTAR), ('**/x*', Gm.GLOBSTAR | Gm.MATCHBASE), ('**', Gm.GLOBSTAR | Gm.FOLLOW), ('p/**/x', Gm.GLOBSTAR)):
                    m0 = Gm.compile(pat, flags=fl | Gm.REALPATH)
                    for how, m1 in (('pickle', pickle.loads(pickle.dumps(m0))), ('deepcopy', copy.deepcopy(m0)), ('copy', copy.copy(m0))):
                        n += 1
                        bad = [e for e in ents if m0.match(e, root_dir=T.root) != m1.match(e, root_dir=T.root)]
                        if bad or m0 != m1 or m0.filter(ents, root_dir=T.root) != m1.filter(ents, root_dir=T.root):
                            ctx.counterexample('a %s of glob.compile(%r, %s|REALPATH) answers differently on %r' % (how, pat, corr.flag_names(fl), bad[:4]),
                                               {'pattern': pat, 'flags': corr.flag_names(fl), 'how': how, 'tree': spec, 'paths': bad[:6]})
            finally:
                os.close(fd)
    return n


def spelling_equiv(ctx, rng, ntrees=3, npats=30):
    """A run of separators in the pattern - `//`, an escaped `\\/`, mixtures, also after `**` - counts as one, and a final
    backslash that escapes nothing is ignored: the walk returns the same paths, and globmatch with REALPATH accepts the
    same candidates, as for the pattern with every separator written once.  Returns the number of evaluations."""
    import trees
    from props import common
    from wcmatch import glob as Gm
    n = 0
    found = 0
    pats = [t for _, t in patterns_for(rng, npats)] + ['**/**/*', 'sub/**/**/f*', '*/', '*/*/', '**/', 'sub/', '**/**/']
    for ti in range(ntrees):
        sp = trees.DESIGNED[ti % len(trees.DESIGNED)] if ti % 2 == 0 else trees.random_spec(rng, size=rng.randint(5, 12), cycles=False)
        with trees.Tree(sp) as T:
            if has_dir_cycle(T.root):
                continue
            cands = sorted(T.entries())
            for p in pats:
                for fv in (Gm.GLOBSTAR, Gm.GLOBSTAR | Gm.DOTGLOB | Gm.MARK, Gm.GLOBSTAR | Gm.EXTGLOB | Gm.GLOBSTARLONG):
                    try:
                        want = sorted(Gm.glob(p, flags=fv, root_dir=T.root))
                        wantm = [c for c in cands if Gm.globmatch(c, p, flags=fv | Gm.REALPATH, root_dir=T.root)]
                    except Exception:
                        continue
                    for v in common.separator_respellings(p, rng, k=2):
                        n += 1
                        try:
                            got = sorted(Gm.glob(v, flags=fv, root_dir=T.root))
                            gotm = [c for c in cands if Gm.globmatch(c, v, flags=fv | Gm.REALPATH, root_dir=T.root)]
                        except Exception as e:
                            got, gotm = 'EXC %s' % type(e).__name__, None
                        if got != want and found < 3:
                            found += 1
                            ctx.counterexample('glob(%r, %s) = %r but %r, the same pattern with every separator written once, gives %r' % (
                                v, corr.flag_names(fv), got if isinstance(got, str) else got[:6], p, want[:6]),
                                {'pattern': v, 'same_as': p, 'flags': corr.flag_names(fv), 'tree': sp})
                        elif gotm is not None and gotm != wantm and found < 3:
                            found += 1
                            ctx.counterexample('globmatch(.., %r, %s|REALPATH) accepts %r but for %r, the same pattern with every separator written once, %r' % (
                                v, corr.flag_names(fv), gotm[:6], p, wantm[:6]),
                                {'pattern': v, 'same_as': p, 'flags': corr.flag_names(fv), 'tree': sp})
    return n


def unclosed_group_paths(ctx):
    """An extended group that is never closed is plain text: the separators after its `(` split the pattern into segments
    for the walker exactly as they do for the matcher (also when a `[` stands between them).  Walk == REALPATH matcher
    on a tree whose names contain such text.  Returns the number of evaluations."""
    import trees
    from wcmatch import glob as Gm
    n = 0
    spec = [('@(a', 'd', None), ('@(a/[b', 'f', None), ('@(a/b', 'f', None), ('+(x[y]', 'd', None), ('+(x[y]/z', 'f', None), ('+(xy', 'd', None), ('+(xy/z', 'f', None),
            ('plain', 'f', None), ('!(q', 'd', None), ('!(q/[', 'f', None)]
    with trees.Tree(spec) as T:
        cands = sorted(T.entries())
        for p in ('@(a/[b', '@(a/*', '@(a/[b]', '+(x[y]/z', '+(x[y]/*', '!(q/[', '*/[b', '@(a/[[]b', '?(a/[b', '@(a/[b|plain'):
            for fv in (Gm.EXTGLOB, Gm.EXTGLOB | Gm.GLOBSTAR | Gm.SPLIT, Gm.EXTGLOB | Gm.DOTGLOB | Gm.MARK):
                n += 1
                try:
                    got = sorted(x.rstrip('/') for x in Gm.glob(p, flags=fv, root_dir=T.root))
                    want = [c for c in cands if Gm.globmatch(c, p, flags=fv | Gm.REALPATH, root_dir=T.root)]
                except Exception as e:
                    ctx.counterexample('glob / globmatch(%r, %s) raised %s' % (p, corr.flag_names(fv), type(e).__name__), {'pattern': p, 'flags': corr.flag_names(fv), 'tree': spec})
                    continue
                if got != want:
                    ctx.counterexample('glob(%r, %s) = %r but globmatch(REALPATH) accepts %r (an unclosed group is plain text for the walker as for the matcher)' % (
                        p, corr.flag_names(fv), got, want), {'pattern': p, 'flags': corr.flag_names(fv), 'tree': spec})
    return n


def inert_arguments(ctx, rng, ntrees=3):
    """Arguments that cannot change the answer do not change it: an `exclude=` pattern that matches nothing (alone and
    together with NODIR, MARK, NOUNIQUE, MATCHBASE, FOLLOW, REALPATH), the root directory written with a trailing
    separator, NOUNIQUE on a single pattern.  Walk, REALPATH matcher (candidates also through links), compiled matcher.
    Returns the number of evaluations."""
    import trees
    from wcmatch import glob as Gm
    n = 0
    found = 0
    pats = [t for _, t in patterns_for(rng, 10)] + ['*', '**', '**/*.txt', '*/', 'vis/**', '**/x*', 'sub', 'real/', '*/*', '**/data.txt', 'p1/**/f', '*/lnk/**']
    for ti in range(ntrees):
        sp = trees.DESIGNED[[0, 4, 2, 6, 5, 1][ti % 6]]
        with trees.Tree(sp) as T:
            if has_dir_cycle(T.root):
                continue
            cands = sorted(set(T.entries()) | set(T.entries_follow(3)))
            for p in pats:
                for fv in (Gm.GLOBSTAR, Gm.GLOBSTAR | Gm.NODIR, Gm.GLOBSTAR | Gm.MARK | Gm.DOTGLOB, Gm.GLOBSTAR | Gm.MATCHBASE, Gm.GLOBSTAR | Gm.FOLLOW,
                           Gm.GLOBSTAR | Gm.NODIR | Gm.NEGATE, Gm.GLOBSTAR | Gm.EXTGLOB | Gm.NOUNIQUE):
                    try:
                        want = Gm.glob(p, flags=fv, root_dir=T.root)
                        wantm = [c for c in cands if Gm.globmatch(c, p, flags=fv | Gm.REALPATH, root_dir=T.root)]
                    except Exception:
                        continue
                    variants = [('exclude= that matches nothing', dict(flags=fv, root_dir=T.root, exclude='zz-no-such-name*')),
                                ('exclude= list that matches nothing', dict(flags=fv, root_dir=T.root, exclude=['zz-none', '*/zz-none/**'])),
                                ('root_dir with a trailing separator', dict(flags=fv, root_dir=T.root + '/')),
                                ('NOUNIQUE on a single pattern', dict(flags=fv | Gm.NOUNIQUE, root_dir=T.root)),
                                ('an empty pattern before it in the list', dict(flags=fv, root_dir=T.root, _pats=['', p])),
                                ('an empty pattern after it in a tuple', dict(flags=fv, root_dir=T.root, _pats=(p, '')))]
                    for how, kw in variants:
                        n += 1
                        kw = dict(kw)
                        p_arg = kw.pop('_pats', p)
                        if p_arg is not p and (fv & (Gm.MATCHBASE | Gm.NEGATE)):
                            continue
                        try:
                            got = Gm.glob(p_arg, **kw)
                            if how == 'NOUNIQUE on a single pattern' and not fv & Gm.NOUNIQUE:
                                # a walk can reach one path by two routes (`**/[ab]/**` through `a` and through `a/b`): NOUNIQUE keeps
                                # the repeats, that is what it is for - the paths themselves, in order of first appearance, are the same
                                got = list(dict.fromkeys(got))
                            kwm = dict(kw, flags=kw['flags'] | Gm.REALPATH)
                            gotm = [c for c in cands if Gm.globmatch(c, p_arg, **kwm)]
                            gotc = [c for c in cands if Gm.compile(p_arg, flags=kwm['flags'], **({'exclude': kw['exclude']} if 'exclude' in kw else {})).match(c, root_dir=kw['root_dir'])]
                        except Exception as e:
                            got, gotm, gotc = 'EXC %s' % type(e).__name__, None, None
                        if (got != want or gotm != wantm or gotc != wantm) and found < 4:
                            found += 1
                            what = 'glob' if got != want else ('globmatch(REALPATH)' if gotm != wantm else 'compile().match(REALPATH)')
                            a_, b_ = (got, want) if got != want else ((gotm, wantm) if gotm != wantm else (gotc, wantm))
                            ctx.counterexample('%s(%r, %s) with %s: %r; without: %r' % (what, p, corr.flag_names(fv), how,
                                               a_ if isinstance(a_, str) else [x for x in a_ if x not in b_][:4] or a_[:4], [x for x in b_ if isinstance(a_, str) or x not in a_][:4] or b_[:4]),
                                               {'pattern': p, 'flags': corr.flag_names(fv), 'variant': how, 'tree': sp})
    return n


def trailing_newline_names(ctx):
    """Entries whose names end in a line feed, beside their twins without it: a segment pattern (without `**`, where a
    known finding lives) matches the whole name or not at all - walk == REALPATH matcher entry by entry, str and bytes,
    also relative to a directory descriptor (descriptor 0 included).  Returns the number of evaluations."""
    import trees
    from wcmatch import glob as Gm, pathlib as PLm
    n = 0
    with trees.Tree(trees.NEWLINE_TREE) as T:
        cands = sorted(T.entries())
        fd = os.open(T.root, os.O_RDONLY)
        saved0 = os.dup(0)
        try:
            os.dup2(fd, 0)           # the same directory as descriptor 0
            for p in ('?', '[b]', 'b', 'c', '*', 'd?', '*/e', 'd*/e', 'sub/?', 'b*', '[bc]?', '*/?', 'd/e', 'sub/x', '@(b|c)', 'B'):
                for fv in (0, Gm.EXTGLOB, Gm.MARK, Gm.IGNORECASE, Gm.DOTGLOB | Gm.NODIR):
                    n += 1
                    want = [c for c in cands if Gm.globmatch(c, p, flags=fv | Gm.REALPATH, root_dir=T.root)]
                    thunks = [('root_dir', lambda: sorted(x.rstrip('/') for x in Gm.glob(p, flags=fv, root_dir=T.root))),
                              ('bytes root_dir', lambda: sorted(x.decode().rstrip('/') for x in Gm.glob(p.encode(), flags=fv, root_dir=T.root.encode()))),
                              ('dir_fd', lambda: sorted(x.rstrip('/') for x in Gm.glob(p, flags=fv, dir_fd=fd))),
                              ('bytes pattern with dir_fd', lambda: sorted(x.decode().rstrip('/') for x in Gm.glob(p.encode(), flags=fv, dir_fd=fd))),
                              ('dir_fd=0', lambda: sorted(x.rstrip('/') for x in Gm.glob(p, flags=fv, dir_fd=0))),
                              ('Path.glob', lambda: sorted(os.path.relpath(str(x), T.root) for x in PLm.Path(T.root).glob(p, flags=fv & PLm.FLAG_MASK)))]
                    runs = {}
                    for how, th in thunks:
                        try:
                            runs[how] = th()
                        except Exception as e:
                            runs[how] = 'raised %s: %s' % (type(e).__name__, e)
                    for how, got in runs.items():
                        if got != want:
                            ctx.counterexample('glob(%r, %s) via %s returns %r; the REALPATH matcher accepts %r (tree with names ending in a line feed)' % (
                                p, corr.flag_names(fv), how, got, want), {'pattern': p, 'flags': corr.flag_names(fv), 'how': how, 'tree': trees.NEWLINE_TREE})
                            break
        finally:
            os.dup2(saved0, 0)
            os.close(saved0)
            os.close(fd)
    return n


FRINGE_TREE = [('\u0130stanbul.txt', 'f', None), ('stra\u00dfe', 'f', None), ('\ufb01le.txt', 'f', None), ('Ma\u00dfe', 'd', None), ('Ma\u00dfe/a', 'f', None),
               ('caf\u00e9', 'd', None), ('caf\u00e9/\u00c9t\u00e9.TXT', 'f', None), ('\u212a', 'f', None), ('\u01c5', 'f', None), ('\U0001F600.txt', 'f', None), ('sub', 'd', None),
               ('sub/\u0130', 'f', None), ('\u03a3\u03c3\u03c2', 'f', None), ('plain.txt', 'f', None), ('e\u0301', 'f', None), ('\u00e9', 'f', None),
               ('d/e/x.txt', 'f', None), ('D/e/other.txt', 'f', None), ('p/q/r/s/x.txt', 'f', None), ('P/q/r/s/z', 'f', None), ('\u00f6/\u00fc/x.txt', 'f', None), ('\u00d6/\u00fc/y', 'f', None)]


def fringe_names(ctx):
    """Entries with non-ASCII names (letters whose case mapping changes length or is not one-to-one, ligatures, combining
    marks, an astral character): (1) every entry, written exactly (escaped), is found - with and without IGNORECASE, str and
    bytes; (2) whatever the walk returns for a literal or wildcard pattern is accepted by the REALPATH matcher with the same
    flags; (3) case-sensitive walks and matcher agree exactly.  Returns the number of evaluations."""
    import trees
    from wcmatch import glob as Gm, pathlib as PLm
    n = 0
    with trees.Tree(FRINGE_TREE) as T:
        cands = sorted(T.entries())
        for e in cands:
            for fv in (0, Gm.IGNORECASE, Gm.IGNORECASE | Gm.GLOBSTAR | Gm.MARK, Gm.CASE):
                n += 1
                pat = Gm.escape(e)
                try:
                    got = [x.rstrip('/') for x in Gm.glob(pat, flags=fv, root_dir=T.root)]
                    gotb = [os.fsdecode(x).rstrip('/') for x in Gm.glob(os.fsencode(pat), flags=fv, root_dir=os.fsencode(T.root))]
                    gotp = [os.path.relpath(str(x), T.root) for x in PLm.Path(T.root).glob(pat, flags=fv & PLm.FLAG_MASK)]
                    mt = Gm.globmatch(e, pat, flags=fv | Gm.REALPATH, root_dir=T.root)
                except Exception as ex:
                    ctx.counterexample('glob(escape(%r), %s) raised %s: %s' % (e, corr.flag_names(fv), type(ex).__name__, ex), {'entry': e, 'flags': corr.flag_names(fv)})
                    continue
                want = sorted(q for q in cands if q.lower() == e.lower()) if (fv & Gm.IGNORECASE) and not (fv & Gm.CASE) else [e]
                # case-insensitive results are de-duplicated case-insensitively (C13): one spelling per path stays, any of them
                okset = lambda g: sorted(g) == want or (len(want) > 1 and len(g) == 1 and g[0] in want)
                gotn = sorted(x.rstrip('/') for x in Gm.glob(pat, flags=fv | Gm.NOUNIQUE, root_dir=T.root))
                if not okset(got) or not okset(gotb) or not okset(gotp) or not mt or gotn != want:
                    ctx.counterexample('the existing entry %r, written exactly as glob.escape gives it, under %s denotes %r: glob finds %r (with NOUNIQUE %r), bytes glob %r, Path.glob %r, globmatch(REALPATH) %r' % (
                        e, corr.flag_names(fv), want, got, gotn, gotb, gotp, mt), {'entry': e, 'pattern': pat, 'flags': corr.flag_names(fv), 'tree': [x[0] for x in FRINGE_TREE]})
                    break
        pats = ['strasse', 'STRASSE', 'stra\u00dfe', 'STRA\u1e9eE', 'file.txt', '\ufb01le.TXT', 'masse/*', 'Ma\u00dfe/*', 'caf\u00c9/*', 'CAF\u00c9/\u00e9T\u00c9.txt', '*', '*.txt', '?', 'k', 'K', '\u212a',
                '\u01c6', 'ISTANBUL.TXT', '\u0130STANBUL.TXT', 'sub/i', 'sub/\u0130', '\u03c3\u03c3\u03c3', '\u03a3\u03a3\u03a3', '\u00c9', 'E\u0301', '[\u00e9]', '*\u00e9*']
        for p in pats:
            for fv in (Gm.IGNORECASE, 0, Gm.IGNORECASE | Gm.GLOBSTAR):
                n += 1
                try:
                    got = sorted(x.rstrip('/') for x in Gm.glob(p, flags=fv, root_dir=T.root))
                    acc = set(c for c in cands if Gm.globmatch(c, p, flags=fv | Gm.REALPATH, root_dir=T.root))
                except Exception as ex:
                    ctx.counterexample('glob / globmatch(%r, %s) raised %s' % (p, corr.flag_names(fv), type(ex).__name__), {'pattern': p, 'flags': corr.flag_names(fv)})
                    continue
                extra = [x for x in got if x not in acc]
                if extra or (not (fv & Gm.IGNORECASE) and sorted(acc) != got):
                    ctx.counterexample('glob(%r, %s) returns %r; the REALPATH matcher accepts %r (non-ASCII names)' % (p, corr.flag_names(fv), got, sorted(acc)),
                                       {'pattern': p, 'flags': corr.flag_names(fv), 'tree': [x[0] for x in FRINGE_TREE]})
    return n


def icase_lower_vs_regex_witness():
    """Witness of finding C04-icase-lower-vs-regex: True while it still fails."""
    import trees
    from wcmatch import glob as Gm
    with trees.Tree([('\u0130x', 'f', None), ('\u017f', 'f', None)]) as T:
        a = Gm.glob('i\u0307x', flags=Gm.IGNORECASE, root_dir=T.root) == ['\u0130x'] and not Gm.globmatch('\u0130x', 'i\u0307x', flags=Gm.IGNORECASE | Gm.REALPATH, root_dir=T.root)
        b = Gm.glob('s', flags=Gm.IGNORECASE, root_dir=T.root) == [] and Gm.globmatch('\u017f', 's', flags=Gm.IGNORECASE | Gm.REALPATH, root_dir=T.root)
        return a and b
