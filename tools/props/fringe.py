"""Probes at the fringe of the input space shared by several checks: letters outside ASCII, one-shot iterables,
empty patterns, names that end in a line feed."""
import os
import re
import corr

# (lower, upper): one code point each way, and Python's regex engine agrees they are the same letter ignoring case
CASE_PAIRS = [('\xe9', '\xc9'), ('д', 'Д'), ('λ', 'Λ'), ('\xfc', '\xdc'), ('\xf8', '\xd8'),
              ('\xe0', '\xc0'), ('\xe5', '\xc5'), ('\xf1', '\xd1'), ('ā', 'Ā'), ('ա', 'Ա')]


def nonascii_case(ctx, label='letters outside ASCII under the case flags'):
    """IGNORECASE folds every cased letter (str patterns): a literal, a bracket member, a range, a group alternative
    accept the name written in the other case; CASE accepts only the exact spelling.  fnmatch, filter, compile, the
    translated regex and globmatch must all say the same."""
    from wcmatch import fnmatch as Fm, glob as Gm
    n = bad = 0
    for lo, up in CASE_PAIRS:
        assert re.fullmatch(re.escape(lo), up, re.I) and lo.upper() == up and up.lower() == lo
        forms = [(lo, up, True), (up, lo, True), ('[%s]' % lo, up, True), ('[!%s]' % lo, up, False), ('x%sy' % lo, 'X%sY' % up, True),
                 ('@(%s|x)b' % lo, up + 'B', True), ('+(%s)' % lo, up + lo + up, True), ('*%s' % up, 'a' + lo, True),
                 ('[%s-%s]z' % (lo, chr(ord(lo) + 1)), up + 'Z', True), ('?%s' % lo, up + up, True), ('!(%s)' % lo, up, False)]
        for pat, name, want_i in forms:
            for icase in (True, False):
                want = want_i if icase else (not want_i if pat.startswith(('[!', '!(')) else False)
                if not icase and pat.startswith(('[!', '!(')):
                    want = True      # case-sensitively the other-case letter is not the excluded one
                base = Fm.EXTMATCH | Fm.FORCEUNIX | (Fm.IGNORECASE if icase else Fm.CASE)
                for fl in (base, base | Fm.DOTMATCH, (Fm.EXTMATCH | Fm.FORCEWIN) if icase else (Fm.EXTMATCH | Fm.FORCEWIN | Fm.CASE)):
                    n += 1
                    try:
                        rx = Fm.translate(pat, flags=fl)
                        got = {'fnmatch': Fm.fnmatch(name, pat, flags=fl), 'filter': Fm.filter([name], pat, flags=fl) == [name],
                               'compile': Fm.compile(pat, flags=fl).match(name),
                               'translate': any(re.compile(r).fullmatch(name) for r in rx[0]) and not any(re.compile(r).fullmatch(name) for r in rx[1]),
                               'globmatch': Gm.globmatch(name, pat, flags=fl), 'globfilter': Gm.globfilter([name], pat, flags=fl) == [name]}
                    except Exception as ex:
                        got = {'raised': '%s: %s' % (type(ex).__name__, ex)}
                    wrong = sorted(k for k, v in got.items() if v is not want)
                    if wrong and bad < 4:
                        bad += 1
                        ctx.counterexample('%s(%r, %r, %s) = %r: %s, the answer is %s (other routes: %r)' % (
                            wrong[0], name, pat, corr.flag_names(fl), got[wrong[0]],
                            'case is ignored for every letter' if icase else 'case-sensitive matching accepts only the exact spelling', want, got),
                            {'name': name, 'pattern': pat, 'flags': corr.flag_names(fl), 'want': want, 'got': {k: bool(v) if not isinstance(v, str) else v for k, v in got.items()}})
    ctx.counted(label, n, n, [{'pattern': '[\xe9]', 'name': '\xc9', 'flags': 'IGNORECASE'}])
    return n


def filter_iterables(ctx, label='filter over one-shot and other iterables'):
    """filter() takes any iterable of names: an iterator, a generator, a tuple, dict keys, a set give the names a list gives."""
    from wcmatch import fnmatch as Fm, glob as Gm
    n = bad = 0
    names = ['a.txt', 'b.py', 'c.txt', '.hid', 'd/e.txt', 'A.TXT', '']
    cases = [(Fm, 'filter', '*.txt', Fm.FORCEUNIX), (Fm, 'filter', '*|!a*', Fm.FORCEUNIX | Fm.SPLIT | Fm.NEGATE), (Fm, 'filter', 'a.txt', 0),
             (Gm, 'globfilter', '**/*.txt', Gm.FORCEUNIX | Gm.GLOBSTAR), (Gm, 'globfilter', '*.txt', Gm.FORCEUNIX), (Gm, 'globfilter', '*', Gm.FORCEUNIX | Gm.DOTGLOB)]
    for mod, fn, pat, fl in cases:
        f = getattr(mod, fn)
        for order in (names, names[::-1], names[2:] + names[:2], [], ['a.txt'], ['zzz'], ['', 'a.txt']):
            want = f(list(order), pat, flags=fl)
            ref = [x for x in order if x and getattr(mod, 'fnmatch' if fn == 'filter' else 'globmatch')(x, pat, flags=fl)]
            shapes = {'list vs one-by-one': lambda: ref, 'iter(list)': lambda: f(iter(order), pat, flags=fl), 'generator': lambda: f((x for x in order), pat, flags=fl),
                      'tuple': lambda: f(tuple(order), pat, flags=fl), 'dict keys': lambda: f(dict.fromkeys(order).keys(), pat, flags=fl),
                      'compiled, generator': lambda: mod.compile(pat, flags=fl).filter(x for x in order),
                      'compiled, iter': lambda: mod.compile(pat, flags=fl).filter(iter(order)), 'map object': lambda: f(map(str, order), pat, flags=fl)}
            for sh, th in shapes.items():
                n += 1
                try:
                    got = th()
                except Exception as ex:
                    got = '%s: %s' % (type(ex).__name__, ex)
                if got != want and bad < 4:
                    bad += 1
                    ctx.counterexample('%s.%s(<%s of %r>, %r, %s) = %r but the list gives %r' % (mod.__name__.split('.')[-1], fn, sh, order, pat, corr.flag_names(fl), got, want),
                                       {'names': order, 'pattern': pat, 'flags': corr.flag_names(fl), 'shape': sh, 'got': got, 'want': want})
    ctx.counted(label, n, n // 2, [{'names': 'iter([...])', 'pattern': '*.txt'}])
    return n


# pairs of patterns that are equal after str.lower() but are different patterns even when case is ignored
TWIN_PATTERNS = [('[a-z]*', '[A-z]*'), ('[[:UPPER:]]', '[[:upper:]]'), ('?İ', '?i̇'), ('[[:ALPHA:]]x', '[[:alpha:]]x'), ('İ.txt', 'i̇.txt'), ('[A-z]', '[a-z]')]
TWIN_NAMES = ['_x', 'ax', 'Bx', 'Q', 'q', 'U]', 'aİ', 'ai̇', 'ai', 'İ.txt', 'i̇.txt', 'i.txt', '_', 'zx', 'L]', '7', 'A]x']


def case_twin_lists(ctx, label='lists of patterns that differ only in letter case'):
    """A list (a sequence, `p1|p2` under SPLIT, `{p1,p2}` under BRACE) of two patterns equal up to str.lower() still is the
    union of the two - as inclusions and as exclusions - under IGNORECASE too."""
    from wcmatch import fnmatch as Fm, glob as Gm
    n = bad = 0
    for a, b in TWIN_PATTERNS:
        for p1, p2 in ((a, b), (b, a)):
            for mod, one in ((Fm, 'fnmatch'), (Gm, 'globmatch')):
                f1 = getattr(mod, one)
                for base in (mod.IGNORECASE, mod.IGNORECASE | mod.DOTMATCH if mod is Fm else mod.IGNORECASE | mod.DOTGLOB, 0, mod.FORCEWIN):
                    forms = [('sequence', [p1, p2], base), ('tuple', (p1, p2), base), ('SPLIT', p1 + '|' + p2, base | mod.SPLIT)]
                    if ',' not in p1 + p2:
                        forms.append(('BRACE', '{%s,%s}' % (p1, p2), base | mod.BRACE))
                    for name in TWIN_NAMES:
                        w1, w2 = f1(name, p1, flags=base), f1(name, p2, flags=base)
                        for how, pat, fl in forms:
                            n += 2
                            got = f1(name, pat, flags=fl)
                            gote = f1(name, '*', flags=fl | (mod.DOTMATCH if mod is Fm else mod.DOTGLOB), exclude=pat)
                            if (got != (w1 or w2) or gote != (not (w1 or w2))) and bad < 4:
                                bad += 1
                                ctx.counterexample('%s(%r, %r as %s, %s) = %r, as exclude= of `*` %r; alone: %r gives %r, %r gives %r' % (
                                    one, name, pat, how, corr.flag_names(fl), got, gote, p1, w1, p2, w2), {'name': name, 'pattern': pat if isinstance(pat, str) else list(pat), 'flags': corr.flag_names(fl), 'form': how})
    ctx.counted(label, n, n // 2, [{'patterns': ['[a-z]*', '[A-z]*'], 'name': '_x', 'flags': 'IGNORECASE'}])
    return n


def case_twin_tree(ctx, which, label='case-twin pattern lists on a real tree'):
    """The same on a real tree: glob of the list = union of the globs (which='glob'); WcMatch with `p1|p2` = union (which='wcmatch')."""
    import trees
    from wcmatch import glob as Gm, wcmatch as WMm
    n = bad = 0
    # the walk de-duplicates its results on str.lower() when case is ignored: no two entries with equal lower() in the glob tree
    spec = [(x, 'f', None) for x in TWIN_NAMES if which != 'glob' or x not in ('aİ', 'İ.txt')] + [('İ', 'd', None), ('İ/in1.txt', 'f', None), ('i̇', 'd', None), ('i̇/in2.txt', 'f', None)]
    with trees.Tree(spec) as T:
        for a, b in TWIN_PATTERNS + [('İ/*.txt', 'i̇/*.txt')]:
            if which == 'glob' and a == 'İ.txt':
                continue     # literal segments are compared through str.lower() by the walk: finding C04-icase-lower-vs-regex
            for p1, p2 in ((a, b), (b, a)):
                for icase in (True, False, 'FORCEWIN', 'FORCEWIN|FORCEUNIX'):
                    if which != 'glob' and isinstance(icase, str):
                        continue
                    n += 1
                    if which == 'glob':
                        # (FORCEWIN is ignored by the walk on a non-Windows host, alone and together with FORCEUNIX: case stays significant)
                        fl = {True: Gm.IGNORECASE, False: 0, 'FORCEWIN': Gm.FORCEWIN, 'FORCEWIN|FORCEUNIX': Gm.FORCEWIN | Gm.FORCEUNIX}[icase]
                        r1, r2 = Gm.glob(p1, flags=fl, root_dir=T.root), Gm.glob(p2, flags=fl, root_dir=T.root)
                        want = sorted(set(r1) | set(r2))
                        allp = sorted(Gm.glob('**', flags=fl | Gm.GLOBSTAR, root_dir=T.root))
                        runs = {'list': lambda: Gm.glob([p1, p2], flags=fl, root_dir=T.root), 'SPLIT': lambda: Gm.glob(p1 + '|' + p2, flags=fl | Gm.SPLIT, root_dir=T.root),
                                'BRACE': lambda: Gm.glob('{%s,%s}' % (p1, p2), flags=fl | Gm.BRACE, root_dir=T.root),
                                'NEGATE': lambda: sorted(set(allp) - set(Gm.glob(['**', '!' + p1, '!' + p2], flags=fl | Gm.NEGATE | Gm.GLOBSTAR, root_dir=T.root)) - set(x for x in allp if x.endswith('/'))),
                                'exclude=': lambda: sorted(set(allp) - set(Gm.glob('**', flags=fl | Gm.GLOBSTAR, root_dir=T.root, exclude=[p1, p2])) - set(x for x in allp if x.endswith('/')))}
                        if '/' in p1:
                            runs.pop('NEGATE'), runs.pop('exclude=')
                    else:
                        fl = (WMm.IGNORECASE if icase else 0) | (WMm.FILEPATHNAME if '/' in p1 else 0) | WMm.RECURSIVE | WMm.HIDDEN
                        rel = lambda xs: sorted(os.path.relpath(x, T.root) for x in xs)
                        r1, r2 = rel(WMm.WcMatch(T.root, p1, flags=fl).match()), rel(WMm.WcMatch(T.root, p2, flags=fl).match())
                        want = sorted(set(r1) | set(r2))
                        allp = rel(WMm.WcMatch(T.root, '*' if '/' not in p1 else '**', flags=fl | WMm.GLOBSTAR).match())
                        runs = {'p1|p2': lambda: rel(WMm.WcMatch(T.root, p1 + '|' + p2, flags=fl).match()),
                                '*|!p1|!p2': lambda: sorted(set(allp) - set(rel(WMm.WcMatch(T.root, ('*' if '/' not in p1 else '**') + '|!' + p1 + '|!' + p2, flags=fl | WMm.GLOBSTAR).match())))}
                        if '/' not in p1:
                            # as folder exclusion: directories named by either pattern are not entered
                            d1 = rel(WMm.WcMatch(T.root, '*', p1, flags=fl).match())
                            d2 = rel(WMm.WcMatch(T.root, '*', p2, flags=fl).match())
                            runs['folder exclude p1|p2'] = lambda: ('folders', rel(WMm.WcMatch(T.root, '*', p1 + '|' + p2, flags=fl).match()) == sorted(set(d1) & set(d2)))
                    for how, th in runs.items():
                        try:
                            got = th()
                        except Exception as ex:
                            got = 'raised %s: %s' % (type(ex).__name__, ex)
                        ok = (got == ('folders', True)) if isinstance(got, tuple) else (sorted(got) == want if not isinstance(got, str) else False)
                        if not ok and bad < 4:
                            bad += 1
                            ctx.counterexample('%s of %r and %r (%s, %s) gives %r; one at a time they give %r and %r' % (which, p1, p2, how, corr.flag_names(fl) if which == 'glob' else hex(fl), got, r1, r2),
                                               {'patterns': [p1, p2], 'form': how, 'flags': fl, 'tree': [x[0] for x in spec]})
    ctx.counted(label, n, n, [{'patterns': ['?İ', '?i̇'], 'flags': 'IGNORECASE'}])
    return n


def newline_match(ctx, label='names that are a matching name plus a final line feed'):
    """A name equal to a matching name plus one line feed does not match (unless the pattern says so) - every route, str and bytes."""
    from wcmatch import fnmatch as Fm, glob as Gm
    n = bad = 0
    pairs = [('README', 'README'), ('*.txt', 'a.txt'), ('[a-z]', 'q'), ('a?', 'ab'), ('@(a|b)', 'a'), ('+(ab)', 'abab'), ('Dir/File.txt', 'Dir/File.txt'), ('!(x)', 'y'), ('**/f', 'd/f'), ('a/', 'a/')]
    for pat, name in pairs:
        for fl in (Fm.CASE, Fm.FORCEUNIX, Fm.FORCEWIN | Fm.CASE, Fm.IGNORECASE, Fm.FORCEWIN, Fm.FORCEUNIX | Fm.DOTMATCH):
            for mod, one, flt in ((Fm, 'fnmatch', 'filter'), (Gm, 'globmatch', 'globfilter')):
                if mod is Fm and '/' in pat:
                    continue
                if pat == '!(x)' or (pat == '**/f' and mod is Gm) or pat == 'a/':
                    continue     # `!(x)` accepts the longer name too; `**` and the trailing separator: known findings on such names
                f = fl | mod.EXTMATCH | (Gm.GLOBSTAR if mod is Gm else 0)
                for nm, p_, want in ((name + '\n', pat, False), (name, pat, True), (name + '\n', pat + '\n', True), (name + '\n', pat + '?', True), (name + '\n\n', pat + '\n', False), (name + '\n', pat + '*', True)):
                    n += 1
                    got = {one: getattr(mod, one)(nm, p_, flags=f), flt: getattr(mod, flt)([nm], p_, flags=f) == [nm], 'compile': mod.compile(p_, flags=f).match(nm),
                           one + ' bytes': getattr(mod, one)(nm.encode(), p_.encode(), flags=f), 'exclude=': not getattr(mod, one)(nm, '*' if mod is Fm else '**', flags=f | (Fm.DOTMATCH if mod is Fm else Gm.DOTGLOB | Gm.GLOBSTAR), exclude=p_)}
                    wrong = sorted(k for k, v in got.items() if bool(v) != want)
                    if wrong and bad < 4:
                        bad += 1
                        ctx.counterexample('%s(%r, %r, %s) says %r; the name is %sin the language of the pattern (all routes: %r)' % (wrong[0], nm, p_, corr.flag_names(f), not want, '' if want else 'not ', got),
                                           {'name': nm, 'pattern': p_, 'flags': corr.flag_names(f), 'want': want})
    ctx.counted(label, n, n, [{'name': 'README\n', 'pattern': 'README'}])
    return n


def newline_wcmatch(ctx, label='WcMatch on names ending in a line feed'):
    """Files and folders whose names end in a line feed, beside their twins without it: expectations by construction."""
    import trees
    from wcmatch import wcmatch as WMm
    n = 0
    spec = [('a.txt', 'f', None), ('a.txt\n', 'f', None), ('b.log', 'f', None), ('sub', 'd', None), ('sub/c.txt', 'f', None), ('sub/c.txt\n', 'f', None), ('sub\n', 'd', None), ('sub\n/e.log', 'f', None), ('sub\n/f.txt', 'f', None)]
    files = [x[0] for x in spec if x[1] == 'f']
    with trees.Tree(spec) as T:
        R = WMm.RECURSIVE
        cases = [(('*.txt', None, R), lambda p: p.endswith('.txt')), (('*.txt', 'sub', R), lambda p: p.endswith('.txt') and not p.startswith('sub/')),
                 (('*|!*.txt', 'sub', R), lambda p: not p.endswith('.txt') and not p.startswith('sub/')), (('a.txt', None, 0), lambda p: p == 'a.txt'),
                 (('a.txt\n', None, 0), lambda p: p == 'a.txt\n'), (('*.txt\n', None, R), lambda p: p.endswith('.txt\n')), (('*', 'sub\n', R), lambda p: not p.startswith('sub\n/')),
                 (('*.txt', 'sub|sub\n', R), lambda p: p.endswith('.txt') and '/' not in p), (('sub/*.txt', None, R | WMm.FILEPATHNAME), lambda p: p == 'sub/c.txt'),
                 (('**/*.txt', 'sub', R | WMm.FILEPATHNAME | WMm.DIRPATHNAME | WMm.GLOBSTAR), lambda p: p.endswith('.txt') and not p.startswith('sub/')),
                 (('*.TXT', None, R | WMm.IGNORECASE), lambda p: p.endswith('.txt')), (('?.txt|!a*', None, R), lambda p: p in ('sub/c.txt', 'sub\n/f.txt'))]
        for (fp, ex, fl), pred in cases:
            for enc_ in (False, True):
                n += 1
                want = sorted(p for p in files if pred(p) and (fl & R or '/' not in p))
                w = WMm.WcMatch(T.root.encode() if enc_ else T.root, fp.encode() if enc_ else fp, (ex.encode() if enc_ else ex) if ex is not None else None, flags=fl)
                got = sorted(os.path.relpath(os.fsdecode(x), T.root) for x in w.match())
                visited = [p for p in files if (fl & R or '/' not in p) and not (ex and any(p.startswith(d + '/') for d in ex.split('|')))]
                if got != want or w.get_skipped() != len(visited) - len(want):
                    ctx.counterexample('WcMatch(%r, %r, flags=%#x)%s returns %r (skipped %d); the walk selects %r (skips %d)' % (fp, ex, fl, ' on bytes' if enc_ else '', got, w.get_skipped(), want, len(visited) - len(want)),
                                       {'file_pattern': fp, 'exclude_pattern': ex, 'flags': fl, 'tree': [x[0] for x in spec]})
                    break
    ctx.counted(label, n, n, [{'file_pattern': '*.txt', 'tree': ['a.txt', 'a.txt\n']}])
    return n


def newline_exclusions(ctx, label='glob exclusions on names ending in a line feed'):
    import trees
    from wcmatch import glob as Gm, pathlib as PLm
    n = 0
    spec = [('a', 'f', None), ('a\n', 'f', None), ('b', 'f', None), ('d', 'd', None), ('d/a\n', 'f', None), ('d/a', 'f', None), ('c\n', 'f', None)]
    with trees.Tree(spec) as T:
        top = ['a', 'a\n', 'b', 'c\n', 'd']
        for excl, gone in (('a', {'a'}), ('a\n', {'a\n'}), ('[a-c]', {'a', 'b'}), ('?', {'a', 'b', 'd'}), ('c', set()), ('a|c', {'a'}), ('*\n', {'a\n', 'c\n'}), ('d/', {'d'})):
            want = sorted(x for x in top if x not in gone)
            sp = Gm.SPLIT if '|' in excl else 0
            runs = {'exclude=': lambda: Gm.glob('*', flags=sp, root_dir=T.root, exclude=excl), 'NEGATE': lambda: Gm.glob(['*'] + ['!' + e for e in excl.split('|')], flags=Gm.NEGATE, root_dir=T.root),
                    'NOUNIQUE': lambda: Gm.glob('*', flags=sp | Gm.NOUNIQUE, root_dir=T.root, exclude=excl), 'bytes': lambda: [os.fsdecode(x) for x in Gm.glob(b'*', flags=sp, root_dir=os.fsencode(T.root), exclude=excl.encode())],
                    'Path.glob': lambda: [os.path.relpath(str(x), T.root) for x in PLm.Path(T.root).glob('*', flags=sp, exclude=[excl])], 'NEGATEALL': lambda: [x for x in Gm.glob('!' + excl, flags=Gm.NEGATE | Gm.NEGATEALL | sp, root_dir=T.root) if '/' not in x.rstrip('/')] if '|' not in excl else want,
                    'nested': lambda: [x[2:] for x in Gm.glob('d/*', root_dir=T.root, exclude='d/' + excl)] if excl in ('a', 'a\n') else want}
            for how, th in runs.items():
                n += 1
                try:
                    got = sorted(x.rstrip('/') for x in th())
                except Exception as ex:
                    got = 'raised %s: %s' % (type(ex).__name__, ex)
                w_ = sorted(x for x in ['a', 'a\n'] if x not in gone) if how == 'nested' and excl in ('a', 'a\n') else want
                if got != w_:
                    ctx.counterexample('glob(`*`) minus the exclusion %r (%s) returns %r; the exclusion matches exactly %r, so %r remain' % (excl, how, got, sorted(gone), w_),
                                       {'exclude': excl, 'form': how, 'tree': [x[0] for x in spec]})
                    break
    ctx.counted(label, n, n, [{'pattern': '*', 'exclude': 'a', 'tree': ['a', 'a\n']}])
    return n


def carriers(ctx, label='how a pattern list is carried (list, tuple, generator; str, bytes)'):
    """The answer does not depend on the container the patterns come in, nor on str vs bytes (Latin-1 names)."""
    from wcmatch import fnmatch as Fm, glob as Gm
    n = bad = 0
    NA = Fm.NEGATE | Fm.NEGATEALL
    cases = [(['!a*'], NA), (['!a*', '!*z'], NA), (['*', '!a*'], Fm.NEGATE), (['a*', 'b*'], 0), (['!a*'], Fm.NEGATE), (['-a*'], NA | Fm.MINUSNEGATE), (['!a*|!b*'], NA | Fm.SPLIT),
             (['!{a,b}*'], NA | Fm.BRACE), (['!a*'], NA | Fm.NODIR if False else NA), (['a*'], NA)]
    names = ['abc', 'caf\xe9', 'b', 'xyz', 'a', '.a', 'zz']
    for pats, fl in cases:
        for mod, one, flt in ((Fm, 'fnmatch', 'filter'), (Gm, 'globmatch', 'globfilter')):
            f1, f2 = getattr(mod, one), getattr(mod, flt)
            want = [f1(x, list(pats), flags=fl) for x in names]
            enc = lambda x: x.encode('latin-1')
            routes = {'tuple': lambda: [f1(x, tuple(pats), flags=fl) for x in names], 'generator': lambda: [f1(x, (p for p in pats), flags=fl) for x in names],
                      'bytes list': lambda: [f1(enc(x), [enc(p) for p in pats], flags=fl) for x in names], 'bytes tuple': lambda: [f1(enc(x), tuple(enc(p) for p in pats), flags=fl) for x in names],
                      'bytes generator': lambda: [f1(enc(x), (enc(p) for p in pats), flags=fl) for x in names],
                      'filter, bytes list': lambda: [y in f2([enc(x) for x in names], [enc(p) for p in pats], flags=fl) for y in map(enc, names)],
                      'compile, bytes tuple': lambda: [bool(mod.compile(tuple(enc(p) for p in pats), flags=fl).match(enc(x))) for x in names],
                      'compile, str list': lambda: [bool(mod.compile(list(pats), flags=fl).match(x)) for x in names]}
            if len(pats) == 1:
                routes['bare str'] = lambda: [f1(x, pats[0], flags=fl) for x in names]
                routes['bare bytes'] = lambda: [f1(enc(x), enc(pats[0]), flags=fl) for x in names]
            for how, th in routes.items():
                n += len(names)
                try:
                    got = th()
                except Exception as ex:
                    got = 'raised %s: %s' % (type(ex).__name__, ex)
                if got != want and bad < 4:
                    bad += 1
                    ctx.counterexample('%s(<names>, %r as %s, %s) gives %r on %r; as a list of str it gives %r' % (one, pats, how, corr.flag_names(fl), got, names, want),
                                       {'patterns': pats, 'carrier': how, 'flags': corr.flag_names(fl), 'names': names})
    ctx.counted(label, n, n // 2, [{'patterns': ['!a*'], 'carrier': 'bytes list', 'flags': 'NEGATE|NEGATEALL'}])
    return n


def empty_pattern(ctx, label='the empty pattern matches no path'):
    """The empty pattern has no segment: it matches no path under any flag (MATCHBASE included), and adds nothing to a list."""
    from wcmatch import glob as Gm, fnmatch as Fm, pathlib as PLm
    n = bad = 0
    names = ['a/b', 'x.py', 'd/x.py', 'a', '.h', 'a/', '/', '/a', '.', '..', 'a/.h']
    G = Gm
    for fl in (0, G.MATCHBASE, G.MATCHBASE | G.GLOBSTAR, G.MATCHBASE | G.DOTGLOB, G.MATCHBASE | G.GLOBSTAR | G.DOTGLOB | G.EXTGLOB, G.GLOBSTAR, G.MATCHBASE | G.FORCEWIN, G.MATCHBASE | G.GLOBSTARLONG | G.FOLLOW,
               G.MATCHBASE | G.NEGATE, G.MATCHBASE | G.NODIR, G.MATCHBASE | G.SPLIT | G.BRACE, G.MATCHBASE | G.RAWCHARS):
        for empty in ('', [''], ('',), ['', ''], b''):
            n += 1
            nm_ = [os.fsencode(x) for x in names] if isinstance(empty, bytes) else names
            try:
                got = [x for x in nm_ if Gm.globmatch(x, empty, flags=fl)] + Gm.globfilter(nm_, empty, flags=fl) + [x for x in nm_ if Gm.compile(empty, flags=fl).match(x)]
            except Exception as ex:
                got = ['raised %s: %s' % (type(ex).__name__, ex)]
            if got and bad < 4:
                bad += 1
                ctx.counterexample('globmatch / globfilter / compile(%r, %s) accepts %r: the empty pattern matches no path' % (empty, corr.flag_names(fl), got), {'pattern': repr(empty), 'flags': corr.flag_names(fl), 'accepted': [os.fsdecode(x) for x in got]})
        for other in ('*.py', 'a', '*/b', '!x*'):
            if other.startswith('!') and not fl & G.NEGATE:
                continue
            for lst in (['', other], [other, ''], ('', other, '')):
                n += 1
                want = Gm.globfilter(names, other, flags=fl)
                try:
                    got = Gm.globfilter(names, lst, flags=fl)
                    got2 = [x for x in names if Gm.globmatch(x, (p for p in lst), flags=fl)]
                except Exception as ex:
                    got = got2 = ['raised %s: %s' % (type(ex).__name__, ex)]
                if (got != want or got2 != want) and bad < 4:
                    bad += 1
                    ctx.counterexample('globfilter(%r, %r, %s) = %r (one by one %r); %r alone gives %r and the empty pattern adds nothing' % (names, lst, corr.flag_names(fl), got, got2, other, want),
                                       {'patterns': list(lst), 'flags': corr.flag_names(fl), 'names': names})
    # fnmatch side and pathlib's right-anchored match
    for fl in (0, Fm.DOTMATCH, Fm.EXTMATCH | Fm.NEGATE, Fm.SPLIT | Fm.BRACE):
        n += 1
        got = [x for x in ('a', '.h', 'x.py') if Fm.fnmatch(x, '', flags=fl) or Fm.fnmatch(x, ['', ''], flags=fl)]
        if got and bad < 4:
            bad += 1
            ctx.counterexample("fnmatch(%r, '', %s) is True" % (got[0], corr.flag_names(fl)), {'pattern': '', 'flags': corr.flag_names(fl), 'name': got[0]})
    for cls in (PLm.PurePosixPath, PLm.PureWindowsPath):
        for q in ('a/f.txt', 'f.txt', 'a/b/c', '.h'):
            for fl in (0, PLm.GLOBSTAR, PLm.DOTGLOB, PLm.EXTGLOB | PLm.NEGATE):
                for empty in ('', [''], ('',), ['', 'no-such-name']):
                    n += 1
                    try:
                        got = (cls(q).match(empty, flags=fl), cls(q).globmatch(empty, flags=fl), cls(q).full_match(empty, flags=fl))
                    except Exception as ex:
                        got = 'raised %s: %s' % (type(ex).__name__, ex)
                    if got != (False, False, False) and bad < 4:
                        bad += 1
                        ctx.counterexample('%s(%r): match / globmatch / full_match(%r, %s) = %r' % (cls.__name__, q, empty, corr.flag_names(fl), got), {'path': q, 'pattern': repr(empty), 'flags': corr.flag_names(fl)})
    ctx.counted(label, n, n, [{'pattern': '', 'flags': 'MATCHBASE', 'name': 'a/b'}])
    return n


def star_runs(ctx, label='runs of stars at the start of a segment'):
    """A run of stars is one star (without GLOBSTAR; with it, a run of three or more is still one wildcard construct):
    none of them matches a leading dot, whatever the length of the run."""
    from wcmatch import glob as Gm, fnmatch as Fm
    n = bad = 0
    names = ['.a', 'd/.a', '.bca', 'a', 'd/a', '.', '..', 'd/.', 'd', '.a/b', 'x.y']
    for k in (2, 3, 4, 5, 8, 31):
        st = '*' * k
        for tmpl in ('%s', 'd/%s', '@(%s)', '%sa', 'd/@(%s|x)', '%s/b', '?(%s)a', '%s.y', '[!x]%s'):
            for fl in (0, Gm.EXTGLOB, Gm.EXTGLOB | Gm.NODOTDIR, Gm.EXTGLOB | Gm.FORCEWIN, Gm.EXTGLOB | Gm.DOTGLOB, Gm.GLOBSTAR | Gm.EXTGLOB):
                if '(' in tmpl and not fl & Gm.EXTGLOB:
                    continue
                if fl & Gm.GLOBSTAR and (k == 2 or tmpl not in ('%sa', '%s.y', '[!x]%s', '@(%s)', 'd/@(%s|x)', '?(%s)a')):
                    continue     # a whole segment of stars is the recursive wildcard there
                n += 1
                p, ref = tmpl % st, tmpl % '*'
                got = [x for x in names if Gm.globmatch(x, p, flags=fl)]
                want = [x for x in names if Gm.globmatch(x, ref, flags=fl)]
                gotf = [x for x in names if '/' not in x and Fm.fnmatch(x, p, flags=fl & (Fm.EXTMATCH | Fm.DOTMATCH))] if '/' not in p else []
                wantf = [x for x in names if '/' not in x and Fm.fnmatch(x, ref, flags=fl & (Fm.EXTMATCH | Fm.DOTMATCH))] if '/' not in p else []
                if (got != want or gotf != wantf) and bad < 4:
                    bad += 1
                    d_ = sorted(set(got) ^ set(want)) or sorted(set(gotf) ^ set(wantf))
                    ctx.counterexample('globmatch(%r, %r, %s) differs from the same pattern with one star (%r): a run of stars is one star' % (d_[0], p, corr.flag_names(fl), ref),
                                       {'name': d_[0], 'pattern': p, 'flags': corr.flag_names(fl), 'one_star': ref, 'got': got, 'want': want})
    ctx.counted(label, n, n, [{'pattern': '***', 'name': '.a'}])
    return n


def dot_newline(ctx, label='hidden names that are dots plus a line feed'):
    """`.\\n` and `..\\n` are ordinary hidden names: a segment pattern that writes the dot matches them (NODOTDIR or not),
    in the matcher and on a real tree."""
    import trees
    from wcmatch import glob as Gm, pathlib as PLm
    n = bad = 0
    cases = [('.\n', '.*'), ('..\n', '.*'), ('..\n', '..*'), ('..\n', '..?'), ('.\n', '.?'), ('.\n', '.[!a]'), ('d/.\n', 'd/.*'), ('d/..\n', 'd/..?'), ('.\n', '.\n'), ('..\n', '.@(.\n)'), ('.\n/x', '.*/x'),
             ('.a\n', '.*'), ('.\r', '.*'), ('.\n\n', '.*')]
    for name, pat in cases:
        for fl in (Gm.NODOTDIR, 0, Gm.NODOTDIR | Gm.DOTGLOB, Gm.NODOTDIR | Gm.EXTGLOB | Gm.GLOBSTAR, Gm.NODOTDIR | Gm.FORCEWIN, Gm.NODOTDIR | Gm.IGNORECASE):
            if '(' in pat and not fl & Gm.EXTGLOB:
                continue
            n += 1
            got = (Gm.globmatch(name, pat, flags=fl), Gm.globfilter([name], pat, flags=fl) == [name], bool(Gm.compile(pat, flags=fl).match(name)), Gm.globmatch(name.encode(), pat.encode(), flags=fl))
            if got != (True,) * 4 and bad < 4:
                bad += 1
                ctx.counterexample('globmatch(%r, %r, %s) = %r: the written dot consumes the dot of this (ordinary, hidden) name' % (name, pat, corr.flag_names(fl), got), {'name': name, 'pattern': pat, 'flags': corr.flag_names(fl)})
    spec = [('.\n', 'f', None), ('..\n', 'f', None), ('d', 'd', None), ('d/.\n', 'f', None), ('d/..\n', 'd', None), ('d/..\n/f', 'f', None), ('.h', 'f', None), ('v', 'f', None)]
    with trees.Tree(spec) as T:
        for pat, want in (('.*', ['.\n', '..\n', '.h']), ('d/.*', ['d/.\n', 'd/..\n']), ('..?', ['..\n']), ('d/.*/f', ['d/..\n/f']), ('*/.?', ['d/.\n']), ('.[!h]', ['.\n']), ('d/..*/', ['d/..\n'])):
            for fl in (0, Gm.DOTGLOB, Gm.EXTGLOB | Gm.MARK, Gm.GLOBSTAR):
                n += 1
                runs = {'glob': lambda: Gm.glob(pat, flags=fl, root_dir=T.root), 'bytes': lambda: [os.fsdecode(x) for x in Gm.glob(os.fsencode(pat), flags=fl, root_dir=os.fsencode(T.root))],
                        'Path.glob': lambda: [os.path.relpath(str(x), T.root) for x in PLm.Path(T.root).glob(pat, flags=fl)]}
                for how, th in runs.items():
                    got = sorted(x.rstrip('/') for x in th())
                    if got != sorted(want) and bad < 4:
                        bad += 1
                        ctx.counterexample('%s(%r, %s) returns %r on a tree holding %r: the entries whose dot the pattern writes are %r' % (how, pat, corr.flag_names(fl), got, [x[0] for x in spec], sorted(want)),
                                           {'pattern': pat, 'flags': corr.flag_names(fl), 'tree': [x[0] for x in spec], 'how': how})
    ctx.counted(label, n, n, [{'name': '.\n', 'pattern': '.*', 'flags': 'NODOTDIR'}])
    return n


def odd_symlinks(ctx, label='symlinked directories with white space in their names; descriptor 0'):
    """`**` under REALPATH refuses a path that goes through a symlinked directory exactly where the walk does not traverse
    it - whatever the name of the link (leading / trailing white space, line feeds) and however the root is given
    (root_dir, dir_fd, dir_fd=0 with an unrelated working directory)."""
    import tempfile
    import trees
    from wcmatch import glob as Gm
    n = bad = 0
    spec = [('real', 'd', None), ('real/x', 'f', None), ('real/sub', 'd', None), ('real/sub/x', 'f', None), ('link ', 'l', 'real'), ('nl\n', 'l', 'real'), (' lead', 'l', 'real'), ('\tt\r', 'l', 'real'),
            ('\xa0nb', 'l', 'real'), ('real/in ', 'l', 'sub'), ('plain', 'l', 'real'), ('real/in', 'l', 'sub'), ('real/sub/up', 'l', '.'), (' rd ', 'd', None), (' rd /x', 'f', None), ('x', 'f', None)]
    G = Gm.GLOBSTAR
    with trees.Tree(spec) as T:
        cands = [q for q in T.entries_follow(4)]
        fd = os.open(T.root, os.O_RDONLY)
        saved0 = os.dup(0)
        oldcwd = os.getcwd()
        elsewhere = tempfile.mkdtemp(prefix='wcelse_')
        try:
            os.dup2(fd, 0)
            os.chdir(elsewhere)
            for pat in ('**/x', 'real/**/x', '**', '**/sub/x', '*/**/x', '**/'):
                for fl in (G, G | Gm.DOTGLOB, G | Gm.FOLLOW, Gm.GLOBSTARLONG):
                    walk = set(x.rstrip('/') for x in Gm.glob(pat, flags=fl, root_dir=T.root))
                    p3 = pat.replace('**', '***') if fl & Gm.GLOBSTARLONG else None
                    walk3 = set(x.rstrip('/') for x in Gm.glob(p3, flags=fl, root_dir=T.root)) if p3 else None
                    for q in cands:
                        full = os.path.join(T.root, q)
                        if pat == '**/' and not os.path.isdir(full):
                            continue    # finding C04-gstar-div-accepts-file
                        if os.path.islink(full) and not os.path.isdir(full):
                            continue
                        for (pp, ww) in ((pat, walk), (p3, walk3)):
                            if pp is None:
                                continue
                            n += 1
                            want = q in ww
                            if not want and any(os.path.islink(os.path.join(T.root, *q.split('/')[:k])) for k in range(1, len(q.split('/')))) and sum(1 for sg in pp.split('/') if '*' in sg) > 1:
                                continue    # several ways to split the path between the segments: finding C04-first-decomposition-only
                            got = {'root_dir': Gm.globmatch(q, pp, flags=fl | Gm.REALPATH, root_dir=T.root), 'dir_fd': Gm.globmatch(q, pp, flags=fl | Gm.REALPATH, dir_fd=fd),
                                   'dir_fd=0': Gm.globmatch(q, pp, flags=fl | Gm.REALPATH, dir_fd=0), 'compiled, dir_fd=0': Gm.compile(pp, flags=fl | Gm.REALPATH).match(q, dir_fd=0),
                                   'bytes, root_dir': Gm.globmatch(os.fsencode(q), os.fsencode(pp), flags=fl | Gm.REALPATH, root_dir=os.fsencode(T.root))}
                            wrong = sorted(k for k, v in got.items() if bool(v) != want)
                            if wrong and bad < 4:
                                bad += 1
                                ctx.counterexample('globmatch(%r, %r, %s|REALPATH) with the root given by %s is %r but glob %s it (%r)' % (q, pp, corr.flag_names(fl), wrong[0], bool(got[wrong[0]]), 'returns' if want else 'does not return', got),
                                                   {'path': q, 'pattern': pp, 'flags': corr.flag_names(fl), 'how': wrong[0], 'tree': [list(map(str, x)) for x in spec]})
        finally:
            os.chdir(oldcwd)
            os.dup2(saved0, 0)
            os.close(saved0)
            os.close(fd)
            os.rmdir(elsewhere)
    ctx.counted(label, n, n // 2, [{'path': 'link /x', 'pattern': '**/x', 'flags': 'GLOBSTAR|REALPATH'}])
    return n


DEEP_SCRIPT = r'''
import os, sys, json, resource, tempfile, shutil
from wcmatch import glob as G
depth = int(sys.argv[1]); nofile = int(sys.argv[2])
root = tempfile.mkdtemp(prefix='wcdeep_')
try:
    p = root
    for i in range(depth):
        p = os.path.join(p, 'd')
        os.mkdir(p)
    open(os.path.join(p, 'leaf.txt'), 'w').close()
    soft, hard = resource.getrlimit(resource.RLIMIT_NOFILE)
    resource.setrlimit(resource.RLIMIT_NOFILE, (nofile, hard))
    out = {}
    for nm, fl in (('GLOBSTAR', G.GLOBSTAR), ('GLOBSTAR|MARK', G.GLOBSTAR | G.MARK)):
        a = G.glob('**', flags=fl, root_dir=root)
        b = [os.fsdecode(x) for x in G.glob(b'**', flags=fl, root_dir=os.fsencode(root))]
        fd = os.open(root, os.O_RDONLY)
        try:
            c = G.glob('**', flags=fl, dir_fd=fd)
            ci = list(G.iglob('**/leaf.txt', flags=fl, dir_fd=fd))
        finally:
            os.close(fd)
        old = os.getcwd(); os.chdir(root)
        try:
            d = G.glob('**', flags=fl)
        finally:
            os.chdir(old)
        out[nm] = {'root_dir': len(a), 'bytes root_dir': len(b), 'dir_fd': len(c), 'chdir': len(d), 'dir_fd, **/leaf.txt': len(ci) + depth,
                   'same': a == b == c == d}
    resource.setrlimit(resource.RLIMIT_NOFILE, (soft, hard))
    print(json.dumps(out))
finally:
    shutil.rmtree(root, ignore_errors=True)
'''


def deep_tree_roots(ctx, label='a very deep tree with a small descriptor budget'):
    """A chain of nested directories, walked in a child process whose descriptor limit is lowered: every way of giving the
    root returns every level (depth + 1 paths) - the walk needs a bounded number of open descriptors, not one per level."""
    import json
    import subprocess
    import sys
    from wclib import REPO
    n = 0
    for depth, nofile in ((60, 64), (150, 256), (150, 200)):
        n += 1
        env = dict(os.environ, PYTHONPATH=REPO, PYTHONHASHSEED='0')
        r = subprocess.run([sys.executable, '-c', DEEP_SCRIPT, str(depth), str(nofile)], capture_output=True, text=True, env=env, cwd='/', timeout=300)
        try:
            out = json.loads(r.stdout.strip().splitlines()[-1])
        except Exception:
            ctx.counterexample('glob(`**`) on a chain of %d nested directories with RLIMIT_NOFILE=%d: the child process failed: %s' % (depth, nofile, (r.stderr or r.stdout)[-300:]), {'depth': depth, 'nofile': nofile})
            continue
        for nm, d in out.items():
            wrong = [k for k, v in d.items() if (k != 'same' and v != depth + 1) or (k == 'same' and not v)]
            if wrong:
                ctx.counterexample('glob(`**`, %s) on a chain of %d nested directories, RLIMIT_NOFILE=%d: %d paths exist; results by root: %r' % (nm, depth, nofile, depth + 1, d),
                                   {'depth': depth, 'nofile': nofile, 'flags': nm, 'results': d, 'script': 'fringe.DEEP_SCRIPT %d %d' % (depth, nofile)})
                break
    ctx.counted(label, n * 10, n * 10, [{'depth': 150, 'RLIMIT_NOFILE': 256}])
    return n


def ascii_controls(ctx, label='every ASCII character, control characters included: str vs bytes'):
    """For every ASCII code point as name and every POSIX class / a few bracket forms, str and bytes answer alike (and as
    the documented C-locale class says); WcMatch treats a pattern made of control characters alike for str and bytes."""
    import trees
    from wcmatch import fnmatch as Fm, glob as Gm, wcmatch as WMm
    n = bad = 0
    doc = {'alnum': lambda o: chr(o).isalnum(), 'alpha': lambda o: chr(o).isalpha(), 'ascii': lambda o: True, 'blank': lambda o: o in (9, 32), 'cntrl': lambda o: o < 32 or o == 127,
           'digit': lambda o: 48 <= o <= 57, 'graph': lambda o: 33 <= o <= 126, 'lower': lambda o: 97 <= o <= 122, 'print': lambda o: 32 <= o <= 126,
           'punct': lambda o: 33 <= o <= 126 and not chr(o).isalnum(), 'space': lambda o: o in (9, 10, 11, 12, 13, 32), 'upper': lambda o: 65 <= o <= 90,
           'word': lambda o: chr(o).isalnum() or o == 95, 'xdigit': lambda o: chr(o) in '0123456789abcdefABCDEF'}
    for cl, member in doc.items():
        for form, neg in (('[[:%s:]]', False), ('[![:%s:]]', True), ('x[[:%s:]]', False), ('+([[:%s:]])', False)):
            pat = form % cl
            fl = Fm.EXTMATCH | Fm.DOTMATCH | Fm.FORCEUNIX
            cs, cb = Fm.compile(pat, flags=fl), Fm.compile(pat.encode(), flags=fl)
            for o in range(128):
                if o == 47 and neg:
                    pass
                nm = ('x' if form.startswith('x') else '') + chr(o)
                n += 1
                a, b = bool(cs.match(nm)), bool(cb.match(nm.encode()))
                want = member(o) != neg
                if (a != b or a != want) and bad < 4:
                    bad += 1
                    ctx.counterexample('fnmatch(%r, %r) is %r for str and %r for bytes; U+%04X is%s in the C-locale class %s' % (nm, pat, a, b, o, '' if member(o) else ' not', cl),
                                       {'name': nm, 'pattern': pat, 'class': cl, 'code_point': o, 'str': a, 'bytes': b})
    for pat in ('?', '[!a]', '[\x00-\x1f]', '*', '[[:space:][:cntrl:]]', '[\x1c-\x1f]'):
        for o in list(range(33)) + [127]:
            if o == 47:
                continue
            n += 1
            nm = chr(o)
            a = (Fm.fnmatch(nm, pat, flags=Fm.DOTMATCH), Fm.filter([nm], pat, flags=Fm.DOTMATCH) == [nm], Gm.globmatch(nm, pat, flags=Gm.DOTGLOB), Gm.globfilter([nm], pat, flags=Gm.DOTGLOB) == [nm])
            bn, bp = nm.encode(), pat.encode('latin-1')
            b = (Fm.fnmatch(bn, bp, flags=Fm.DOTMATCH), Fm.filter([bn], bp, flags=Fm.DOTMATCH) == [bn], Gm.globmatch(bn, bp, flags=Gm.DOTGLOB), Gm.globfilter([bn], bp, flags=Gm.DOTGLOB) == [bn])
            if a != b and bad < 4:
                bad += 1
                ctx.counterexample('(fnmatch, filter, globmatch, globfilter)(%r, %r) = %r for str, %r for bytes' % (nm, pat, a, b), {'name': nm, 'pattern': pat})
    spec = [('a.txt', 'f', None), ('b.py', 'f', None), ('\x1f', 'f', None), ('\x1c', 'd', None), ('\x1c/in.txt', 'f', None), ('\x1e', 'd', None), ('\x1e/e.txt', 'f', None), (' ', 'f', None), ('\t', 'd', None), ('\t/t.txt', 'f', None)]
    with trees.Tree(spec) as T:
        for fp, ep in (('\x1f', None), ('\x1c', None), ('*', '\x1e'), ('*.txt', '\x1c'), ('\x1e|\x1f', None), (' ', None), ('*', '\t'), ('\x1d', '\x1d'), ('', None), ('*', ''), ('\x1c\x1d', '\x1e\x1f'), ('\n', '\x0b'), ('*', ' ')):
            for fl in (WMm.RECURSIVE, WMm.RECURSIVE | WMm.HIDDEN, 0):
                n += 1
                try:
                    a = sorted(os.path.relpath(x, T.root) for x in WMm.WcMatch(T.root, fp, ep, flags=fl).match())
                    b = sorted(os.fsdecode(os.path.relpath(x, os.fsencode(T.root))) for x in WMm.WcMatch(os.fsencode(T.root), fp.encode(), None if ep is None else ep.encode(), flags=fl).match())
                except Exception as ex:
                    a, b = 'raised', '%s: %s' % (type(ex).__name__, ex)
                if a != b and bad < 6:
                    bad += 1
                    ctx.counterexample('WcMatch(root, %r, %r, flags=%#x) returns %r for str and %r for bytes' % (fp, ep, fl, a, b), {'file_pattern': fp, 'exclude_pattern': ep, 'flags': fl, 'tree': [x[0] for x in spec]})
    ctx.counted(label, n, n // 2, [{'name': '\x1c', 'pattern': '[[:space:]]'}])
    return n


HIST_SCRIPT = r'''
import sys, json, os, tempfile, shutil
from wcmatch import fnmatch as F, glob as G, pathlib as P, _wcparse as W
I = F.IGNORECASE
tmp = tempfile.mkdtemp(prefix='wchist_')
os.makedirs(os.path.join(tmp, 'sub'))
open(os.path.join(tmp, 'Readme.MD'), 'w').close()
os.chdir(tmp)
out = []
try:
    for e in json.loads(sys.argv[1]):
        if e == 'CLEAR':
            W._compile.cache_clear(); out.append('cleared'); continue
        try:
            out.append(repr(eval(e)))
        except Exception as ex:
            out.append('EXC %s' % type(ex).__name__)
    print(json.dumps(out))
finally:
    os.chdir('/'); shutil.rmtree(tmp, ignore_errors=True)
'''

HIST_GROUPS = [
    ["F.fnmatch('dil.txt', 'DİL.txt', flags=I)", "F.fnmatch('di̇l.txt', 'di̇l.txt', flags=I)", "F.fnmatch('dİl.txt', 'di̇l.txt', flags=I)", "F.filter(['di̇l.txt', 'dil.txt'], 'DİL.txt', flags=I)"],
    ["F.fnmatch('_', '[A-z]', flags=I)", "F.fnmatch('_', '[a-z]', flags=I)", "F.compile('[a-z]', flags=I).match('_')", "F.translate('[A-z]', flags=I)", "F.translate('[a-z]', flags=I)"],
    ["F.fnmatch('Q', '[[:UPPER:]]', flags=I)", "F.fnmatch('Q', '[[:upper:]]', flags=I)", "F.fnmatch('U]', '[[:UPPER:]]', flags=I)", "F.fnmatch('U]', '[[:upper:]]', flags=I)"],
    ["G.globmatch('x/i̇.py', '**/İ.py', flags=G.GLOBSTAR | I)", "G.globmatch('x/i̇.py', '**/i̇.py', flags=G.GLOBSTAR | I)", "G.globfilter(['x/i̇.py', 'x/i.py'], '**/İ.py', flags=G.GLOBSTAR | I)"],
    ["F.fnmatch('a_', '[A-z][A-z]', flags=F.FORCEWIN)", "F.fnmatch('a_', '[a-z][a-z]', flags=F.FORCEWIN)", "F.fnmatch('a_', '[A-Z][A-Z]', flags=F.FORCEWIN)"],
    ["P.PureWindowsPath('Readme.MD').globmatch('*.md', flags=G.CASE)", "P.PureWindowsPath('README.md').globmatch('*.md', flags=G.CASE)", "P.PureWindowsPath('readme.md').match('*.MD', flags=G.CASE)", "P.PureWindowsPath('README.md').full_match('README.md', flags=G.CASE)"],
    ["P.Path('sub').globmatch('**/sub/', flags=G.GLOBSTAR)", "P.PurePath('sub').globmatch('**/sub/', flags=G.GLOBSTAR)", "P.PurePosixPath('sub').globmatch('sub/')", "P.Path('sub').globmatch('sub/')", "P.Path('Readme.MD').globmatch('*/')"],
    ["P.PurePosixPath('a/B.txt').match('b.TXT')", "P.PureWindowsPath('a/B.txt').match('b.TXT')", "P.PurePosixPath('a/B.txt').match('b.TXT', flags=I)", "P.PureWindowsPath('A/b.TXT').match('a/B.txt', flags=G.CASE)"],
    ["F.fnmatch('K', 'k', flags=I)", "F.fnmatch('K', 'K', flags=I)", "F.fnmatch('k', 'K', flags=I)", "F.fnmatch('ſ', 'S', flags=I)", "F.fnmatch('ſ', 's', flags=I)"],
]


def twin_histories(ctx, label='histories of calls whose arguments are equal up to case or up to pathlib equality'):
    """Each call answers as it does alone in a fresh interpreter, after any of the others - with the compile cache cleared in
    between as well: patterns equal up to str.lower(), path objects that compare equal but are not the same text or type."""
    import json
    import subprocess
    import sys
    from wclib import REPO
    env = dict(os.environ, PYTHONPATH=REPO, PYTHONHASHSEED='0')

    def child(calls):
        r = subprocess.run([sys.executable, '-c', HIST_SCRIPT, json.dumps(calls)], capture_output=True, text=True, env=env, cwd='/', timeout=120)
        try:
            return json.loads(r.stdout.strip().splitlines()[-1])
        except Exception:
            return ['CHILD FAILED: ' + (r.stderr or '')[-200:]] * len(calls)
    n = bad = 0
    for grp in HIST_GROUPS:
        alone = {e: child([e])[0] for e in grp}
        orders = [list(grp), list(reversed(grp))]
        for a in grp:
            for b in grp:
                if a != b:
                    orders.append([a, b])
                    orders.append([a, 'CLEAR', b])
        from concurrent.futures import ThreadPoolExecutor
        orders = [list(k) for k in dict.fromkeys(tuple(o) for o in orders)]
        with ThreadPoolExecutor(max_workers=8) as ex_:
            gots = list(ex_.map(child, orders))
        for order, got in zip(orders, gots):
            for e, g in zip(order, got):
                if e == 'CLEAR':
                    continue
                n += 1
                if g != alone[e] and bad < 4:
                    bad += 1
                    ctx.counterexample('%s answers %s after the calls %r, but %s alone in a fresh interpreter' % (e, g, order[:order.index(e)], alone[e]), {'call': e, 'history': order[:order.index(e)], 'in_history': g, 'alone': alone[e]})
    ctx.counted(label, n, n // 2, [{'call': HIST_GROUPS[1][1], 'history': [HIST_GROUPS[1][0]]}])
    return n
