import re
"""C06 - `**` does not traverse symlinked directories unless asked; glob terminates."""
import json
import os
import corr
import trees
from wclib import import_impl, seeded_rng
from props import common, globcommon

RULE = ('proof: Properties/C06.v (follow-links flag computation; descent condition of the walker model). correspondence: '
        'walker model vs implementation incl. the multiset of directories handed to os.scandir (recorded). search: on '
        'trees with links to ancestors, siblings, files, hidden directories and nowhere x patterns with `**`/`***` in '
        'every position x {FOLLOW, GLOBSTARLONG, MATCHBASE, DOTGLOB}: every directory glob lists is one the reference '
        'interpretation lists (no symlink at a `**` position unless FOLLOW/***); explicit segments go through links; '
        'REALPATH globmatch accepts no path outside the reference upper bound; termination under a 10 s alarm for '
        'glob (no FOLLOW) and WcMatch (no SYMLINKS) on cyclic trees. non-trivial = case that lists >= 2 directories')


def run(ctx):
    import_impl()
    from wcmatch import glob as Gm, wcmatch as WM
    rng, seed = seeded_rng('c06')
    ctx.proof('Properties/C06.v')
    globcommon.gsplit_corr(ctx, seeded_rng('gsplit')[0])
    stats = {'evals': 0, 'nontriv': set()}

    def on_case(T, spec, pp, pattern, c, fv, got_list, lb, ub, sw):
        if c.get('icase'):
            return
        r = corr.run_glob_recorded(T.root, pattern, fv)
        if 'error' in r:
            if r['error'] == 'TIMEOUT':
                ctx.counterexample('glob(%r, %s) did not terminate' % (pattern, corr.flag_names(fv)), {'pattern': pattern, 'tree': spec})
            return
        listed = set(r.get('scandir_calls', []))
        stats['evals'] += 1
        if len(listed) >= 2:
            stats['nontriv'].add((pattern, fv, len(spec)))
        allowed = set(sw.listed) | {''}
        def through_link(d):
            parts = d.split('/')
            return any(os.path.islink(os.path.join(T.root, *parts[:k])) for k in range(1, len(parts) + 1))
        # only listings reached THROUGH a symlink matter here (which directories an explicit segment has to list is C05's business)
        segs_ = pp.split(':')[1].split('/')
        gs_ = ('g', 'G') if c['globstarlong'] else ('g',)      # without GLOBSTARLONG `***` is an ordinary `*`
        only_gstar_prefix = all(s in gs_ for s in segs_[:-1]) and not c['matchbase'] or all(s in gs_ for s in segs_)
        merged_mb = c['matchbase'] and c['follow'] and c['globstarlong'] and len(segs_) > 1 and all(s in ('g', 'G') for s in segs_)
        bad = sorted(d for d in listed if d not in allowed and d and through_link(d)) if only_gstar_prefix else []
        if bad:
            # a known hidden-segment defect lets the walker enter hidden directories the reference never lists
            if ((globcommon.group_then_wild(pp) or globcommon.group_segment_can_be_empty(pp)) or globcommon.star_then_wild(pp)) and all(globcommon.hid(d) or d in ('.', '..') or d.startswith(('./', '../')) for d in bad):
                return
            if merged_mb and ctx.is_known(lambda e: e['id'] == 'C05-matchbase-merged-globstars'):
                return
            ctx.counterexample('glob(%r, %s) listed %r, which the reference interpretation never lists (symlink at a `**` position?)' % (
                pattern, corr.flag_names(fv), bad[:4]), {'pattern': pattern, 'ppat': pp, 'flags': corr.flag_names(fv), 'tree': spec, 'listed': bad[:10]})
        # results reached through a symlinked directory that the reference does not denote
        got = set(x.rstrip('/') for x in got_list)
        for x in sorted(got - ub):
            parts = x.split('/')
            if any(os.path.islink(os.path.join(T.root, *parts[:k])) and os.path.isdir(os.path.join(T.root, *parts[:k])) for k in range(1, len(parts))):
                if (globcommon.group_then_wild(pp) or globcommon.group_segment_can_be_empty(pp)) or globcommon.star_then_wild(pp):
                    continue
                if merged_mb and ctx.is_known(lambda e: e['id'] == 'C05-matchbase-merged-globstars'):
                    continue
                # a group with a dot-only alternative (`+(x|.)`) names the special entries `.` / `..` in the walker, link or no
                # link (`.a/+(.)/` gives `.a/./`): whether it may is dot handling (C03/C05), not symlink traversal - the
                # reference never fakes those entries for a group, so such a result is outside what C06 states
                if any(q in ('.', '..') for q in parts) and re.search(r'[(|](?:\\?\.)+[|)]', pattern):
                    continue
                ctx.counterexample('glob(%r, %s) listed through a symlinked directory: returned %r, which the reference interpretation does not denote' % (
                    pattern, corr.flag_names(fv), x), {'pattern': pattern, 'ppat': pp, 'flags': corr.flag_names(fv), 'tree': spec, 'path': x})
                break
        # REALPATH applies the same rule to the path it is given: nothing outside the upper bound
        for p in T.entries_follow():
            if p in ub or p.rstrip('/') in ub:
                continue
            stats['evals'] += 1
            if Gm.globmatch(p, pattern, flags=fv | Gm.REALPATH, root_dir=T.root):
                segs = pp.split(':')[1].split('/')
                if (globcommon.group_then_wild(pp) or globcommon.group_segment_can_be_empty(pp)) or globcommon.star_then_wild(pp) or (c['matchbase'] and globcommon.hid(p)):
                    continue     # C02/C03 known sites
                if pp.endswith(':T') and segs[-1] in ('g', 'G') and not os.path.isdir(os.path.join(T.root, p)) and \
                        ctx.is_known(lambda e: e['id'] == 'C04-gstar-div-accepts-file'):
                    continue
                ctx.counterexample('globmatch(%r, %r, %s|REALPATH) is True but the path is not denoted (symlink under `**`?)' % (
                    p, pattern, corr.flag_names(fv)), {'path': p, 'pattern': pattern, 'ppat': pp, 'flags': corr.flag_names(fv), 'tree': spec})
                break
        # ... and in the other direction: a symlinked directory that `**` meets (not one reached through another link) is
        # matched by it, however the path is spelled - with or without the trailing separator
        segs2 = pp.split(':')[1].split('/')
        if segs2[-1] in gs_ and pp.endswith(':t') and not c['matchbase']:
            for x in sorted(lb):
                fx = os.path.join(T.root, x)
                parts = x.split('/')
                if not (os.path.islink(fx) and os.path.isdir(fx)) or any(os.path.islink(os.path.join(T.root, *parts[:k])) for k in range(1, len(parts))):
                    continue
                if x not in got or globcommon.hid(x):
                    continue
                for spell in (x, x + '/'):
                    stats['evals'] += 1
                    if not Gm.globmatch(spell, pattern, flags=fv | Gm.REALPATH, root_dir=T.root):
                        ctx.counterexample('globmatch(%r, %r, %s|REALPATH) is False but glob returns this symlinked directory: `**` matches the symlinks it meets' % (
                            spell, pattern, corr.flag_names(fv)), {'path': spell, 'pattern': pattern, 'ppat': pp, 'flags': corr.flag_names(fv), 'tree': spec})
                        break

    saved = ctx.counterexample
    noise = []
    ctx.counterexample = lambda what, replay: (saved(what, replay) if ('listed' in what or 'REALPATH' in what or 'terminate' in what) else noise.append(what))
    try:
        gs_cfgs = [c for c in globcommon.CFGS if c['globstar'] or c['globstarlong']]
        ev, nt, samples, _k = globcommon.run_spec_search(ctx, rng, 4 if ctx.quick else 40, 14 if ctx.quick else 40, on_case=on_case, cfgs=gs_cfgs)
    finally:
        ctx.counterexample = saved
    ctx.counted('listed directories and REALPATH rule', stats['evals'], len(stats['nontriv']), samples)

    # ---- the Coq function `listed` (subject of C06_descent_rule) vs the directories the implementation really lists -----
    from wclib import Model, enc, dec
    m = Model()
    n_l = 0
    for t in range(len(trees.DESIGNED) + (4 if ctx.quick else 30)):
        spec = trees.DESIGNED[t] if t < len(trees.DESIGNED) else trees.random_spec(rng, size=rng.randint(5, 14))
        with trees.Tree(spec) as T:
            cyc = globcommon.has_dir_cycle(T.root)
            for pat, fv in (('**', Gm.GLOBSTAR), ('**', Gm.GLOBSTAR | Gm.DOTGLOB), ('**', Gm.GLOBSTAR | Gm.FOLLOW), ('***', Gm.GLOBSTARLONG),
                            ('**/', Gm.GLOBSTAR), ('**', Gm.GLOBSTARLONG | Gm.FOLLOW)):
                if cyc and (fv & Gm.FOLLOW and not fv & Gm.GLOBSTARLONG or pat == '***'):
                    continue
                r = corr.run_glob_recorded(T.root, pat, fv)
                if 'error' in r or not r.get('request'):
                    continue
                g_ = r['glob_obj']
                sd = r['request'].split(' ')[3]
                cfgbits = r['request'].split(' ')[1]
                out = m.run(['listed %s %s - %d %d' % (cfgbits, sd, int(pat.endswith('/')), int(pat == '***'))])[0]
                model_listed = sorted(dec(x) for x in out.split(',')) if out not in ('[]', 'oraclemiss') else out
                impl_listed = sorted(r['scandir_calls'])
                n_l += 1
                if model_listed != impl_listed:
                    ctx.violations.append({'kind': 'correspondence-broken', 'found_input': False,
                                           'replay': {'correspondence': 'listed directories (Coq `listed` vs recorded os.scandir calls)',
                                                      'pattern': pat, 'flags': corr.flag_names(fv), 'tree': spec, 'model': model_listed, 'impl': impl_listed}})
    ctx.coverage['correspondence']['listed directories'] = {'evaluations': n_l}
    ctx.coverage['evaluations'] += n_l

    # ---- termination on cyclic trees; explicit segments go through links -------------------------------------------
    n = 0
    for spec in (trees.DESIGNED[3], trees.DESIGNED[0], [('a', 'd', None), ('a/b', 'd', None), ('a/b/up', 'l', '../..'), ('a/self', 'l', '.'), ('a/f', 'f', None)]):
        with trees.Tree(spec) as T:
            for pat, fv in (('**', Gm.GLOBSTAR), ('**/*', Gm.GLOBSTAR), ('**/f', Gm.GLOBSTAR | Gm.DOTGLOB), ('*/**/*', Gm.GLOBSTAR), ('*', Gm.MATCHBASE | Gm.GLOBSTAR),
                            ('***/f', Gm.GLOBSTAR), ('**', Gm.GLOBSTAR | Gm.MATCHBASE), ('d/up/d/up/**', Gm.GLOBSTAR), ('**/**/**', Gm.GLOBSTAR)):
                n += 1
                try:
                    globcommon.with_alarm(10, lambda: Gm.glob(pat, flags=fv, root_dir=T.root))
                except globcommon.Alarm:
                    ctx.counterexample('glob(%r, %s) does not terminate on a tree with symlink cycles' % (pat, corr.flag_names(fv)), {'pattern': pat, 'tree': spec})
            for wf in (WM.RECURSIVE, WM.RECURSIVE | WM.HIDDEN):
                n += 1
                try:
                    globcommon.with_alarm(10, lambda: WM.WcMatch(T.root, '*', flags=wf).match())
                except globcommon.Alarm:
                    ctx.counterexample('WcMatch (no SYMLINKS) does not terminate on a tree with symlink cycles', {'tree': spec})
    with trees.Tree(trees.DESIGNED[0]) as T:
        for pat, fv, want in (('vis/*', 0, {'vis/x.txt', 'vis/sub'}), ('vis/**', Gm.GLOBSTAR, {'vis', 'vis/x.txt', 'vis/sub', 'vis/sub/y.txt'}),
                              ('**/x.txt', Gm.GLOBSTAR, {'real/x.txt'}), ('**/x.txt', Gm.GLOBSTAR | Gm.FOLLOW, {'real/x.txt', 'vis/x.txt'}),
                              ('***/x.txt', Gm.GLOBSTARLONG, {'real/x.txt', 'vis/x.txt'}), ('***/x.txt', Gm.GLOBSTARLONG | Gm.FOLLOW, {'real/x.txt', 'vis/x.txt'}),
                              ('**/x.txt', Gm.GLOBSTARLONG | Gm.FOLLOW, {'real/x.txt'}), ('x.txt', Gm.MATCHBASE | Gm.GLOBSTARLONG | Gm.FOLLOW, {'real/x.txt', 'vis/x.txt'}),
                              ('x.txt', Gm.MATCHBASE | Gm.GLOBSTARLONG, {'real/x.txt'}), ('**', Gm.GLOBSTAR, {'real', 'real/x.txt', 'real/sub', 'real/sub/y.txt', 'vis', 'f', 'lf', 'dang'})):
            n += 1
            got = set(x.rstrip('/') for x in Gm.glob(pat, flags=fv, root_dir=T.root))
            if got != want:
                ctx.counterexample('glob(%r, %s) = %r, expected %r (tree: real/, vis -> real, .link -> real, f, lf -> f, dang)' % (pat, corr.flag_names(fv), sorted(got), sorted(want)),
                                   {'pattern': pat, 'flags': corr.flag_names(fv), 'got': sorted(got), 'want': sorted(want)})
            # REALPATH applies the same rule
            for p in ('vis/x.txt', 'real/x.txt', 'vis/sub/y.txt', '.link/x.txt'):
                n += 1
                gm = Gm.globmatch(p, pat, flags=fv | Gm.REALPATH, root_dir=T.root)
                if gm != (p in want) and not (p.startswith('.link') and False):
                    ctx.counterexample('globmatch(%r, %r, %s|REALPATH) = %r but glob %s it' % (p, pat, corr.flag_names(fv), gm, 'returns' if p in want else 'does not return'),
                                       {'path': p, 'pattern': pat, 'flags': corr.flag_names(fv)})
    ctx.counted('termination and designed symlink cases', n, n // 2, [{'pattern': '**/x.txt', 'flags': 'GLOBSTAR|FOLLOW'}])

    # ---- REALPATH asks the file system at every call: the same path string over a different / changed tree -------------
    n = 0
    spec_real = [('pkg', 'd', None), ('pkg/data', 'd', None), ('pkg/data/x', 'f', None), ('a', 'd', None), ('a/d', 'd', None), ('a/d/x', 'f', None), ('real', 'd', None), ('real/x', 'f', None)]
    spec_link = [('store', 'd', None), ('store/x', 'f', None), ('pkg', 'd', None), ('pkg/data', 'l', '../store'), ('a', 'd', None), ('a/d', 'l', '../real'), ('real', 'd', None), ('real/x', 'f', None)]
    R = Gm.GLOBSTAR | Gm.REALPATH
    probes = [('pkg/data/x', '**/x'), ('pkg/data/x', 'pkg/**/x'), ('a/d/x', 'a/**/x'), ('a/d/x', '**'), ('real/x', '**/x')]
    old = os.getcwd()
    with trees.Tree(spec_real) as T1, trees.Tree(spec_link) as T2:
        try:
            fresh = {}
            for T, tag in ((T1, 'real'), (T2, 'link')):
                for path, pat in probes:
                    fresh[(tag, path, pat)] = not any(os.path.islink(os.path.join(T.root, *path.split('/')[:k])) for k in range(1, len(path.split('/'))))
            for order in ((T1, 'real', T2, 'link'), (T2, 'link', T1, 'real')):
                for how in ('chdir', 'root_dir', 'dir_fd'):
                    for path, pat in probes:
                        got = []
                        for T, tag in ((order[0], order[1]), (order[2], order[3]), (order[0], order[1])):
                            n += 1
                            if how == 'chdir':
                                os.chdir(T.root)
                                got.append((tag, Gm.globmatch(path, pat, flags=R), Gm.globfilter([path], pat, flags=R) == [path]))
                                os.chdir(old)
                            elif how == 'root_dir':
                                got.append((tag, Gm.globmatch(path, pat, flags=R, root_dir=T.root), Gm.globfilter([path], pat, flags=R, root_dir=T.root) == [path]))
                            else:
                                fd = os.open(T.root, os.O_RDONLY)
                                try:
                                    got.append((tag, Gm.globmatch(path, pat, flags=R, dir_fd=fd), Gm.globfilter([path], pat, flags=R, dir_fd=fd) == [path]))
                                finally:
                                    os.close(fd)
                        for tag, gm, gf in got:
                            want = fresh[(tag, path, pat)]
                            if gm != want or gf != want:
                                ctx.counterexample('globmatch(%r, %r, GLOBSTAR|REALPATH) over the %s tree (root by %s) after a call over the other tree: %r/%r, the tree says %r' % (
                                    path, pat, tag, how, gm, gf, want), {'path': path, 'pattern': pat, 'how': how, 'order': [order[1], order[3], order[1]]})
                                break
            # the same root, the directory replaced by a symlink (and back) between calls
            for path, pat in (('a/d/x', 'a/**/x'), ('a/d/x', '**/x')):
                n += 1
                r1 = Gm.globmatch(path, pat, flags=R, root_dir=T1.root)
                os.rename(os.path.join(T1.root, 'a', 'd'), os.path.join(T1.root, 'a', 'd.real'))
                os.symlink('../real', os.path.join(T1.root, 'a', 'd'))
                r2 = Gm.globmatch(path, pat, flags=R, root_dir=T1.root)
                os.unlink(os.path.join(T1.root, 'a', 'd'))
                os.rename(os.path.join(T1.root, 'a', 'd.real'), os.path.join(T1.root, 'a', 'd'))
                r3 = Gm.globmatch(path, pat, flags=R, root_dir=T1.root)
                if (r1, r2, r3) != (True, False, True):
                    ctx.counterexample('globmatch(%r, %r, REALPATH) while a/d is a directory, then a symlink, then a directory again: %r' % (path, pat, (r1, r2, r3)),
                                       {'path': path, 'pattern': pat, 'expected': [True, False, True]})
        finally:
            os.chdir(old)
    ctx.counted('REALPATH verdicts across trees and tree changes', n, n // 2, [{'path': 'pkg/data/x', 'pattern': '**/x'}])
    ctx.corr('REALPATH decision (_Match.match)', corr.corr_realpath(rng, [trees.DESIGNED[0], trees.DESIGNED[3], spec_link, spec_real], 150 if ctx.quick else 600))
    nfe = globcommon.frontends_equiv(ctx, rng)
    ctx.counted('dir_fd / iglob / pathlib / cloned matchers vs glob', nfe, nfe // 2, [{'pattern': 'vis/*'}])
    nin_ = globcommon.inert_arguments(ctx, rng, 3 if ctx.quick else 6)
    ctx.counted('arguments that cannot change the answer (inert exclude=, root spelling, NOUNIQUE)', nin_, nin_ // 2, [{'pattern': '**', 'exclude': 'zz-no-such-name*'}])
    from props import fringe
    fringe.odd_symlinks(ctx)
    from props import glue
    glue.lazy_walk_tree_change(ctx)
    from props import clauses
    clauses.negateall_default(ctx)
    clauses.mixed_globstars(ctx)
    return ctx.finish(RULE)


def replay(data):
    print(json.dumps(data, indent=1))
    return 0
