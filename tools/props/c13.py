"""C13 - multi-pattern glob is the de-duplicated union minus exclusions."""
import json
import os
import corr
import trees
from wclib import import_impl, seeded_rng
from props import common, globcommon
from props.c05 import walker_corr

RULE = ('proof: Properties/C13.v (output stage `emit` of the walker model: NOUNIQUE = concatenation; unique mode = no '
        'key twice under the case rule / pathlib normalisation, union semantics; directory slash for exclusions). '
        'correspondence: walker model result sequences on multi-pattern lists (shared generator with C05). search: on '
        'trees x lists of 1-4 patterns (overlapping, identical, differing in case, from BRACE/SPLIT) with 0-2 exclusions '
        'x {NOUNIQUE, IGNORECASE/CASE, NEGATE vs exclude=, NEGATEALL, NODIR, SCANDOTDIR}: set(result) = union of the '
        'single-pattern results minus excluded paths; no duplicates under the case rule; NOUNIQUE = concatenation in '
        'order. non-trivial = list whose patterns overlap')


def run(ctx):
    import_impl()
    from wcmatch import glob as Gm
    rng, seed = seeded_rng('c13')
    ctx.proof('Properties/C13.v')
    ctx.corr('glob walker sequence (lists)', walker_corr(ctx, rng, 4 if ctx.quick else 40, 40))
    segs = ['*', 'a*', '*.txt', 'a', 'A', '*/*', '**', 'd*/', '*a*', 'data/*', 'DATA/*', '[ab]*', '.*', 'real/**', 'U*', '*p', 'Up', '*.{txt,md}', 'a*|*.txt', 's*/',
            # empty patterns among the others (written, or left by `||` / a leading `|`): they contribute nothing and stop nothing
            '', 'a*||*.txt', '|*p', '{,a*}']
    excl = ['*.txt', '*a*', '.*', '*/', '**/x*', 'A*', 'd*']
    evals = 0
    nontriv = set()
    samples = []
    known_hit = []
    for ti in range(len(trees.DESIGNED) + (4 if ctx.quick else 40)):
        spec = trees.DESIGNED[ti] if ti < len(trees.DESIGNED) else trees.random_spec(rng, size=rng.randint(5, 14), case=True)
        if ti == 1:
            spec = spec + [('Up', 'f', None), ('c.md', 'f', None)]
        with trees.Tree(spec) as T:
            cyc = globcommon.has_dir_cycle(T.root)
            directed = [(['{*,a*}'], Gm.SCANDOTDIR), (['*|a*|*'], Gm.SCANDOTDIR), (['{*.txt,a*,*}'], Gm.SCANDOTDIR | Gm.MARK), (['**|*'], Gm.SCANDOTDIR),
                        (['{*,*/}'], 0), (['*', '*'], Gm.SCANDOTDIR), (['{d*,D*,*}'], Gm.SCANDOTDIR | Gm.IGNORECASE)]
            for it in range(200 if ctx.quick else 600):
                pats = [rng.choice(segs) for _ in range(rng.randint(1, 4))]
                if rng.random() < 0.3:
                    pats.append(pats[0])
                ex = [rng.choice(excl) for _ in range(rng.randint(0, 2))]
                fv = Gm.GLOBSTAR | Gm.BRACE | Gm.SPLIT
                if it < len(directed):
                    pats, extra_f = directed[it]
                    pats = list(pats)
                    ex = []
                    fv |= extra_f
                for nm, pr in (() if it < len(directed) else ())+(('NOUNIQUE', .3), ('IGNORECASE', .3), ('NODIR', .2), ('SCANDOTDIR', .2), ('DOTGLOB', .2), ('MARK', .2), ('NEGATEALL', .2)):
                    if rng.random() < pr:
                        fv |= getattr(Gm, nm)
                how = rng.choice(['kw', 'inline']) if ex else 'none'
                if how == 'inline' and rng.random() < 0.4 and not any(p_.startswith(('-', '!')) for p_ in pats):
                    fv |= Gm.MINUSNEGATE | (Gm.EXTGLOB if rng.random() < 0.6 else 0)
                elif rng.random() < 0.2:
                    fv |= Gm.EXTGLOB
                try:
                    if how == 'kw':
                        res = Gm.glob(pats, flags=fv, root_dir=T.root, exclude=ex)
                    elif how == 'inline':
                        # (the exclusion symbol is `-` under MINUSNEGATE, whatever else - EXTGLOB in particular - is set)
                        sym_ = '-' if fv & Gm.MINUSNEGATE else '!'
                        res = Gm.glob(pats + [sym_ + e for e in ex], flags=fv | Gm.NEGATE, root_dir=T.root)
                    else:
                        res = Gm.glob(pats, flags=fv, root_dir=T.root)
                except Exception as e:
                    ctx.counterexample('glob(%r) raised %s' % (pats, type(e).__name__), {'patterns': pats, 'tree': spec})
                    continue
                evals += 1
                ci = bool(fv & Gm.IGNORECASE)
                norm = (lambda s: s.lower()) if ci else (lambda s: s)   # 'd' and 'd/' are different result strings
                # per expanded pattern, alone
                singles = []
                import bracex
                expanded = []
                for p in pats:
                    for b in bracex.expand(p, keep_escapes=True):
                        expanded.extend(b.split('|'))
                if how == 'inline' and fv & Gm.NEGATEALL and not any(expanded):
                    continue    # only empty inclusion patterns: whether NEGATEALL then supplies `**` is not stated anywhere
                fsingle = fv & ~(Gm.BRACE | Gm.SPLIT | Gm.NEGATEALL) | Gm.NOUNIQUE
                for p in expanded:
                    singles.append(Gm.glob(p, flags=fsingle & ~Gm.NODIR, root_dir=T.root))

                def excluded(path):
                    full = os.path.join(T.root, path)
                    p2 = path if (path.endswith('/') or not os.path.isdir(full)) else path + '/'
                    if fv & Gm.NODIR and os.path.isdir(full):
                        return True
                    return any(Gm.globmatch(p2, e, flags=(fv & ~(Gm.BRACE | Gm.SPLIT | Gm.NEGATEALL | Gm.NODIR | Gm.MARK | Gm.NOUNIQUE | Gm.SCANDOTDIR)) | Gm.DOTGLOB) for e in ex)
                want_seq = [r for s in singles for r in s if not excluded(r)]
                if len(set(map(norm, want_seq))) < len(want_seq):
                    nontriv.add((tuple(pats), tuple(ex), fv, ti))
                if fv & Gm.NOUNIQUE:
                    if res != want_seq:
                        ctx.counterexample('NOUNIQUE glob(%r, %s%s) is not the concatenation of the single-pattern results minus exclusions' % (
                            pats, corr.flag_names(fv), ', %s %r' % (how, ex) if ex else ''),
                            {'patterns': pats, 'exclude': ex, 'how': how, 'flags': corr.flag_names(fv), 'tree': spec, 'got': res[:12], 'want': want_seq[:12]})
                    continue
                got_set, want_set = set(map(norm, res)), set(map(norm, want_seq))
                if got_set != want_set:
                    ctx.counterexample('glob(%r, %s%s): set differs from the union of single-pattern results minus exclusions: only in result %r, only in union %r' % (
                        pats, corr.flag_names(fv), ', %s %r' % (how, ex) if ex else '', sorted(got_set - want_set)[:4], sorted(want_set - got_set)[:4]),
                        {'patterns': pats, 'exclude': ex, 'how': how, 'flags': corr.flag_names(fv), 'tree': spec})
                    continue
                keys = list(map(norm, res))
                if len(keys) != len(set(keys)):
                    dup = sorted(k for k in set(keys) if keys.count(k) > 1)
                    if ci and fv & Gm.SCANDOTDIR and len(set(expanded)) == 1 and len(res) == len(set(res)) and \
                            ctx.is_known(lambda e: e['id'] == 'C13-single-pattern-shortcut-icase'):
                        known_hit.append((pats, corr.flag_names(fv), dup[:2]))
                        continue
                    ctx.counterexample('glob(%r, %s) returns %r more than once' % (pats, corr.flag_names(fv), dup[:3]),
                                       {'patterns': pats, 'flags': corr.flag_names(fv), 'tree': spec, 'result': res[:20]})
            if len(samples) < 3:
                samples.append({'patterns': pats, 'exclude': ex, 'flags': corr.flag_names(fv)})
    if known_hit:
        ctx.known_finding('C13-single-pattern-shortcut-icase', 'glob(%r, %s|SCANDOTDIR) returns %r in two spellings' % known_hit[0])
    ctx.counted('lists vs single patterns', evals, len(nontriv), samples)

    # ---- NEGATE vs exclude=: once `exclude=` is given (even empty) every list entry is an inclusion ---------------------
    import pathlib
    nspec = [('a', 'f', None), ('b', 'f', None), ('!a', 'f', None), ('-b', 'f', None), ('sub', 'd', None), ('sub/x', 'f', None), ('sub/!x', 'f', None), ('sub/y', 'f', None)]
    n2 = 0
    with trees.Tree(nspec) as TN:
        for pats in (['*', '!a'], ['!a'], ['b|!a'], ['**', '!**/x'], ['*', '-b'], ['!*']):
            for extra in (0, Gm.NEGATEALL, Gm.SPLIT, Gm.MINUSNEGATE, Gm.GLOBSTAR):
                for exarg in ([], (), '', ['zzz'], ['a']):
                    n2 += 1
                    fvn = Gm.NEGATE | extra
                    # reference: the same call with the negation flags removed (exclude= takes over their job)
                    want = sorted(Gm.glob(pats, flags=fvn & ~(Gm.NEGATE | Gm.NEGATEALL | Gm.MINUSNEGATE), exclude=exarg, root_dir=TN.root))
                    got = sorted(Gm.glob(pats, flags=fvn, exclude=exarg, root_dir=TN.root))
                    if exarg == '' :
                        # an empty string is "no exclusion pattern": documented behaviour is that of exclude=None
                        continue
                    if got != want:
                        ctx.counterexample('glob(%r, %s, exclude=%r) = %r; with exclude= given the list entries are inclusions: expected %r' % (
                            pats, corr.flag_names(fvn), exarg, got[:6], want[:6]), {'patterns': pats, 'flags': corr.flag_names(fvn), 'exclude': repr(exarg), 'tree': nspec})
                    pg = sorted(str(x.relative_to(TN.root)) for x in __import__('wcmatch.pathlib', fromlist=['Path']).Path(TN.root).glob(pats, flags=fvn, exclude=exarg))
                    if pg != sorted(x.rstrip('/') for x in want):
                        ctx.counterexample('Path.glob(%r, %s, exclude=%r) = %r, glob gives %r' % (pats, corr.flag_names(fvn), exarg, pg[:6], want[:6]),
                                           {'patterns': pats, 'flags': corr.flag_names(fvn), 'exclude': repr(exarg), 'tree': nspec})
    ctx.counted('NEGATE with exclude= (incl. empty)', n2, n2 // 2, [{'patterns': ['*', '!a'], 'exclude': []}])
    nm = globcommon.mixed_abs_rel(ctx, rng, 3 if ctx.quick else 12)
    ctx.counted('lists mixing absolute and relative patterns', nm, nm // 2, [{'patterns': ['<root>/other/*', 'sub/*']}])

    # ---- NEGATEALL: only exclusions => everything (`**` read as GLOBSTAR whatever the flags say) minus the exclusions ------
    n3 = 0
    dspec = [('a.txt', 'f', None), ('b.md', 'f', None), ('sub', 'd', None), ('sub/c.txt', 'f', None), ('sub/d.md', 'f', None), ('sub/deep', 'd', None),
             ('sub/deep/e.md', 'f', None), ('sub/deep/f.txt', 'f', None), ('.h', 'f', None)]
    with trees.Tree(dspec) as TD:
        for pats in (['!*.txt'], ['!*.txt', '!sub/*.md'], ['!*.txt|!sub/*.md'], ['!sub/'], ['!**/*.md'], ['!a.txt', '!b.md'], ['!zzz']):
            for extra in (0, Gm.GLOBSTAR, Gm.NODIR, Gm.SPLIT, Gm.DOTGLOB, Gm.MARK, Gm.SPLIT | Gm.NODIR):
                n3 += 1
                fvn = Gm.NEGATE | Gm.NEGATEALL | extra
                excl3 = [q[1:] for p in pats for q in (p.split('|') if extra & Gm.SPLIT else [p])]
                base = Gm.glob('**', flags=Gm.GLOBSTAR | (extra & (Gm.NODIR | Gm.DOTGLOB | Gm.MARK)), root_dir=TD.root)

                def gone(path):
                    p2 = path if (path.endswith('/') or not os.path.isdir(os.path.join(TD.root, path))) else path + '/'
                    return any(Gm.globmatch(p2, e, flags=(extra & Gm.GLOBSTAR) | Gm.DOTGLOB) for e in excl3)
                want = sorted(x for x in base if not gone(x))
                got = sorted(Gm.glob(pats, flags=fvn, root_dir=TD.root))
                if got != want:
                    ctx.counterexample('glob(%r, %s) = %r; NEGATEALL means everything (`**` as GLOBSTAR) minus the exclusions: %r' % (
                        pats, corr.flag_names(fvn), got[:8], want[:8]), {'patterns': pats, 'flags': corr.flag_names(fvn), 'tree': dspec})
    ctx.counted('NEGATEALL with exclusions only', n3, n3, [{'patterns': ['!*.txt'], 'flags': 'NEGATE|NEGATEALL'}])
    from props import fringe
    fringe.case_twin_tree(ctx, 'glob')
    fringe.newline_exclusions(ctx)
    from props import glue
    glue.list_is_union(ctx)
    from props import clauses
    clauses.misc_clauses(ctx, 'C16')
    clauses.negateall_default(ctx)
    return ctx.finish(RULE)


def replay(data):
    print(json.dumps(data, indent=1))
    return 0
