"""C14 - WcMatch returns exactly the files a filtered directory walk selects."""
import json
import os
import corr
import trees
from wclib import import_impl, seeded_rng
from props import common, globcommon

RULE = ('proof: Properties/C14.v (uninterrupted walker model = independent `selected` spec, for every OS oracle and '
        'decision functions; skipped = visited - returned; forced flags over the translated _parse_flags/_compile_wildcard). '
        'correspondence: extracted walker model vs WcMatch.match()/get_skipped() driven by recorded os.walk listings and '
        '_valid_folder/_valid_file decisions. search: WcMatch vs an independent listdir walk that decides files and '
        'folders with single-pattern fnmatch/globmatch calls under the documented forced flags, on generated/designed '
        'trees x file/exclude patterns with | and negation x subsets of RECURSIVE/HIDDEN/SYMLINKS/FILEPATHNAME/'
        'DIRPATHNAME/MATCHBASE/GLOBSTAR/EXTMATCH/BRACE/MINUSNEGATE/IGNORECASE. non-trivial = some but not all files returned')


def reference(root, fp, ep, fl, WM, Fm, Gm):
    """independent walk: returns (list of returned file paths, number of files visited)"""
    rec, hid, sym = bool(fl & WM.RECURSIVE), bool(fl & WM.HIDDEN), bool(fl & WM.SYMLINKS)
    fpn, dpn, mb = bool(fl & WM.FILEPATHNAME), bool(fl & WM.DIRPATHNAME), bool(fl & WM.MATCHBASE)
    common_f = 0
    for a, b in ((WM.EXTMATCH, Fm.EXTMATCH), (WM.BRACE, Fm.BRACE), (WM.MINUSNEGATE, Fm.MINUSNEGATE), (WM.IGNORECASE, Fm.IGNORECASE), (WM.CASE, Fm.CASE),
                 (WM.RAWCHARS, Fm.RAWCHARS)):
        if fl & a:
            common_f |= b

    def pieces_of(pattern, pathmode=False):
        """top-level `|` pieces (the `|` inside parentheses belongs to a group, the `|` inside a bracket expression is a
        member of the set; in path mode a `/` before the closing `]` means there is no bracket expression)"""
        out_, cur, depth, i = [], '', 0, 0
        while i < len(pattern):
            ch = pattern[i]
            if ch == '\\' and i + 1 < len(pattern):
                cur += pattern[i:i + 2]
                i += 2
                continue
            if ch == '[':
                j = i + 1
                if j < len(pattern) and pattern[j] in '!^':
                    j += 1
                if j < len(pattern) and pattern[j] == ']':
                    j += 1
                k = j
                while k < len(pattern) and pattern[k] != ']' and not (pathmode and pattern[k] == '/'):
                    k += 2 if pattern[k] == '\\' else 1
                if k < len(pattern) and pattern[k] == ']':
                    cur += pattern[i:k + 1]
                    i = k + 1
                    continue
            if ch == '(':
                depth += 1
            elif ch == ')' and depth:
                depth -= 1
            if ch == '|' and depth == 0:
                out_.append(cur)
                cur = ''
            else:
                cur += ch
            i += 1
        out_.append(cur)
        return out_

    def test(pattern, name, relpath, pathmode, is_dir_test):
        """include-any / exclude-none over the |-pieces, each decided by a single-pattern call WITHOUT the negation flags:
        a piece starting with `!` (`-` under MINUSNEGATE; not `!(` under EXTMATCH) excludes; exclusions alone mean
        'everything except'."""
        if not pattern:
            return None
        if pathmode and any(x.startswith('/') or x.startswith('!/') for x in pattern.split('|')):
            return 'SKIP'
        sym = '-' if fl & WM.MINUSNEGATE else '!'
        pos, neg = [], []
        for pc in pieces_of(pattern, pathmode):
            if pc.startswith(sym) and not (sym == '!' and fl & WM.EXTMATCH and pc.startswith('!(')):
                neg.append(pc[1:])
            else:
                pos.append(pc)
        if pathmode:
            g = common_f | Gm.DOTMATCH | (Gm.GLOBSTAR if fl & WM.GLOBSTAR else 0) | (Gm.MATCHBASE if mb else 0)
            subject = relpath + ('/' if is_dir_test else '')
            one = lambda q: Gm.globmatch(subject, q, flags=g)
        else:
            one = lambda q: Fm.fnmatch(name, q, flags=common_f | Fm.DOTMATCH)
        inc = any(one(q) for q in pos if q != '') if pos else True
        return inc and not any(one(q) for q in neg if q != '')
    out = []
    visited = 0
    stack = [root]
    # os.walk order: top-down, directories in listing order
    def walk(base):
        nonlocal visited
        try:
            names = list(os.scandir(base))
        except OSError:
            return
        def isdir(e):
            try:
                return e.is_dir()
            except OSError:
                return False
        dirs = [e.name for e in names if isdir(e)]
        files = [e.name for e in names if not isdir(e)]
        keep = []
        for d in dirs:
            full = os.path.join(base, d)
            rel = os.path.relpath(full, root)
            ok = rec
            if ok and ep:
                r = test(ep, d, rel, dpn, True)
                if r == 'SKIP':
                    raise KeyError('skip')
                if r:
                    ok = False
            if ok and not hid and d.startswith('.'):
                ok = False
            if ok:
                keep.append(d)
        for f in files:
            visited += 1
            full = os.path.join(base, f)
            rel = os.path.relpath(full, root)
            r = True if not fp else test(fp, f, rel, fpn, False)
            if r == 'SKIP':
                raise KeyError('skip')
            if r and not hid and f.startswith('.'):
                r = False
            if r:
                out.append(full)
        for d in keep:
            full = os.path.join(base, d)
            if sym or not os.path.islink(full):
                walk(full)
    walk(root if root.endswith('/') else root + '/')
    return out, visited


def run(ctx):
    import_impl()
    from wcmatch import wcmatch as WM, fnmatch as Fm, glob as Gm
    rng, seed = seeded_rng('c14')
    ctx.proof('Properties/C14.v')
    fps = ['*.txt', '*', 'a*|*.py', '!a*', '*.txt|!a*', '', 'x', '**/*.txt', 'a/*', '*/x*', '[ab]*', '.*', '*.@(txt|py)', '{a,b}*', '-a*', 'A*', 'sub/*', '**/sub/*', '!*.txt|!*.py',
           # `|` inside a bracket expression does not split - unless (path mode) a `/` before the `]` means there is no bracket expression
           'a[/|]b', '[x/|b]', 'a[|]b|*.py', '!*[|]*']
    eps = ['', 'a', 'sub|.h*', '*b*', 'a/b', '**/sub', '!a', 'skip*', 'real', 'd|e', 'A', '*/sub']
    flagsets = ('RECURSIVE', 'HIDDEN', 'SYMLINKS', 'FILEPATHNAME', 'DIRPATHNAME', 'MATCHBASE', 'GLOBSTAR', 'EXTMATCH', 'BRACE', 'IGNORECASE', 'MINUSNEGATE')
    allcases = []
    evals = 0
    nontriv = set()
    samples = []
    results = []
    for t in range(len(trees.DESIGNED) + (4 if ctx.quick else 40)):
        spec = trees.DESIGNED[t] if t < len(trees.DESIGNED) else trees.random_spec(rng, size=rng.randint(5, 14))
        if t == 1:
            spec = spec + [('a|b', 'f', None), (']b', 'f', None), ('b]', 'f', None), ('sub2', 'd', None), ('sub2/a|b', 'f', None), ('sub2/]b', 'f', None), ('sub2/a.py', 'f', None)]
        if t == 2:
            spec = spec + [('.h1', 'd', None), ('.h1/a.txt', 'f', None), ('.h2', 'd', None), ('.h2/b.txt', 'f', None), ('.h3', 'd', None), ('.h3/c.txt', 'f', None),
                           ('skip1', 'd', None), ('skip1/a.txt', 'f', None), ('skip2', 'd', None), ('skip2/b.txt', 'f', None)]
        with trees.Tree(spec) as T:
            cyc = globcommon.has_dir_cycle(T.root)
            cases = []
            for _ in range(120 if ctx.quick else 400):
                f = 0
                for nm in flagsets:
                    pr = .8 if nm == 'RECURSIVE' else .3
                    if rng.random() < pr:
                        f |= getattr(WM, nm)
                if cyc:
                    f &= ~WM.SYMLINKS
                fp, ep = rng.choice(fps), rng.choice(eps)
                cases.append((T.root, fp, ep, f, None, False))
                # search against the independent walk
                try:
                    want, visited = reference(T.root, fp, ep, f, WM, Fm, Gm)
                except KeyError:
                    continue
                w = WM.WcMatch(T.root, fp, ep, flags=f)
                got = w.match()
                # the root written with a trailing separator (or two) names the same directory: same files, same count
                for root2 in (T.root + '/', T.root + '//'):
                    w2 = WM.WcMatch(root2, fp, ep, flags=f)
                    got2 = sorted(os.path.normpath(x) for x in w2.match())
                    if got2 != sorted(os.path.normpath(x) for x in got) or w2.get_skipped() != w.get_skipped():
                        ctx.counterexample('WcMatch(<root>%s, %r, %r, flags=%#x) returns %r (skipped %d); with the root written without the separator %r (skipped %d)' % (
                            root2[len(T.root):], fp, ep, f, sorted(os.path.relpath(x, T.root) for x in got2)[:6], w2.get_skipped(), sorted(os.path.relpath(x, T.root) for x in got)[:6], w.get_skipped()),
                            {'file_pattern': fp, 'exclude_pattern': ep, 'flags': f, 'tree': spec, 'root_suffix': root2[len(T.root):]})
                        break
                evals += 1
                if 0 < len(got) < visited:
                    nontriv.add((fp, ep, f, t))
                if sorted(got) != sorted(want) or len(got) != len(set(got)):
                    ctx.counterexample('WcMatch(%r, %r, flags=%#x) returns %r; the filtered walk selects %r' % (fp, ep, f, sorted(os.path.relpath(x, T.root) for x in got)[:6], sorted(os.path.relpath(x, T.root) for x in want)[:6]),
                                       {'file_pattern': fp, 'exclude_pattern': ep, 'flags': f, 'tree': spec,
                                        'only_impl': sorted(set(got) - set(want))[:6], 'only_reference': sorted(set(want) - set(got))[:6]})
                elif w.get_skipped() != visited - len(got):
                    ctx.counterexample('WcMatch(%r, %r, flags=%#x).get_skipped() = %d, visited %d, returned %d' % (fp, ep, f, w.get_skipped(), visited, len(got)),
                                       {'file_pattern': fp, 'exclude_pattern': ep, 'flags': f, 'tree': spec})
                else:
                    # the same object again: every run counts from zero and selects the same files
                    sk1 = w.get_skipped()
                    got2 = w.match()
                    sk2 = w.get_skipped()
                    got3 = list(w.imatch())
                    sk3 = w.get_skipped()
                    if not (got2 == got == got3) or not (sk1 == sk2 == sk3):
                        ctx.counterexample('WcMatch(%r, %r, flags=%#x): repeated runs of one object differ: %d/%d/%d files, get_skipped() %d/%d/%d' % (
                            fp, ep, f, len(got), len(got2), len(got3), sk1, sk2, sk3),
                            {'file_pattern': fp, 'exclude_pattern': ep, 'flags': f, 'tree': spec, 'runs': 3})
            results.append(corr.corr_wcmatch(cases))
            if len(samples) < 3:
                samples.append({'file_pattern': fp, 'exclude_pattern': ep, 'flags': f})
    ctx.corr('WcMatch walker', corr.merge(results))
    ctx.counted('WcMatch vs independent filtered walk', evals, len(nontriv), samples)
    from props import fringe
    fringe.case_twin_tree(ctx, 'wcmatch')
    fringe.newline_wcmatch(ctx)
    from props import glue
    glue.interleaved_walkers(ctx)
    return ctx.finish(RULE)


def replay(data):
    print(json.dumps(data, indent=1))
    return 0
