"""C16 - pathlib methods are faithful views of wcmatch.glob."""
import json
import os
import corr
import trees
from wclib import import_impl, seeded_rng
from props import common, globcommon

RULE = ('proof: Properties/C16.v (platform rules fixed by the path class, REALPATH on a Windows pure path raises - over the '
        'translated _translate_flags; no normalised key returned twice). correspondence: walker model with the _PATHLIB '
        'configuration (pathlib_norm keys) through glob.Glob. search: on trees x patterns x flags: Path.glob == glob.glob '
        'with that root joined; rglob == glob of the pattern with a leading recursive segment; PurePath.globmatch/'
        'full_match == glob.globmatch on str(path) (+ separator for concrete directories); q.match(p, REALPATH) <=> q in '
        'Path(".").rglob(p); absolute patterns raise ValueError; user FORCEWIN/FORCEUNIX ignored; REALPATH on the foreign '
        'pure class raises; no file twice unless NOUNIQUE. non-trivial = non-empty result')


def run(ctx):
    import_impl()
    from wcmatch import glob as Gm, pathlib as PL
    rng, seed = seeded_rng('c16')
    ctx.proof('Properties/C16.v')
    evals = 0
    nontriv = set()
    known = {}
    pats = ['*', '**', '*/*', '*.txt', '**/*.txt', 'sub', 'sub/', '*/', '**/', 's*', '[ab]*', '!(a*)', '@(real|vis)/*', '.*', 'real/**', '*/sub/*', 'a', 'x.txt',
            ['*', '*/'], ['sub', 'sub/'], ['**/*', '**/*/'], 'nlink', 'd*/', '**/x*', './*', 'real/./x.txt',
            'b/**/deep.txt', 'sub/**/*.txt', 'b/**/sub/*', 'real/**/y.txt', 'x/**/f', '*/**/x*', 'a/**', 'sub/**',
            # segments that can match `.` as well as a real directory (pathlib normalises `./x` and `x/.` to the same path)
            '@(sub|.)/@(sub|.)', '@(.|.hd)/.*', '@(a|.)/@(b|.)', '.*/.*', '@(real|.)/*',
            # four and more segments with a wildcard directory that has siblings (each sibling is searched with the whole rest
            # of the pattern); names that are also reachable through a symlinked directory some levels up
            'pkg/*/lib/mod.py', '*/*/lib/*', 'pkg/*/*/mod.py', 'pkg/?/lib/*.py', 'f2.txt', 's2/*', 's1/*/f2.txt', '*/s2/*']
    # pathlib's normalisation of result keys never merges two different files: names made of dots and line feeds
    with trees.Tree([('\n', 'f', None), ('.\n', 'f', None), ('a', 'd', None), ('a/\n', 'f', None), ('a/.\n', 'f', None), ('a/x', 'f', None), ('..\n', 'f', None)]) as TN:
        for pl_, fl_ in ((['*', '.*'], PL.DOTGLOB), (['.*', '*'], PL.DOTGLOB), (['a/.?', 'a/?'], PL.DOTGLOB), (['a/?', 'a/.?'], 0), (['.?', '..?', '?'], 0)):
            evals += 1
            a_ = sorted(os.path.relpath(str(p_), TN.root) for p_ in PL.Path(TN.root).glob(pl_, flags=fl_))
            b_ = sorted(Gm.glob(pl_, flags=fl_, root_dir=TN.root))
            if a_ != b_:
                ctx.counterexample('Path.glob(%r, %s) = %r but glob.glob gives %r (two different files share a normalised key?)' % (pl_, corr.flag_names(fl_), a_, b_),
                                   {'patterns': pl_, 'flags': corr.flag_names(fl_), 'tree': ['\n', '.\n', 'a/\n', 'a/.\n', 'a/x', '..\n']})
    for ti in range(len(trees.DESIGNED) + (3 if ctx.quick else 30)):
        spec = trees.DESIGNED[ti] if ti < len(trees.DESIGNED) else trees.random_spec(rng, size=rng.randint(5, 12))
        deepx = [('pkg', 'd', None), ('pkg/x', 'd', None), ('pkg/x/lib', 'd', None), ('pkg/x/lib/mod.py', 'f', None), ('pkg/y', 'd', None), ('pkg/y/lib', 'd', None),
                 ('pkg/y/lib/mod.py', 'f', None), ('pkg/z', 'd', None), ('pkg/z/lib', 'd', None), ('pkg/z/lib/other.py', 'f', None),
                 ('rl', 'd', None), ('rl/s1', 'd', None), ('rl/s1/s2', 'd', None), ('rl/s1/s2/f2.txt', 'f', None), ('rl/h2.txt', 'f', None), ('lnk2', 'l', 'rl')]
        names0 = set(e[0].split('/')[0] for e in spec)
        if names0 & {'pkg', 'rl', 'lnk2'}:
            deepx = []
        with trees.Tree(spec + [('pkg.d', 'd', None), ('pkg.d/m.py', 'f', None)] + deepx) as T:
            cyc = globcommon.has_dir_cycle(T.root)
            old = os.getcwd()
            os.chdir(T.root)
            try:
                root = PL.Path(T.root)
                for pat in pats:
                    for fv in (0, PL.GLOBSTAR, PL.GLOBSTAR | PL.DOTGLOB | PL.EXTGLOB, PL.EXTGLOB | PL.NODIR, PL.GLOBSTAR | PL.NEGATE | PL.SCANDOTDIR,
                               PL.EXTGLOB | PL.SCANDOTDIR, PL.EXTGLOB | PL.SCANDOTDIR | PL.DOTGLOB | PL.GLOBSTAR,
                               PL.GLOBSTAR | PL.NOUNIQUE, PL.GLOBSTAR | PL.FOLLOW, PL.GLOBSTARLONG | PL.FOLLOW, PL.FORCEWIN if hasattr(PL, 'FORCEWIN') else Gm.FORCEWIN,
                               Gm.FORCEUNIX | Gm.GLOBSTAR):
                        if cyc and fv & (PL.FOLLOW | PL.GLOBSTARLONG):
                            continue
                        evals += 1
                        fg = fv & ~(Gm.FORCEWIN | Gm.FORCEUNIX)
                        # Path.glob == glob.glob with that root, joined
                        a = sorted(str(p) for p in root.glob(pat, flags=fv))
                        b = sorted(str(root.joinpath(x)) for x in Gm.glob(pat, flags=fg | Gm._PATHLIB | Gm._NOABSOLUTE, root_dir=T.root))
                        if a != b:
                            ctx.counterexample('Path.glob(%r, %s) differs from glob.glob with that root: %r vs %r' % (pat, corr.flag_names(fv), a[:5], b[:5]),
                                               {'pattern': pat, 'flags': corr.flag_names(fv), 'tree': spec})
                        if a:
                            nontriv.add((str(pat), fv, ti))
                        if not fv & PL.NOUNIQUE and len(a) != len(set(a)):
                            ctx.counterexample('Path.glob(%r, %s) yields the same file twice: %r' % (pat, corr.flag_names(fv), [x for x in set(a) if a.count(x) > 1][:3]),
                                               {'pattern': pat, 'flags': corr.flag_names(fv), 'tree': spec})
                        # rglob == glob of the pattern with an implicit leading recursive segment
                        r1 = sorted(str(p) for p in root.rglob(pat, flags=fv))
                        rec = (lambda p: p if p.startswith('**/') else '**/' + p)
                        pp_ = [rec(p) for p in pat] if isinstance(pat, list) else rec(pat)
                        has_gs = any('**' in p for p in (pat if isinstance(pat, list) else [pat]))
                        if not (fv & PL.GLOBSTARLONG and fv & PL.FOLLOW) and (fv & PL.GLOBSTAR or not has_gs):
                            r2 = sorted(set(str(p) for p in root.glob(pp_, flags=fv | PL.GLOBSTAR)))
                            starts_gs = any(p.startswith('**') for p in (pat if isinstance(pat, list) else [pat]))
                            if sorted(set(r1)) != r2 and not starts_gs and not (fv & PL.NOUNIQUE):
                                ctx.counterexample('Path.rglob(%r, %s) differs from glob(%r): %r vs %r' % (pat, corr.flag_names(fv), pp_, sorted(set(r1) - set(r2))[:4], sorted(set(r2) - set(r1))[:4]),
                                                   {'pattern': pat, 'flags': corr.flag_names(fv), 'tree': spec})
                        if not fv & PL.NOUNIQUE and len(r1) != len(set(r1)):
                            ctx.counterexample('Path.rglob(%r, %s) yields the same file twice' % (pat, corr.flag_names(fv)), {'pattern': pat, 'tree': spec, 'result': r1[:10]})
                        # match (right anchored, REALPATH) <=> rglob yields it, for relative paths below cwd
                        # (with SCANDOTDIR a pattern that can match `.` yields `x/.`, which pathlib spells `x`: rglob then yields
                        #  paths by another route than match() takes; that spelling question is left to the duplicates clause)
                        if isinstance(pat, str) and not (fv & (PL.NODIR | PL.NEGATE)) and './' not in pat and not (fv & PL.SCANDOTDIR and '.' in pat):
                            yielded = set(os.path.relpath(str(p), T.root) for p in PL.Path('.').rglob(pat, flags=fv))
                            for q in sorted(set(T.entries()) | (set() if cyc else set(T.entries_follow()))):
                                evals += 1
                                mq = PL.Path(q).match(pat, flags=fv | PL.REALPATH)
                                if mq != (q in yielded):
                                    full = os.path.join(T.root, q)
                                    kid = None
                                    if pat.startswith('**') and mq and '/' not in q:
                                        kid = 'C16-rglob-leading-globstar'
                                    elif globcommon.hid(q):
                                        kid = 'C03-prefix-gstar-hidden'
                                    elif os.path.islink(full) and not os.path.isdir(full):
                                        kid = 'C04-final-gstar-link-to-nondir'
                                    elif pat.endswith('/') and not os.path.isdir(full):
                                        kid = 'C04-gstar-div-accepts-file'
                                    elif not mq and any(os.path.islink(os.path.join(T.root, *q.split('/')[:k])) for k in range(1, len(q.split('/')) + 1)) and \
                                            ('**' in pat or (fv & PL.GLOBSTARLONG and fv & PL.FOLLOW)):
                                        # rglob yields it, match() rejects it: the path splits in several ways between the implied
                                        # recursive prefix and a written `**`, and only the first split is examined for symlinks
                                        kid = 'C04-first-decomposition-only'
                                    elif '(' in pat:
                                        kid = 'C02-group-segment-empty'
                                    if kid and ctx.is_known(lambda e, kid=kid: e['id'] == kid):
                                        known.setdefault(kid, (q, pat, corr.flag_names(fv), mq))
                                        continue
                                    ctx.counterexample('Path(%r).match(%r, %s|REALPATH) = %r but rglob %s it' % (q, pat, corr.flag_names(fv), mq, 'yields' if q in yielded else 'does not yield'),
                                                       {'path': q, 'pattern': pat, 'flags': corr.flag_names(fv), 'tree': spec})
                                    break
                        # PurePath.globmatch / full_match == glob.globmatch on the string (+ sep for concrete directories)
                        if isinstance(pat, str):
                            for q in T.entries()[:12]:
                                evals += 1
                                isdir = os.path.isdir(os.path.join(T.root, q))
                                want_pure = Gm.globmatch(q, pat, flags=fg | Gm.FORCEUNIX)
                                want_conc = Gm.globmatch(q + ('/' if isdir else ''), pat, flags=fg | Gm.FORCEUNIX)
                                got_pure = PL.PurePosixPath(q).globmatch(pat, flags=fv & ~Gm.FORCEWIN)
                                got_full = PL.PurePosixPath(q).full_match(pat, flags=fv & ~Gm.FORCEWIN)
                                got_conc = PL.Path(q).globmatch(pat, flags=fv & ~Gm.FORCEWIN)
                                got_cfull = PL.Path(q).full_match(pat, flags=fv & ~Gm.FORCEWIN)
                                got_abs = PL.Path(os.path.join(T.root, q)).full_match(os.path.join(T.root, pat), flags=fv & ~Gm.FORCEWIN) if not pat.startswith(('!', '/')) else None
                                want_abs = Gm.globmatch(os.path.join(T.root, q) + ('/' if isdir else ''), os.path.join(T.root, pat), flags=fg | Gm.FORCEUNIX) if got_abs is not None else None
                                if got_cfull != want_conc or got_abs != want_abs:
                                    ctx.counterexample('Path(%r).full_match(%r, %s) = %r (absolute spelling %r); glob.globmatch on the string with the directory separator says %r (%r)' % (
                                        q, pat, corr.flag_names(fv), got_cfull, got_abs, want_conc, want_abs),
                                        {'path': q, 'pattern': pat, 'flags': corr.flag_names(fv), 'tree': spec, 'is_dir': isdir})
                                    break
                                if (got_pure, got_full, got_conc) != (want_pure, want_pure, want_conc):
                                    ctx.counterexample('globmatch/full_match of %r against %r (%s): pure=%r full=%r concrete=%r, glob.globmatch says %r / %r' % (
                                        q, pat, corr.flag_names(fv), got_pure, got_full, got_conc, want_pure, want_conc),
                                        {'path': q, 'pattern': pat, 'flags': corr.flag_names(fv), 'tree': spec, 'is_dir': isdir})
                                    break
                # exclusions are right-anchored like the patterns they go with: rglob with exclusions yields q exactly when q.match
                # with the same exclusions (REALPATH) accepts it - given inline (NEGATE) or through exclude=
                for inc_, exc_ in (('*.txt', 'x.txt'), ('*', 'sub'), ('*.py', 'mod.py'), ('*/*', 's2/*'), ('*', 'lib/*')):
                    for how_ in ('inline', 'exclude='):
                        for fx in (0, PL.GLOBSTAR, PL.DOTGLOB):
                            try:
                                if how_ == 'inline':
                                    ylds = set(os.path.relpath(str(p), T.root) for p in PL.Path('.').rglob([inc_, '!' + exc_], flags=fx | PL.NEGATE))
                                    acc = lambda q_: PL.Path(q_).match([inc_, '!' + exc_], flags=fx | PL.NEGATE | PL.REALPATH)
                                else:
                                    ylds = set(os.path.relpath(str(p), T.root) for p in PL.Path('.').rglob(inc_, flags=fx, exclude=exc_))
                                    acc = lambda q_: PL.Path(q_).match(inc_, flags=fx | PL.REALPATH, exclude=exc_)
                                for q in T.entries():
                                    if globcommon.hid(q) or any(os.path.islink(os.path.join(T.root, *q.split('/')[:k])) for k in range(1, len(q.split('/')) + 1)):
                                        continue
                                    evals += 1
                                    if acc(q) != (q in ylds):
                                        ctx.counterexample('Path(%r).match(%r minus %r (%s), %s|REALPATH) = %r but rglob %s it' % (
                                            q, inc_, exc_, how_, corr.flag_names(fx), acc(q), 'yields' if q in ylds else 'does not yield'),
                                            {'path': q, 'pattern': inc_, 'exclusion': exc_, 'how': how_, 'flags': corr.flag_names(fx), 'tree': spec})
                                        raise StopIteration
                            except StopIteration:
                                break
                # errors - the same for every path object naming an entry of the tree: the root, a directory, a regular file, a link
                objs = [root] + [root.joinpath(e_) for e_ in T.entries()[:6]]
                err_cases = []
                for ob in objs:
                    err_cases += [(lambda ob=ob: list(ob.glob('/abs')), 'glob absolute on %r' % os.path.relpath(str(ob), T.root)),
                                  (lambda ob=ob: list(ob.rglob('/abs/*')), 'rglob absolute on %r' % os.path.relpath(str(ob), T.root)),
                                  (lambda ob=ob: list(ob.glob(['ok', '/abs'])), 'glob list with absolute on %r' % os.path.relpath(str(ob), T.root))]
                for thunk, what in err_cases:
                    evals += 1
                    try:
                        thunk()
                        ctx.counterexample('%s pattern did not raise ValueError' % what, {'call': what})
                    except ValueError:
                        pass
                    except Exception as e:
                        ctx.counterexample('%s raised %s instead of ValueError' % (what, type(e).__name__), {'call': what})
                evals += 1
                try:
                    PL.PureWindowsPath('a').match('a', flags=PL.REALPATH)
                    ctx.counterexample('REALPATH on PureWindowsPath (foreign platform) did not raise ValueError', {})
                except ValueError:
                    pass
                # user-supplied FORCEWIN / FORCEUNIX are ignored
                for q, p in (('A/b', 'a/B'), ('a\\b', 'a/b'), ('a/b', 'a\\\\b')):
                    evals += 1
                    base = PL.PurePosixPath(q).globmatch(p)
                    if PL.PurePosixPath(q).globmatch(p, flags=Gm.FORCEWIN) != base or PL.PureWindowsPath(q).globmatch(p, flags=Gm.FORCEUNIX) != PL.PureWindowsPath(q).globmatch(p):
                        ctx.counterexample('a user-supplied FORCEWIN/FORCEUNIX changes the answer of a pure path (%r vs %r)' % (q, p), {'path': q, 'pattern': p})
            finally:
                os.chdir(old)
    # directories whose names are made of dots only (three and more: ordinary hidden names, not the special ones), and the
    # empty pattern: match(p, REALPATH) <=> rglob(p) yields it
    nd_ = 0
    dspec = [('...', 'd', None), ('.../f', 'f', None), ('.../sub', 'd', None), ('.../sub/f', 'f', None), ('n', 'd', None), ('n/....', 'd', None), ('n/..../f', 'f', None),
             ('a', 'd', None), ('a/f.txt', 'f', None), ('a/...', 'f', None), ('..x', 'd', None), ('..x/f', 'f', None), ('f', 'f', None)]
    with trees.Tree(dspec) as TD:
        old = os.getcwd()
        os.chdir(TD.root)
        try:
            for pat in ('f', '*', '?', 'sub/f', '*/f', '...', '.../f', '', [''], ('',), ['', 'no-such-name'], ['', 'f'], '*.txt'):
                for fv in (PL.DOTGLOB, PL.DOTGLOB | PL.GLOBSTAR, PL.DOTGLOB | PL.EXTGLOB, 0, PL.GLOBSTAR):
                    try:
                        yielded = set(os.path.relpath(str(p), TD.root) for p in PL.Path('.').rglob(pat, flags=fv))
                    except Exception as ex_:
                        ctx.counterexample('Path.rglob(%r, %s) raised %s: %s' % (pat, corr.flag_names(fv), type(ex_).__name__, ex_), {'pattern': repr(pat), 'flags': corr.flag_names(fv)})
                        continue
                    for q in sorted(TD.entries()):
                        nd_ += 1
                        mq = PL.Path(q).match(pat, flags=fv | PL.REALPATH)
                        if mq != (q in yielded):
                            if not fv & PL.DOTGLOB and globcommon.hid(q) and ctx.is_known(lambda e: e['id'] == 'C03-prefix-gstar-hidden'):
                                known.setdefault('C03-prefix-gstar-hidden', (q, pat, corr.flag_names(fv), mq))
                                continue
                            ctx.counterexample('Path(%r).match(%r, %s|REALPATH) = %r but rglob %s it (tree with dots-only directory names)' % (q, pat, corr.flag_names(fv), mq, 'yields' if q in yielded else 'does not yield'),
                                               {'path': q, 'pattern': repr(pat), 'flags': corr.flag_names(fv), 'tree': dspec})
                            break
        finally:
            os.chdir(old)
    ctx.counted('match vs rglob on dots-only directory names and the empty pattern', nd_, nd_ // 2, [{'path': '.../f', 'pattern': 'f', 'flags': 'DOTGLOB'}])
    for kid, (q, pat, fl, mq) in sorted(known.items()):
        ctx.known_finding(kid, 'Path(%r).match(%r, %s|REALPATH) = %r, rglob says the opposite' % (q, pat, fl, mq))
    ctx.counted('pathlib views', evals, len(nontriv), [{'pattern': '**/*.txt'}, {'pattern': ['*', '*/']}])
    from props import fringe
    fringe.empty_pattern(ctx)
    from props import glue
    glue.realpath_follows_fs(ctx)
    glue.pathlib_exclude(ctx)
    from props import clauses
    clauses.misc_clauses(ctx, 'C16')
    return ctx.finish(RULE)


def replay(data):
    print(json.dumps(data, indent=1))
    return 0
