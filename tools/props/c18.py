"""C18 - bytes and str inputs behave identically."""
import json
import os
import shutil
import tempfile
import corr
import astgen
from wclib import import_impl, seeded_rng, strings_upto, Model, dec
from props import common

RULE = ('proof: Properties/C18.v (class ranges and class texts of the bytes and str POSIX tables are equal; bytes >= '
        '0x80 are in no class; the two full ranges). correspondence: every parser/scanner stream is run as f(x) and '
        'f(encode x) and both compared with the model (regex text for str and bytes flag by flag). search: every API '
        '(fnmatch, filter, translate, escape, is_magic, globmatch, glob, WcMatch) on ASCII inputs gives bytes answers '
        'equal to the encoded str answers; single bytes 0x80-0xff against bracket/POSIX/?/* forms; TypeError on '
        'mixing str and bytes. non-trivial = (pattern, api) with a non-empty answer')


def run(ctx):
    import_impl()
    from wcmatch import fnmatch as Fm, glob as Gm, wcmatch as WM
    rng, seed = seeded_rng('c18')
    ctx.proof('Properties/C18.v')
    F = corr.fl
    fsets = [0, F('EXTMATCH'), F('IGNORECASE', 'EXTMATCH'), F('PATHNAME', 'GLOBSTAR', 'EXTMATCH'), F('PATHNAME', 'EXTMATCH', 'DOTMATCH', '_TRANSLATE'),
             F('RAWCHARS', 'EXTMATCH')]
    extra = ['[z-a]', '[!z-a]', '[b-a]x', 'a[!c-a]', '[[:alpha:]z-a]', '[z-a[:digit:]]', '[!z-ab-a]']
    common.parse_text_corr(ctx, 'wcparse text str vs bytes', fsets, extra_patterns=extra)

    def e(x):
        if isinstance(x, str):
            # the one legitimate difference: the "everything" range is the whole code space of the string type
            return x.replace('\x00-\U0010ffff', '\x00-\xff').encode('latin-1')
        if isinstance(x, (list, tuple)):
            return type(x)(e(i) for i in x)
        return x
    g = astgen.Gen(rng)
    m = Model()
    asts = sorted(set(astgen.seq_str(g.seq()) for _ in range(300 if ctx.quick else 3000)))
    outs = m.run(['den 0 0 0 %s []' % a for a in asts])
    pats = [dec(o.split(' ')[0]) for o in outs] + extra + ['!(a*)', '!a', '-a', 'a|b', '{a,b}c', '\\x41*', '~', '**/a', 'A?']
    names = ['a', 'ab', 'b1', 'A', '.a', 'a.b', 'abc', 'x', 'a/b', '-a', '!a', 'ac', 'bc', 'Ab',
             # directory-looking names and line feeds (NODIR's exclusion regex, `$`, `.` are written twice in the source: str and bytes)
             'a/', 'a\nb/', 'a\n/', '\n', 'a\n', '.\n/', 'a/.', 'a/b/', 'a\nb/..', 'x\n/.', 'a\nb']
    evals = 0
    nontriv = set()
    opt_f = [Fm.EXTMATCH, Fm.NEGATE, Fm.SPLIT, Fm.BRACE, Fm.DOTMATCH, Fm.IGNORECASE, Fm.RAWCHARS, Fm.MINUSNEGATE, Fm.NEGATEALL]
    opt_g = [Gm.EXTGLOB, Gm.NEGATE, Gm.SPLIT, Gm.BRACE, Gm.DOTGLOB, Gm.IGNORECASE, Gm.RAWCHARS, Gm.GLOBSTAR, Gm.MATCHBASE, Gm.NODIR]
    for p in pats:
        if any(ord(c) > 127 for c in p):
            continue
        fv = Fm.FORCEUNIX
        for x in opt_f:
            if rng.random() < 0.35:
                fv |= x
        gv = Gm.FORCEUNIX
        for x in opt_g:
            if rng.random() < 0.35:
                gv |= x
        calls = [
            ('fnmatch.filter', lambda P, N: Fm.filter(N, P, flags=fv)),
            ('fnmatch.translate', lambda P, N: Fm.translate(P, flags=fv)),
            ('fnmatch.fnmatch', lambda P, N: [Fm.fnmatch(n, P, flags=fv) for n in N]),
            ('fnmatch.escape', lambda P, N: Fm.escape(P)),
            ('fnmatch.is_magic', lambda P, N: Fm.is_magic(P, flags=fv)),
            ('glob.globfilter', lambda P, N: Gm.globfilter(N, P, flags=gv)),
            ('glob.translate', lambda P, N: Gm.translate(P, flags=gv)),
            ('glob.escape', lambda P, N: Gm.escape(P)),
            ('glob.compile', lambda P, N: [Gm.compile(P, flags=gv).match(n) for n in N]),
        ]
        for api, fn in calls:
            evals += 1
            try:
                rs = fn(p, names)
                es = None
            except Exception as ex:
                rs, es = None, type(ex).__name__
            try:
                rb = fn(e(p), e(names))
                eb = None
            except Exception as ex:
                rb, eb = None, type(ex).__name__
            if es != eb or (es is None and e(rs) != rb):
                ctx.counterexample('%s: bytes answer differs from the encoded str answer for pattern %r (flags %s)' % (
                    api, p, corr.flag_names(fv if api[0] == 'f' else gv)),
                    {'api': api, 'pattern': p, 'flags': corr.flag_names(fv if api[0] == 'f' else gv), 'str': repr(rs or es), 'bytes': repr(rb or eb)})
            elif rs:
                nontriv.add((p, api))
    # the same under Windows rules and for the remaining entry points: glob.is_magic (drive and UNC prefixes written with
    # escaped backslashes included), translate/match with FORCEWIN
    wpats = ['c:\\\\', '\\\\\\\\server\\\\share', '\\\\\\\\?\\\\c:\\\\', '//server\\\\share', '//?/c:/', 'c:/a', 'c:', 'a', 'a*', '{a}', '{a,b}', '~', '~/a', 'a|b', '!a', '-a',
             '\\a', 'a\\\\b', '[a]', 'a/b', 'a\\/b', '@(a)', '?', '\\*', 'c:\\\\a*', '//host/share/*', 'A\\\\B?']
    wnames = ['a', 'c:/a', 'c:\\a', 'A/B1', 'a\\b', '//host/share/x', 'ab']
    for p in wpats:
        for fbase in (0, Gm.BRACE, Gm.SPLIT, Gm.EXTGLOB | Gm.NEGATE, Gm.GLOBTILDE, Gm.MINUSNEGATE | Gm.NEGATE | Gm.BRACE):
            for plat in (Gm.FORCEWIN, Gm.FORCEUNIX):
                fv = fbase | plat
                calls = [('glob.is_magic', lambda P, N: Gm.is_magic(P, flags=fv)),
                         ('fnmatch.is_magic', lambda P, N: Fm.is_magic(P, flags=(fv & ~Gm.GLOBTILDE))),
                         ('glob.globmatch', lambda P, N: [Gm.globmatch(n, P, flags=fv & ~Gm.GLOBTILDE) for n in N]),
                         ('glob.translate', lambda P, N: Gm.translate(P, flags=fv & ~Gm.GLOBTILDE)),
                         ('fnmatch.fnmatch', lambda P, N: [Fm.fnmatch(n, P, flags=fv & ~Gm.GLOBTILDE) for n in N]),
                         ('fnmatch.translate', lambda P, N: Fm.translate(P, flags=fv & ~Gm.GLOBTILDE)),
                         ('glob.escape', lambda P, N: Gm.escape(P, unix=not (plat & Gm.FORCEWIN)))]
                for api, fn in calls:
                    evals += 1
                    try:
                        rs, es = fn(p, wnames), None
                    except Exception as ex:
                        rs, es = None, type(ex).__name__
                    try:
                        rb, eb = fn(e(p), e(wnames)), None
                    except Exception as ex:
                        rb, eb = None, type(ex).__name__
                    if es != eb or (es is None and e(rs) != rb):
                        ctx.counterexample('%s: bytes answer differs from the encoded str answer for pattern %r (flags %s)' % (api, p, corr.flag_names(fv)),
                                           {'api': api, 'pattern': p, 'flags': corr.flag_names(fv), 'str': repr(rs or es), 'bytes': repr(rb or eb)})
                    elif rs:
                        nontriv.add((p, api, fv))
    # `~` expansion (GLOBTILDE) - in inclusion and in exclusion patterns - on a home directory of our own
    import tempfile as _tf, shutil as _sh
    home = _tf.mkdtemp(prefix='c18home_')
    old_home = os.environ.get('HOME')
    try:
        os.environ['HOME'] = home
        for nm_ in ('keep.txt', 'skip.txt', 'skip2.txt', 'other.md'):
            open(os.path.join(home, nm_), 'w').close()
        os.mkdir(os.path.join(home, 'd'))
        open(os.path.join(home, 'd', 'in.txt'), 'w').close()
        tcases = [(['~/*.txt'], 0), (['~/*.txt', '!~/skip*'], Gm.NEGATE), (['~/*', '!~/*.txt'], Gm.NEGATE), (['~/**/*.txt', '!~/d/**'], Gm.NEGATE | Gm.GLOBSTAR),
                  (['~/*.txt|!~/skip2*'], Gm.NEGATE | Gm.SPLIT), (['~/{keep,skip}.txt', '-~/skip.txt'], Gm.NEGATE | Gm.MINUSNEGATE | Gm.BRACE), (['!~/skip*'], Gm.NEGATE | Gm.NEGATEALL),
                  (['~'], 0), (['~/'], Gm.MARK)]
        for pl_, xf in tcases:
            fv = Gm.GLOBTILDE | xf
            evals += 1
            try:
                rs = Gm.glob(pl_, flags=fv, root_dir=home)
                rb = Gm.glob(e(pl_), flags=fv, root_dir=e(home))
                ms = [Gm.globmatch(os.path.join(home, n_), pl_, flags=fv | Gm.REALPATH) for n_ in ('keep.txt', 'skip.txt', 'd/in.txt', 'nothere')]
                mb_ = [Gm.globmatch(e(os.path.join(home, n_)), e(pl_), flags=fv | Gm.REALPATH) for n_ in ('keep.txt', 'skip.txt', 'd/in.txt', 'nothere')]
                fs_ = Gm.globfilter([os.path.join(home, n_) for n_ in ('keep.txt', 'skip.txt', 'd/in.txt')], pl_, flags=fv | Gm.REALPATH)
                fb_ = Gm.globfilter([e(os.path.join(home, n_)) for n_ in ('keep.txt', 'skip.txt', 'd/in.txt')], e(pl_), flags=fv | Gm.REALPATH)
            except Exception as ex:
                ctx.counterexample('GLOBTILDE %r raised %s' % (pl_, type(ex).__name__), {'patterns': pl_, 'flags': corr.flag_names(fv)})
                continue
            if e(rs) != rb or ms != mb_ or e(fs_) != fb_:
                ctx.counterexample('GLOBTILDE %r (%s): glob str %r / bytes %r; globmatch str %r / bytes %r; globfilter str %d / bytes %d results' % (
                    pl_, corr.flag_names(fv), [x.replace(home, '~') for x in rs][:5], [x.decode().replace(home, '~') for x in rb][:5], ms, mb_, len(fs_), len(fb_)),
                    {'patterns': pl_, 'flags': corr.flag_names(fv), 'home': 'keep.txt skip.txt skip2.txt other.md d/in.txt'})
            elif rs:
                nontriv.add((tuple(pl_), 'tilde'))
    finally:
        if old_home is None:
            os.environ.pop('HOME', None)
        else:
            os.environ['HOME'] = old_home
        _sh.rmtree(home, ignore_errors=True)
    # RAWCHARS escapes that denote a byte >= 0x80: one Latin-1 unit in both modes (never a multi-byte encoding)
    for v in list(range(0x80, 0x100, 7)) + [0xe9, 0xff, 0x80, 0xc3, 0xa9]:
        for form in ('\\x%02x' % v, '[\\x%02x]' % v, '[!\\x%02x]' % v, 'a\\%03o' % v, '[\\x%02x-\\xff]x' % v, '*\\x%02x?' % v):
            for nm in (chr(v), 'a' + chr(v), chr(v) + 'x', 'z', chr(0xc3) + chr(0xa9), 'q' + chr(v) + 'r'):
                evals += 1
                for api, fn in (('fnmatch', lambda P, N: Fm.fnmatch(N, P, flags=Fm.RAWCHARS | Fm.FORCEUNIX)),
                                ('globmatch', lambda P, N: Gm.globmatch(N, P, flags=Gm.RAWCHARS | Gm.FORCEUNIX)),
                                ('translate', lambda P, N: Fm.translate(P, flags=Fm.RAWCHARS | Fm.FORCEUNIX))):
                    try:
                        rs = fn(form, nm)
                    except Exception as ex:
                        rs = 'EXC ' + type(ex).__name__
                    try:
                        rb = fn(form.encode('latin-1'), nm.encode('latin-1'))
                    except Exception as ex:
                        rb = 'EXC ' + type(ex).__name__
                    if api == 'translate' and not isinstance(rs, str):
                        rs = tuple([x.encode('latin-1') for x in part] for part in rs)
                        rb = tuple(list(part) for part in rb) if not isinstance(rb, str) else rb
                    if rs != rb:
                        ctx.counterexample('%s under RAWCHARS: pattern %r on %r gives %r for str but %r for bytes' % (api, form, nm, rs, rb),
                                           {'api': api, 'pattern': form, 'name': nm, 'str': repr(rs), 'bytes': repr(rb)})
                        break
    # non-ASCII bytes operate per byte (case-sensitive forms), equal to the Latin-1 str answer
    forms = ['[\x80-\xff]', '[!a]', '[[:alpha:]]', '[![:alpha:]]', '?', '*', '[z-a]', '[!z-a]', '[[:print:]\xe9]', '[\xe0-\xef]x', 'a?', '[[:ascii:]]', '[![:ascii:]]']
    for b in range(0x80, 0x100):
        for f_ in forms:
            for suffix in ('', 'x'):
                if f_.endswith('x') != bool(suffix) and suffix:
                    continue
                name = chr(b) + ('x' if f_.endswith('x') else '')
                name = ('a' + chr(b)) if f_ == 'a?' else name
                evals += 1
                for fl_ in (Fm.FORCEUNIX, Fm.FORCEUNIX | Fm.CASE | Fm.DOTMATCH):
                    rs = Fm.fnmatch(name, f_, flags=fl_)
                    rb = Fm.fnmatch(name.encode('latin-1'), f_.encode('latin-1'), flags=fl_)
                    if rs != rb:
                        ctx.counterexample('byte %#x against %r: bytes=%r, Latin-1 str=%r' % (b, f_, rb, rs),
                                           {'byte': b, 'pattern': f_, 'bytes': rb, 'str': rs})
    # mixing str and bytes raises TypeError - for every shape of pattern set (inclusions, exclusions alone, NEGATEALL, exclude=,
    # lists), every matching entry point, with and without REALPATH, and for the directory walker object
    mixed_calls = []
    shapes = [('one pattern', lambda b: (b('a*'), 0, {})), ('exclusion alone', lambda b: (b('!b'), Fm.NEGATE, {})),
              ('exclusion list', lambda b: ([b('!b'), b('!c')], Fm.NEGATE, {})), ('NEGATEALL', lambda b: (b('!b'), Fm.NEGATE | Fm.NEGATEALL, {})),
              ('exclude= only', lambda b: ([], 0, {'exclude': b('b')})), ('pattern + exclude=', lambda b: (b('*'), 0, {'exclude': b('b')})),
              ('SPLIT exclusion', lambda b: (b('!b|!c'), Fm.NEGATE | Fm.SPLIT, {}))]
    enc_s, enc_b = (lambda x: x), (lambda x: x.encode())
    for sh_name, mk in shapes:
        for nm_t, pat_t, label in ((enc_b, enc_s, 'bytes name, str patterns'), (enc_s, enc_b, 'str name, bytes patterns')):
            pt_, fl_, kw_ = mk(pat_t)
            nm_ = nm_t('a')
            mixed_calls += [
                ('fnmatch (%s; %s)' % (sh_name, label), lambda pt_=pt_, fl_=fl_, kw_=kw_, nm_=nm_: Fm.fnmatch(nm_, pt_, flags=fl_, **kw_)),
                ('fnmatch.filter (%s; %s)' % (sh_name, label), lambda pt_=pt_, fl_=fl_, kw_=kw_, nm_=nm_: Fm.filter([nm_], pt_, flags=fl_, **kw_)),
                ('globmatch (%s; %s)' % (sh_name, label), lambda pt_=pt_, fl_=fl_, kw_=kw_, nm_=nm_: Gm.globmatch(nm_, pt_, flags=fl_, **kw_)),
                ('globfilter (%s; %s)' % (sh_name, label), lambda pt_=pt_, fl_=fl_, kw_=kw_, nm_=nm_: Gm.globfilter([nm_], pt_, flags=fl_, **kw_)),
                ('glob.compile().match (%s; %s)' % (sh_name, label), lambda pt_=pt_, fl_=fl_, kw_=kw_, nm_=nm_: Gm.compile(pt_, flags=fl_, **kw_).match(nm_)),
                ('fnmatch.compile().filter (%s; %s)' % (sh_name, label), lambda pt_=pt_, fl_=fl_, kw_=kw_, nm_=nm_: Fm.compile(pt_, flags=fl_, **kw_).filter([nm_])),
            ]
    mixed_calls = [c_ for c_ in mixed_calls if 'exclude= only' not in c_[0] or True]
    from wcmatch import wcmatch as WMm
    here_s, here_b = os.getcwd(), os.fsencode(os.getcwd())
    mixed_calls += [('WcMatch(bytes root, str file pattern)', lambda: WMm.WcMatch(here_b, '*.txt').match()),
                    ('WcMatch(str root, bytes file pattern)', lambda: WMm.WcMatch(here_s, b'*.txt').match()),
                    ('WcMatch(str root, str file pattern, bytes exclude pattern)', lambda: WMm.WcMatch(here_s, '*.txt', b'd', flags=WMm.RECURSIVE).match()),
                    # an EMPTY root of the other type is still of the other type
                    ('globmatch REALPATH bytes name, root_dir=\'\'', lambda: Gm.globmatch(b'f.txt', b'*.txt', flags=Gm.REALPATH, root_dir='')),
                    ('globmatch REALPATH str name, root_dir=b\'\'', lambda: Gm.globmatch('f.txt', '*.txt', flags=Gm.REALPATH, root_dir=b'')),
                    ('globfilter REALPATH bytes names, root_dir=\'\'', lambda: Gm.globfilter([b'f.txt'], b'*', flags=Gm.REALPATH, root_dir='')),
                    ('compile().match REALPATH bytes name, root_dir=\'\'', lambda: Gm.compile(b'*.txt', flags=Gm.REALPATH).match(b'f.txt', root_dir='')),
                    ('glob bytes pattern, root_dir=\'\'', lambda: Gm.glob(b'*', root_dir='')),
                    ('WcMatch(bytes root, None, str exclude pattern)', lambda: WMm.WcMatch(here_b, None, 'd', flags=WMm.RECURSIVE).match())]
    # mixing str and bytes raises TypeError
    for what, thunk in [('fnmatch(str name, bytes pattern)', lambda: Fm.fnmatch('a', b'a')), ('fnmatch(bytes name, str pattern)', lambda: Fm.fnmatch(b'a', 'a')),
                        ('globmatch(str, bytes)', lambda: Gm.globmatch('a', b'a')), ('filter', lambda: Fm.filter([b'a'], 'a')),
                        ('globmatch REALPATH root_dir bytes/str', lambda: Gm.globmatch('a', 'a', flags=Gm.REALPATH, root_dir=b'.')),
                        ('glob root_dir mixing', lambda: Gm.glob('a', root_dir=b'.')), ('glob root_dir mixing 2', lambda: Gm.glob(b'a', root_dir='.')),
                        # the same for every shape of pattern set: exclusion-only (NEGATE), empty list with exclude=, NEGATEALL, compiled matchers
                        ('globmatch REALPATH exclusion-only, str root', lambda: Gm.globmatch(b'keep.txt', b'!skip.log', flags=Gm.NEGATE | Gm.REALPATH | Gm.GLOBSTAR, root_dir='.')),
                        ('globmatch REALPATH exclusion-only, bytes root', lambda: Gm.globmatch('keep.txt', '!skip.log', flags=Gm.NEGATE | Gm.REALPATH, root_dir=b'.')),
                        ('globmatch REALPATH [] + exclude=, str root', lambda: Gm.globmatch(b'keep.txt', [], exclude=b'*.log', flags=Gm.REALPATH, root_dir='.')),
                        ('globfilter REALPATH exclusion-only', lambda: Gm.globfilter([b'keep.txt'], b'!skip.log', flags=Gm.NEGATE | Gm.REALPATH, root_dir='.')),
                        ('compile().match REALPATH exclusion-only', lambda: Gm.compile(b'!skip.log', flags=Gm.NEGATE | Gm.REALPATH).match(b'keep.txt', root_dir='.')),
                        ('compile().match REALPATH NEGATEALL', lambda: Gm.compile(b'!skip.log', flags=Gm.NEGATE | Gm.NEGATEALL | Gm.REALPATH).match(b'keep.txt', root_dir='.')),
                        ('compile().filter REALPATH', lambda: Gm.compile('*.txt', flags=Gm.REALPATH).filter(['keep.txt'], root_dir=b'.')),
                        # an empty name is a name of its type like any other
                        ("globmatch('', b'*')", lambda: Gm.globmatch('', b'*')), ("globmatch(b'', '*')", lambda: Gm.globmatch(b'', '*')), ("fnmatch('', b'*')", lambda: Fm.fnmatch('', b'*')),
                        ("fnmatch.filter([''], b'*')", lambda: Fm.filter([''], b'*')), ("globfilter([b'a', b''], '*')", lambda: Gm.globfilter([b'a', b''], '*')),
                        ("compile(b'*').match('')", lambda: Fm.compile(b'*').match('')), ("fnmatch('', b'!x', NEGATE|NEGATEALL)", lambda: Fm.fnmatch('', b'!x', flags=Fm.NEGATE | Fm.NEGATEALL)),
                        ("globmatch(b'', '*', REALPATH)", lambda: Gm.globmatch(b'', '*', flags=Gm.REALPATH))] + mixed_calls:
        evals += 1
        try:
            r = thunk()
            ctx.counterexample('%s returned %r instead of raising TypeError' % (what, r), {'call': what})
        except TypeError:
            pass
        except Exception as ex:
            ctx.counterexample('%s raised %s instead of TypeError' % (what, type(ex).__name__), {'call': what})
    # instances of a str / bytes subclass are names, patterns and roots of their base type: same answers, no TypeError
    class SubS(str):
        pass

    class SubB(bytes):
        pass
    for what, thunk, want in [("fnmatch(S('a.txt'), '*.txt')", lambda: Fm.fnmatch(SubS('a.txt'), '*.txt'), True), ("filter([S('a')], 'a')", lambda: Fm.filter([SubS('a')], 'a'), ['a']),
                              ("fnmatch(B(b'a'), b'?')", lambda: Fm.fnmatch(SubB(b'a'), b'?'), True), ("globmatch(S('a/b'), 'a/*')", lambda: Gm.globmatch(SubS('a/b'), 'a/*'), True),
                              ("globmatch('a', S('a'))", lambda: Gm.globmatch('a', SubS('a')), True), ("globmatch(S('x'), '!x', NEGATE|NEGATEALL)", lambda: Gm.globmatch(SubS('x'), '!x', flags=Gm.NEGATE | Gm.NEGATEALL), False),
                              ("globmatch('.', '*', REALPATH|DOTGLOB... root_dir=S('.'))", lambda: Gm.globmatch('..', '..', flags=Gm.REALPATH, root_dir=SubS('.')), True),
                              ("globmatch(B(b'..'), b'..', REALPATH, root_dir=b'.')", lambda: Gm.globmatch(SubB(b'..'), b'..', flags=Gm.REALPATH, root_dir=b'.'), True),
                              ("compile('*').match(S('q'))", lambda: bool(Fm.compile('*').match(SubS('q'))), True), ("globfilter([S('a'), 'b'], '[ab]')", lambda: Gm.globfilter([SubS('a'), 'b'], '[ab]'), ['a', 'b'])]:
        evals += 1
        try:
            r = thunk()
        except Exception as ex:
            r = 'raised %s: %s' % (type(ex).__name__, ex)
        if r != want:
            ctx.counterexample('%s gives %r; with plain str/bytes arguments the answer is %r (nothing here mixes str and bytes)' % (what, r, want), {'call': what})
    # glob / WcMatch on a tree, str root vs bytes root: same paths, same order
    tmp = tempfile.mkdtemp(prefix='c18_')
    try:
        for n in ('a.txt', 'b1', 'c2', '.h', 'd/e.txt', 'd/f/g.py', 'D2/x'):
            os.makedirs(os.path.dirname(os.path.join(tmp, n)) or tmp, exist_ok=True)
            open(os.path.join(tmp, n), 'w').close()
        for p in ['*', '**', '*/*', '!(a*)', 'd/**', '*.txt', '**/*.@(py|txt)', '[a-c]*', '.*', '{a.txt,b1}', 'a*|b*', '!a*',
                  # every spelling of the separators, a dangling backslash, `.`/`..` segments, a trailing separator
                  'd//*', 'd///f//*.py', '**//*.txt', 'd/\\/*', 'd//', 'd/\\', './d/*', 'd/../*', 'd/./f/*', '*/', 'd/f/', '*//']:
            for gv in (Gm.GLOBSTAR | Gm.EXTGLOB, Gm.GLOBSTAR | Gm.EXTGLOB | Gm.NEGATE | Gm.BRACE | Gm.SPLIT | Gm.MARK, Gm.DOTGLOB | Gm.EXTGLOB | Gm.NEGATE):
                evals += 1
                rs = Gm.glob(p, flags=gv, root_dir=tmp)
                rb = Gm.glob(e(p), flags=gv, root_dir=e(tmp))
                if e(rs) != rb:
                    ctx.counterexample('glob(%r, %s): bytes result differs from the encoded str result' % (p, corr.flag_names(gv)),
                                       {'pattern': p, 'flags': corr.flag_names(gv), 'str': rs, 'bytes': repr(rb)})
                elif rs:
                    nontriv.add((p, 'glob'))
        for p, x in [('*.txt', ''), ('*', 'd'), ('*.py|*.txt', 'f'), ('!a*', ''), ('*.txt', 'd/f'), ('*', '*/f|D2'), ('**/*.py', 'nomatch')]:
            for wv in (WM.RECURSIVE, WM.RECURSIVE | WM.HIDDEN | WM.FILEPATHNAME | WM.GLOBSTAR, WM.RECURSIVE | WM.BRACE | WM.EXTMATCH,
                       WM.RECURSIVE | WM.DIRPATHNAME, WM.RECURSIVE | WM.DIRPATHNAME | WM.GLOBSTAR | WM.FILEPATHNAME, WM.RECURSIVE | WM.DIRPATHNAME | WM.MATCHBASE,
                       WM.DIRPATHNAME, WM.RECURSIVE | WM.SYMLINKS | WM.IGNORECASE):
                evals += 1
                rs = WM.WcMatch(tmp, p, x, flags=wv).match()
                rb = WM.WcMatch(e(tmp), e(p), e(x), flags=wv).match()
                if e(rs) != rb:
                    ctx.counterexample('WcMatch(%r, %r): bytes result differs from the encoded str result' % (p, x),
                                       {'pattern': p, 'exclude': x, 'str': rs, 'bytes': repr(rb)})
        # omitted patterns take their type from the root directory
        for args in [(), (None, 'd'), ('*.txt',), (None, None), ('*.txt', None)]:
            for wv in (WM.RECURSIVE, 0, WM.RECURSIVE | WM.HIDDEN):
                evals += 1
                rs = WM.WcMatch(tmp, *args, flags=wv).match()
                rb = WM.WcMatch(e(tmp), *[e(a) if a is not None else None for a in args], flags=wv).match()
                if e(rs) != rb:
                    ctx.counterexample('WcMatch(root%s, flags=%#x): bytes root gives %d paths, str root %d' % (''.join(', %r' % (a,) for a in args), wv, len(rb), len(rs)),
                                       {'args': [a for a in args], 'flags': wv, 'str': rs, 'bytes': repr(rb)})
    finally:
        shutil.rmtree(tmp, ignore_errors=True)
    ctx.counted('str vs bytes', evals, len(nontriv), [{'pattern': pats[0]}, {'byte': '0xe9', 'form': '[!z-a]'}])
    from props import fringe
    fringe.ascii_controls(ctx)
    from props import glue
    glue.bytes_dirfd_hidden(ctx)
    glue.pathlike_names(ctx)
    from props import clauses
    clauses.windows_drive_bytes(ctx)
    clauses.bytes_high_and_nonascii_dirs(ctx)
    return ctx.finish(RULE)


def replay(data):
    print(json.dumps(data, indent=1))
    return 0
