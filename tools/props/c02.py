"""C02 - path matching respects separators, segments, globstar and MATCHBASE."""
import json
import os
import corr
import astgen
from wclib import import_impl, seeded_rng
from props import common

RULE = ('proof obligations: Properties/C02.v. correspondence: exact regex text of the extracted WcParse model vs '
        'WcParse(p,flags).parse() in path mode (GLOBSTAR/GLOBSTARLONG/MATCHBASE/DOTGLOB/EXTGLOB/NODIR-relevant flag '
        'sets, incl. REALPATH and translate variants) on bounded-exhaustive strings. search: glob.compile().match and '
        'globfilter vs Spec.pden on every path up to length 5 over {pattern literals, ., /, x}; names whose segments '
        'begin with `.` are left to C03 unless DOTGLOB. non-trivial = pattern accepting some but not all paths')


def flagsets():
    F = corr.fl
    P = 'PATHNAME'
    return [F(P), F(P, 'GLOBSTAR'), F(P, 'GLOBSTAR', 'DOTMATCH'), F(P, 'GLOBSTAR', 'EXTMATCH'),
            F(P, 'GLOBSTAR', 'EXTMATCH', 'DOTMATCH'), F(P, 'GLOBSTAR', 'MATCHBASE', 'EXTMATCH'),
            F(P, 'GLOBSTAR', 'GLOBSTARLONG', 'FOLLOW', 'MATCHBASE'), F(P, 'GLOBSTARLONG', 'EXTMATCH'),
            F(P, 'GLOBSTAR', 'REALPATH', 'EXTMATCH'), F(P, 'GLOBSTAR', '_TRANSLATE', 'EXTMATCH'),
            F(P, 'GLOBSTAR', 'NODOTDIR', 'EXTMATCH'), F(P, 'GLOBSTAR', 'IGNORECASE')]


def has_hidden_segment(n):
    return any(s.startswith('.') for s in n.split('/') if s)


def n_nonempty(n):
    return len([s for s in n.split('/') if s])


def n_spat(ast):
    segs = ast.split(':')[1].split('/')
    return len([s for s in segs if s not in ('g', 'G')])


def group_first_segment(ast):
    return any(s.startswith('x') for s in ast.split(':')[1].split('/'))


def group_segment_can_be_empty(ast):
    from props import globcommon
    return globcommon.group_segment_can_be_empty(ast)


def group_then_wild(ast):
    from props import globcommon
    return globcommon.group_then_wild(ast)


def classifiers():
    return [
        ('C02-group-segment-empty', lambda m: m['name'] is not None and m['impl'] is True and m['ub'] is False and
         group_segment_can_be_empty(m['ast']) and
         (m['cfg']['mb'] or '//' in m['name'] or m['name'].endswith('/') or n_nonempty(m['name']) < n_spat(m['ast'])
          or any(s in ('g', 'G') for s in m['ast'].split(':')[1].split('/')))),
        ('C02-globstar-div-newline', lambda m: m['name'] is not None and m['impl'] is True and m['ub'] is False and
         m['name'].endswith('\n') and len(m['name']) >= 2 and m['name'][-2] != '/' and
         (any(sg in ('g', 'G') for sg in m['ast'].split(':')[1].split('/')[:-1]) or
          # MATCHBASE puts the same `**/` in front of a pattern without separator
          (m['cfg']['mb'] and m['ast'].startswith('r:') and '/' not in m['ast'].split(':')[1]))),
        ('C02-dotdir-guard-newline', lambda m: m['name'] is not None and m['impl'] is False and m['lb'] is True and
         m['name'].rstrip('/').split('/')[-1] in ('.\n', '..\n')),
        ('C01-group-dot-guard-repeat', lambda m: m['name'] is not None and m['impl'] is False and m['lb'] is True and
         any(s.startswith('x') and ('xS' in s or 'xP' in s) for s in m['ast'].split(':')[1].split('/')) and
         any('.' in s[1:] for s in m['name'].split('/'))),
        ('C01-excl-newline', lambda m: m['name'] is not None and '\n' in m['name'] and 'xN' in m['ast']
         and m['impl'] is False),
    ]


def run(ctx):
    import_impl()
    from wcmatch import glob as Gm
    rng, seed = seeded_rng('c02')
    ctx.proof('Properties/C02.v')
    res = common.parse_text_corr(ctx, 'wcparse text (path flag sets)', flagsets())

    g = astgen.Gen(rng, lits='ab.', path=True)
    pps = set()
    for _ in range(260 if ctx.quick else 2500):
        pps.add(g.ppat(long_=True))
    # every bracket shape in the middle / at the start of a segment (a bracket may never match the separator)
    for b in astgen.BRACKETS:
        for pre in ('l61', 's', 'q', 'b0[c61]'):
            pps.add('r:%s.%s.l62:t' % (pre, b))
            pps.add('r:l61/%s.%s:t' % (pre, b))
        pps.add('r:%s.l62:t' % b)
    pps = sorted(pps)
    # directed search: patterns on which the regex text differs from the model, read back into ASTs
    F = corr.flags()
    directed = common.directed_asts(res, 'path')
    dmism = []
    for a, fv in directed:
        cf = dict(ci=int(bool(fv & F['IGNORECASE'])), dot=int(bool(fv & F['DOTMATCH'])), gs=int(bool(fv & (F['GLOBSTAR'] | F['GLOBSTARLONG']))),
                  gl=int(bool(fv & F['GLOBSTARLONG'])), mb=int(bool(fv & F['MATCHBASE'])))
        e_, n_, mm = corr.search_pden([a], [cf], maxlen=5)
        dmism += mm
    cfgs = [dict(ci=0, dot=0, gs=1, gl=0, mb=0), dict(ci=0, dot=1, gs=1, gl=0, mb=0), dict(ci=0, dot=0, gs=0, gl=0, mb=0),
            dict(ci=0, dot=0, gs=1, gl=0, mb=1), dict(ci=1, dot=1, gs=1, gl=1, mb=0),
            # GLOBSTARLONG alone implies the globstar, with MATCHBASE too
            dict(ci=0, dot=0, gs=1, gl=1, mb=1, noG=1), dict(ci=0, dot=1, gs=1, gl=1, mb=0, noG=1)]
    ev, nt, mism = corr.search_pden(pps, cfgs, maxlen=5)
    # the same names with a final line feed: it belongs to the last segment like any other character
    ev3, nt3, mism3 = corr.search_pden(pps[:: 3 if ctx.quick else 1], [cfgs[0], cfgs[2], cfgs[3]], maxlen=4, nl_suffix=True)
    ev, nt = ev + ev3, nt + nt3
    mism = dmism + mism + mism3
    # hidden segments without DOTGLOB belong to C03
    mism = [m for m in mism if m['name'] is None or m['cfg']['dot'] or not has_hidden_segment(m['name'])]
    # `.`/`..` segments under DOTGLOB belong to C03 as well
    mism = [m for m in mism if m['name'] is None or not any(s in ('.', '..') for s in m['name'].split('/'))]
    hits, rest = common.attribute(
        ctx, mism, classifiers(),
        lambda m: 'glob %s(%r, %r, %s) = %r but the segment-wise language says %s' % (
            m.get('api', ''), m['name'], m['pattern'], m['flags'], m['impl'], m['ub']))
    ctx.counted('globmatch vs Spec.pden', ev, nt, [{'ppat': p} for p in pps[:: max(1, len(pps) // 3)]][:3],
                {'patterns': len(pps), 'configs': len(cfgs), 'attributed': {k: len(v) for k, v in hits.items()},
                 'unattributed': len(rest)})
    # the same language through the other spellings of the matcher: compile().match/filter, globfilter, pathlib's
    # PurePath.globmatch and full_match (whole path, segment by segment - not the right-anchored `match`)
    from wcmatch import pathlib as PLm
    nfe = 0
    fe_pats = ['x', 'b/x', '*/x', '*', '**/x', 'b/**', '@(b|c)/x', '?', 'a/*/x', '*/*/x', 'a/**/x', '**', 'a/b/*', '*/b/?', '[ab]/*']
    fe_names = ['a/b/x', 'b/x', 'x', 'a/x', 'a/b', 'c/x', 'a/b/c/x', 'a', 'b']
    for fp_ in fe_pats:
        for ff in (0, Gm.GLOBSTAR, Gm.EXTGLOB, Gm.GLOBSTAR | Gm.EXTGLOB | Gm.DOTGLOB, Gm.MATCHBASE, Gm.GLOBSTAR | Gm.MATCHBASE, Gm.IGNORECASE):
            want = [Gm.globmatch(n_, fp_, flags=ff | Gm.FORCEUNIX) for n_ in fe_names]
            cm_ = Gm.compile(fp_, flags=ff | Gm.FORCEUNIX)
            alts = {'compile().match': [cm_.match(n_) for n_ in fe_names],
                    'compile().filter': [n_ in cm_.filter(fe_names) for n_ in fe_names],
                    'globfilter': [n_ in Gm.globfilter(fe_names, fp_, flags=ff | Gm.FORCEUNIX) for n_ in fe_names],
                    'PurePosixPath.globmatch': [PLm.PurePosixPath(n_).globmatch(fp_, flags=ff) for n_ in fe_names],
                    'PurePosixPath.full_match': [PLm.PurePosixPath(n_).full_match(fp_, flags=ff) for n_ in fe_names]}
            for how, got in alts.items():
                nfe += len(fe_names)
                if got != want:
                    k = next(i for i in range(len(want)) if got[i] != want[i])
                    ctx.counterexample('%s of %r against %r (%s) = %r but glob.globmatch = %r' % (how, fe_names[k], fp_, corr.flag_names(ff), got[k], want[k]),
                                       {'pattern': fp_, 'name': fe_names[k], 'flags': corr.flag_names(ff), 'front_end': how})
                    break
    ctx.counted('front ends of the path matcher agree', nfe, nfe // 3, [{'pattern': 'b/x', 'name': 'a/b/x'}])
    # a run of separators in the pattern counts as one - however the run is spelled (`//`, an escaped `\/`, mixtures,
    # also right after `**` and after merged `**/**`) - and a final backslash that escapes nothing is ignored
    import astgen as AG
    m_ = __import__('wclib').Model()
    sp_pps = pps[:: 2 if ctx.quick else 1] + ['r:g/g/l61:t', 'r:g/g/g/l61.s:t', 'R:g/g/l61:T', 'r:l61/g/g/q:t', 'r:G/g/l61:t', 'r:g/G/s:T']
    outs = m_.run(['pden 0 0 0 1 0 0 %s []' % p_ for p_ in sp_pps])
    nsp = nsp_nt = nsp_bad = 0
    for pp, o in zip(sp_pps, outs):
        ptxt = corr.dec(o.split(' ')[0])
        vars_ = common.separator_respellings(ptxt, rng)
        if not vars_ or nsp_bad >= 3:
            continue
        al = corr.derived_alphabet(pp, extra='x')[:2]
        for c_ in ('.', '/'):
            if c_ not in al:
                al.append(c_)
        names = list(AG.names_upto(al, 5))
        for ff in (Gm.GLOBSTAR, Gm.GLOBSTAR | Gm.DOTGLOB, Gm.GLOBSTAR | Gm.GLOBSTARLONG, 0, Gm.GLOBSTAR | Gm.MATCHBASE):
            fl_ = ff | Gm.FORCEUNIX | (Gm.EXTGLOB if 'x' in pp else 0)
            try:
                base = Gm.compile(ptxt, flags=fl_)
                want = [base.match(n_) for n_ in names]
            except Exception:
                continue
            nsp_nt += 0 < sum(want) < len(want)
            for v_ in vars_:
                nsp += len(names)
                try:
                    got = [Gm.compile(v_, flags=fl_).match(n_) for n_ in names]
                except Exception as e:
                    ctx.counterexample('compile(%r, %s) raises %s although %r compiles' % (v_, corr.flag_names(fl_), type(e).__name__, ptxt),
                                       {'pattern': v_, 'flags': corr.flag_names(fl_), 'same_as': ptxt})
                    break
                if got != want:
                    nsp_bad += 1
                    k = next(i for i in range(len(want)) if got[i] != want[i])
                    ctx.counterexample('globmatch(%r, %r, %s) = %r but %r with the separators written once = %r (a run of separators in the pattern counts as one)' % (
                        names[k], v_, corr.flag_names(fl_), got[k], ptxt, want[k]),
                        {'pattern': v_, 'same_as': ptxt, 'name': names[k], 'flags': corr.flag_names(fl_)})
                    break
            if nsp_bad >= 3:
                break
    # the spellings that once failed (fixed in f91f5f1 / b077d2f), every run
    for v_, ptxt in (('a/**/**//b', 'a/**/**/b'), ('**/**//b', '**/**/b'), ('a/\\/b', 'a/b'), ('a\\/\\/b', 'a/b'), ('a/**/\\/b', 'a/**/b'), ('**//**//b', '**/**/b'),
                     ('a/***/**///b', 'a/***/**/b')):
        names = list(AG.names_upto(['a', 'b', 'x', '/'], 5))
        for fl_ in (Gm.GLOBSTAR | Gm.FORCEUNIX, Gm.GLOBSTAR | Gm.GLOBSTARLONG | Gm.FORCEUNIX, Gm.FORCEUNIX):
            nsp += len(names)
            a_, b_ = Gm.compile(v_, flags=fl_), Gm.compile(ptxt, flags=fl_)
            bad_ = [n_ for n_ in names if a_.match(n_) != b_.match(n_)]
            if bad_:
                ctx.counterexample('globmatch(%r, %r, %s) = %r but %r with the separators written once = %r (a run of separators in the pattern counts as one)' % (
                    bad_[0], v_, corr.flag_names(fl_), a_.match(bad_[0]), ptxt, b_.match(bad_[0])),
                    {'pattern': v_, 'same_as': ptxt, 'name': bad_[0], 'flags': corr.flag_names(fl_)})
                break
    ctx.counted('separator runs in the pattern, however spelled, count as one', nsp, nsp_nt, [{'pattern': 'a/\\/**//**//b', 'same_as': 'a/**/**/b'}])
    # NODIR: the exclusion regex accepts exactly directory-looking paths
    import itertools
    names = [''.join(t) for n in range(1, 6) for t in itertools.product('a./', repeat=n)] + \
            [''.join(t) for n in range(1, 5) for t in itertools.product('a\n/.', repeat=n) if '\n' in t]
    bad = 0
    for n in names:
        segs = [s for s in n.split('/')]
        dirlike = n.endswith('/') or segs[-1] in ('.', '..')
        got = Gm.globmatch(n, '**', flags=Gm.GLOBSTAR | Gm.DOTGLOB | Gm.NODIR | Gm.FORCEUNIX)
        plain = Gm.globmatch(n, '**', flags=Gm.GLOBSTAR | Gm.DOTGLOB | Gm.FORCEUNIX)
        if plain and got == dirlike:
            bad += 1
            if bad <= 3:
                ctx.counterexample('NODIR: globmatch(%r, "**", NODIR) = %r but the path %s directory-like' % (
                    n, got, 'is' if dirlike else 'is not'), {'name': n, 'pattern': '**', 'flags': 'GLOBSTAR|DOTGLOB|NODIR'})
    ctx.counted('NODIR exclusion', len(names), len(names) // 2, [{'name': 'a/./', 'dirlike': True}])
    # NODIR acts on whatever the pattern set accepts - also when the inclusion is the one NEGATEALL supplies
    nn_ = 0
    for n in [x for x in names if '\n' not in x][:400]:
        for excl, gs in (('!zz', Gm.GLOBSTAR), ('!*/zz', 0), ('!zz', Gm.MATCHBASE)):
            nn_ += 1
            a_ = Gm.globmatch(n, excl, flags=gs | Gm.DOTGLOB | Gm.NODIR | Gm.NEGATE | Gm.NEGATEALL | Gm.FORCEUNIX)
            b_ = Gm.globmatch(n, ['**', excl], flags=Gm.GLOBSTAR | (gs & Gm.MATCHBASE) | Gm.DOTGLOB | Gm.NODIR | Gm.NEGATE | Gm.FORCEUNIX)
            if a_ != b_:
                ctx.counterexample('globmatch(%r, %r, NEGATE|NEGATEALL|NODIR) = %r but with the match-everything pattern written out (%r) it is %r' % (n, excl, a_, ['**', excl], b_),
                                   {'name': n, 'pattern': excl, 'flags': 'NEGATE|NEGATEALL|NODIR|DOTGLOB'})
                break
        else:
            continue
        break
    ctx.counted('NODIR with the inclusion NEGATEALL supplies', nn_, nn_ // 2, [{'name': 'x/', 'pattern': '!a'}])
    # a trailing separator on the pattern demands a directory-style path: with REALPATH a path written without one is
    # directory-style exactly when it is a directory below the root it is given relative to - wherever the process stands
    # (the bare `**/` is left out: finding C04-gstar-div-accepts-file)
    import trees as _tr
    nr_ = 0
    with _tr.Tree([('dir_x', 'd', None), ('dir_x/inner', 'd', None), ('file_y', 'f', None), ('dir_x/f', 'f', None)]) as TR, _tr.Tree([('file_y', 'd', None), ('dir_x', 'f', None)]) as DECOY:
        old_cwd = os.getcwd()
        try:
            os.chdir(DECOY.root)          # a decoy working directory in which the kinds are the other way round
            for nm_, isd in (('dir_x', True), ('file_y', False), ('dir_x/inner', True), ('dir_x/f', False)):
                for pt_, fl_, want in (('*/', 0, isd and '/' not in nm_), ('*', Gm.NODIR, (not isd) and '/' not in nm_), ('**', Gm.GLOBSTAR | Gm.NODIR, not isd),
                                       ('**/*/', Gm.GLOBSTAR, isd)):
                    nr_ += 1
                    got = [Gm.globmatch(nm_, pt_, flags=fl_ | Gm.REALPATH, root_dir=TR.root), Gm.compile(pt_, flags=fl_ | Gm.REALPATH).match(nm_, root_dir=TR.root),
                           bool(Gm.globfilter([nm_], pt_, flags=fl_ | Gm.REALPATH, root_dir=TR.root))]
                    if got != [want] * 3:
                        ctx.counterexample('globmatch(%r, %r, %s|REALPATH, root_dir=<tree>) = %r (compile, filter: %r) but %r is %s under that root' % (
                            nm_, pt_, corr.flag_names(fl_), got[0], got[1:], nm_, 'a directory' if isd else 'not a directory'),
                            {'name': nm_, 'pattern': pt_, 'flags': corr.flag_names(fl_ | Gm.REALPATH), 'tree': ['dir_x/', 'dir_x/inner/', 'dir_x/f', 'file_y'], 'cwd': 'a directory where dir_x is a file and file_y a directory'})
        finally:
            os.chdir(old_cwd)
    ctx.counted('directory-style paths under REALPATH with a root', nr_, nr_ // 2, [{'name': 'dir_x', 'pattern': '*/'}])
    common.replay_witnesses(ctx, [
        ('C02-group-segment-empty', "globmatch('a/', 'a/?(a)', EXTGLOB) is True (a segment made of a group that can match empty accepts an empty segment)",
         lambda: Gm.globmatch('a/', 'a/?(a)', flags=Gm.EXTGLOB | Gm.FORCEUNIX) is True),
        ('C02-globstar-div-newline', "globmatch('/a\\n', '/**/?', GLOBSTAR) is True (the `$` in the globstar divider matches before a final line feed)",
         lambda: Gm.globmatch('/a\n', '/**/?', flags=Gm.GLOBSTAR | Gm.FORCEUNIX) is True),
    ])
    from props import fringe
    fringe.empty_pattern(ctx)
    from props import glue
    glue.realpath_follows_fs(ctx)
    glue.dirfd_dangling(ctx)
    from props import clauses
    clauses.windows_separators(ctx)
    glue.copied_matchers(ctx)
    clauses.matchbase_inert(ctx)
    return ctx.finish(RULE)


def replay(data):
    import_impl()
    from wcmatch import glob as Gm
    print(json.dumps(data, indent=1))
    return 0
