"""C11 - the pattern limit bounds expansion work in every API, default 1000."""
import os
import sys
import itertools
import tempfile
import shutil
import json

import corr
from wclib import import_impl, seeded_rng

RULE = ('proof: Properties/C11.v (defaults regenerated from source; limit=0 never raises; normal return => distinct '
        'patterns incl. exclude= ones <= L). correspondence: extracted '
        'pattern_lists vs _wcparse.translate/compile_pattern (exception-or-lists, exact regex text) with the bracex '
        'oracle recorded from the run. search: every entry point x generated inclusion/exclusion lists with known '
        'expansion counts around each limit L; a case is non-trivial when its expansion count is within 2 of L or '
        'is L*1000; distinct = distinct (api, L, counts) triples')


class LazyCounter:
    def __init__(self):
        import bracex
        self.bracex = bracex
        self.orig = bracex.iexpand
        self.pulled = 0

    def __enter__(self):
        me = self

        def iexpand(string, keep_escapes=False, limit=1000):
            for x in me.orig(string, keep_escapes=keep_escapes, limit=limit):
                me.pulled += 1
                yield x
        self.bracex.iexpand = iexpand
        return self

    def __exit__(self, *a):
        self.bracex.iexpand = self.orig


def brace_pat(prefix, n):
    """A pattern with exactly n distinct expansions under BRACE (n >= 1)."""
    return prefix if n == 1 else '%s{1..%d}' % (prefix, n)


def apis(tmp):
    """name -> callable(patterns, exclude, limit or None (default), flags_extra) ; all run with BRACE|SPLIT."""
    import_impl()
    from wcmatch import fnmatch as F, glob as G, pathlib as PL, wcmatch as WM
    B = F.BRACE | F.SPLIT

    def kw(limit, exclude):
        k = {}
        if limit is not None:
            k['limit'] = limit
        if exclude is not None:
            k['exclude'] = exclude
        return k
    d = {
        'fnmatch.fnmatch': lambda p, e, l: F.fnmatch('zz', p, flags=B, **kw(l, e)),
        'fnmatch.filter': lambda p, e, l: F.filter(['zz'], p, flags=B, **kw(l, e)),
        'fnmatch.translate': lambda p, e, l: F.translate(p, flags=B, **kw(l, e)),
        # the names given do not matter to the count: an empty list / tuple / iterator of names
        'fnmatch.filter, no names': lambda p, e, l: F.filter([], p, flags=B, **kw(l, e)),
        'fnmatch.filter, empty tuple': lambda p, e, l: F.filter((), p, flags=B, **kw(l, e)),
        'fnmatch.filter, empty iterator': lambda p, e, l: F.filter(iter([]), p, flags=B, **kw(l, e)),
        'glob.globfilter, no names': lambda p, e, l: G.globfilter([], p, flags=G.BRACE | G.SPLIT, **kw(l, e)),
        'fnmatch.compile.filter, no names': lambda p, e, l: F.compile(p, flags=B, **kw(l, e)).filter([]),
        'fnmatch.compile': lambda p, e, l: F.compile(p, flags=B, **kw(l, e)),
        'glob.globmatch': lambda p, e, l: G.globmatch('zz', p, flags=G.BRACE | G.SPLIT, **kw(l, e)),
        'glob.globfilter': lambda p, e, l: G.globfilter(['zz'], p, flags=G.BRACE | G.SPLIT, **kw(l, e)),
        'glob.translate': lambda p, e, l: G.translate(p, flags=G.BRACE | G.SPLIT, **kw(l, e)),
        'glob.compile': lambda p, e, l: G.compile(p, flags=G.BRACE | G.SPLIT, **kw(l, e)),
        'glob.glob': lambda p, e, l: G.glob(p, flags=G.BRACE | G.SPLIT, root_dir=tmp, **kw(l, e)),
        'glob.iglob': lambda p, e, l: list(G.iglob(p, flags=G.BRACE | G.SPLIT, root_dir=tmp, **kw(l, e))),
        'pathlib.match': lambda p, e, l: PL.PurePath('zz').match(p, flags=PL.BRACE | PL.SPLIT, **kw(l, e)),
        'pathlib.globmatch': lambda p, e, l: PL.PurePath('zz').globmatch(p, flags=PL.BRACE | PL.SPLIT, **kw(l, e)),
        'pathlib.full_match': lambda p, e, l: PL.PurePath('zz').full_match(p, flags=PL.BRACE | PL.SPLIT, **kw(l, e)),
        'pathlib.glob': lambda p, e, l: list(PL.Path(tmp).glob(p, flags=PL.BRACE | PL.SPLIT, **kw(l, e))),
        'pathlib.rglob': lambda p, e, l: list(PL.Path(tmp).rglob(p, flags=PL.BRACE | PL.SPLIT, **kw(l, e))),
    }

    # the same entry points with every other flag that reaches the loops in which patterns are counted (result shaping,
    # uniqueness, negation, platform): the count does not depend on them
    for xname, xf in (('NOUNIQUE', G.NOUNIQUE), ('NODIR|MARK', G.NODIR | G.MARK), ('NEGATE|NEGATEALL', G.NEGATE | G.NEGATEALL), ('MATCHBASE|GLOBSTAR', G.MATCHBASE | G.GLOBSTAR),
                      ('FORCEWIN', G.FORCEWIN), ('REALPATH', G.REALPATH), ('SCANDOTDIR|DOTGLOB', G.SCANDOTDIR | G.DOTGLOB)):
        d['glob.glob+' + xname] = lambda p, e, l, xf=xf: G.glob(p, flags=(G.BRACE | G.SPLIT | xf) & ~G.REALPATH, root_dir=tmp, **kw(l, e))
        d['glob.globmatch+' + xname] = lambda p, e, l, xf=xf: G.globmatch('zz', p, flags=G.BRACE | G.SPLIT | xf, **kw(l, e))
        if xname in ('NOUNIQUE', 'NODIR|MARK', 'SCANDOTDIR|DOTGLOB'):
            d['pathlib.glob+' + xname] = lambda p, e, l, xf=xf: list(PL.Path(tmp).glob(p, flags=PL.BRACE | PL.SPLIT | xf, **kw(l, e)))
            d['pathlib.rglob+' + xname] = lambda p, e, l, xf=xf: list(PL.Path(tmp).rglob(p, flags=PL.BRACE | PL.SPLIT | xf, **kw(l, e)))

    def wcm(p, e, l):
        # WcMatch takes one file pattern string ('|' separated) and one folder-exclude pattern
        k = {} if l is None else {'limit': l}
        return WM.WcMatch(tmp, '|'.join(p), None, flags=WM.BRACE, **k).match()
    d['wcmatch.WcMatch'] = wcm
    return d


def gen_cases(quick, rng):
    """Yield (L, incl_counts, excl_counts or None).  Patterns are built from counts with distinct prefixes, so the
    number of distinct expanded patterns equals the total count (no duplicates) unless dup=True."""
    Ls = [1, 2, 3, 5, 32, 33, 1000, 1001] if not quick else [1, 2, 3, 5, 32, 33, 1000]
    cases = []
    for L in Ls:
        for tot in sorted(set([max(1, L - 1), L, L + 1, L + 2])):
            cases.append((L, [tot], None))
            if tot >= 2:
                a = tot // 2
                cases.append((L, [a, tot - a], None))
                cases.append((L, [tot - 1], [1]))
                cases.append((L, [1], [tot - 1]))
            if tot >= 3:
                cases.append((L, [1, tot - 2], [1]))
                cases.append((L, [tot - 2], [1, 1]))
                a = (tot - 1) // 2
                cases.append((L, [1], [a, tot - 1 - a]))
        cases.append((L, [L * 1000], None))
        cases.append((L, [1], [L * 1000]))
        cases.append((L, [1, L * 1000], None))
    for tot in (1, 5, 999, 1000, 1001, 1002):
        cases.append((None, [tot], None))            # default limit
        if tot > 2:
            cases.append((None, [tot - 2], [2]))
    for tot in (1, 7, 1500):
        cases.append((0, [tot], None))
        cases.append((0, [3, tot], [2]))
    return cases


def build(counts, base, mode='brace'):
    if mode == 'brace':
        return [brace_pat('%s%d_' % (base, i), n) for i, n in enumerate(counts)]
    # the same counts through SPLIT, one of the pieces being the empty pattern (it is a pattern like any other: it is
    # compiled and it counts) - at the end, at the start or in the middle of the string
    out = []
    for i, n in enumerate(counts):
        pieces = ['%s%d_%d' % (base, i, k) for k in range(1, n)]
        if n == 1:
            out.append('%s%d_1' % (base, i))
        elif i > 0 or base != 'i':
            # one empty piece per call (two would be duplicates of each other): the others split into n written pieces
            out.append('|'.join(pieces + ['%s%d_%d' % (base, i, n)]))
        elif mode == 'brace_bar':
            # a `|` inside a brace alternative: {p1|p2,p3,...} is n-1 alternatives, the first of which splits in two
            out.append('{%s|%s%s}' % (pieces[0] if pieces else '%s%d_0' % (base, i), '%s%d_%d' % (base, i, n), ''.join(',' + x for x in pieces[1:])) if n >= 3 else '|'.join(pieces + ['%s%d_%d' % (base, i, n)]))
        elif mode == 'split_tail':
            out.append('|'.join(pieces) + '|')
        elif mode == 'split_lead':
            out.append('|' + '|'.join(pieces))
        else:
            out.append('|'.join(pieces[:1] + [''] + pieces[1:]))
    return out


KNOWN = {}   # id -> predicate(api, L, inc, exc); the three C11 defects found so far are fixed (known_findings.json)


def run(ctx):
    import_impl()
    from wcmatch import _wcparse as W
    rng, seed = seeded_rng('c11')
    ctx.proof('Properties/C11.v')

    # ---- correspondence: list loops around the limit, exact outputs --------------------------------------
    F = corr.fl
    cases = []
    Ls = [0, 1, 2, 3, 4, 5, 7, -1]
    toks = ['a', 'b', '{a,b}', '{1..3}', '{a,b}{c,d}', 'x|y', 'a|a', '!n', '{1..12}', '*', '-m', 'x|', '|y', 'a||b', '{a|,b|}', '|', 'A', '{a,A}', 'X|x', '!N', '[a-z]', '[A-z]']
    n = 1500 if ctx.quick else 12000
    for i in range(n):
        ps = [rng.choice(toks) + rng.choice(['', rng.choice(toks)]) for _ in range(rng.randint(0, 3))]
        ex = None if rng.random() < 0.45 else [rng.choice(toks) for _ in range(rng.randint(0, 3))]
        f = F('BRACE')
        for nm in ('SPLIT', 'NEGATE', 'MINUSNEGATE', 'NEGATEALL', 'NODIR', 'PATHNAME', 'EXTMATCH', 'IGNORECASE', 'FORCEWIN'):
            if rng.random() < 0.35:
                f |= F(nm)
        cases.append((rng.randint(0, 1), rng.randint(0, 1), f, rng.choice(Ls), ps, ex))
    ctx.corr('pattern_lists(limit)', corr.corr_lists(cases))

    # ---- search: every entry point against the spec ---------------------------------------------------------
    tmp = tempfile.mkdtemp(prefix='c11_')
    try:
        open(os.path.join(tmp, 'zz'), 'w').close()
        table = apis(tmp)
        evals = 0
        nontriv = set()
        samples = []
        known_hit = {}
        all_cases = [(L, inc, exc, 'brace') for (L, inc, exc) in gen_cases(ctx.quick, rng)]
        all_cases += [(L, inc, exc, md) for (L, inc, exc) in gen_cases(ctx.quick, rng) for md in ('split_tail', 'split_lead', 'split_mid', 'brace_bar')
                      if L is not None and 0 < L <= 33 and sum(inc) + sum(exc or []) <= 40 and inc[0] > 1]
        for (L, inc, exc, md) in all_cases:
            pats = build(inc, 'i', md)
            ex = None if exc is None else build(exc, 'e', md)
            total = sum(inc) + (sum(exc) if exc else 0)
            effL = 1000 if L is None else L
            for api, fn in table.items():
                if api == 'wcmatch.WcMatch' and (exc is not None or len(inc) != 1):
                    continue   # one string: BRACE applies before `|` splitting, counts would multiply
                with LazyCounter() as lc:
                    try:
                        fn(pats, ex, L)
                        raised = None
                    except W.PatternLimitException:
                        raised = 'limit'
                    except Exception as e:   # anything else here is unexpected
                        raised = type(e).__name__
                evals += 1
                must_raise = effL > 0 and total > effL      # distinct == total by construction
                must_pass = effL == 0 or total <= effL
                bad = None
                if raised not in (None, 'limit'):
                    bad = 'unexpected exception %s' % raised
                elif must_raise and raised is None:
                    bad = 'no PatternLimitException although %d distinct patterns > limit %d' % (total, effL)
                elif must_pass and raised == 'limit':
                    bad = 'PatternLimitException although total expansion count %d <= limit %s' % (total, effL)
                elif effL > 0 and lc.pulled > 2 * effL + 10:
                    bad = 'generated %d expansions under limit %d (work not bounded by about L+1)' % (lc.pulled, effL)
                if abs(total - effL) <= 2 or total >= 1000 * max(1, effL):
                    nontriv.add((api, L, tuple(inc), None if exc is None else tuple(exc)))
                if bad:
                    hit = [k for k, pred in KNOWN.items()
                           if pred(api, effL, inc, exc) and ctx.is_known(lambda e, k=k: e['id'] == k)]
                    if hit:
                        known_hit.setdefault(hit[0], (api, L, inc, exc, bad))
                    else:
                        ctx.counterexample(bad, {'api': api, 'limit': L, 'patterns': pats, 'exclude': ex,
                                                 'flags': 'BRACE|SPLIT', 'inclusion_counts': inc,
                                                 'exclusion_counts': exc, 'bracex_items_pulled': lc.pulled})
            if len(samples) < 4:
                samples.append({'limit': L, 'patterns': pats, 'exclude': ex, 'total_expansions': total})
        for k, (api, L, inc, exc, bad) in sorted(known_hit.items()):
            ctx.known_finding(k, '%s limit=%s inclusion counts %s exclusion counts %s: %s' % (api, L, inc, exc, bad))
        ctx.counted('entry-points x limit boundaries', evals, len(nontriv), samples,
                    {'apis': len(table), 'known_sites_hit': sorted(known_hit)})
        # default limit is what the documentation says, measured on the implementation as well
        import inspect
        from wcmatch import fnmatch as Fm, glob as Gm, pathlib as PLm, wcmatch as WMm
        for name, fn in (('fnmatch.fnmatch', Fm.fnmatch), ('glob.glob', Gm.glob), ('glob.Glob', Gm.Glob.__init__),
                         ('pathlib.rglob', PLm.Path.rglob), ('wcmatch.WcMatch', WMm.WcMatch.__init__)):
            d = inspect.signature(fn).parameters['limit'].default
            if d != 1000:
                ctx.counterexample('default limit of %s is %r, not 1000' % (name, d), {'api': name, 'default': d})
        # WcMatch: the folder-exclude pattern is subject to the limit like the file pattern, whatever the other flags say
        nw = 0
        for L in (1, 2, 5, 32, 1000):
            for wfl in (0, WMm.RECURSIVE, WMm.DIRPATHNAME, WMm.RECURSIVE | WMm.HIDDEN, WMm.FILEPATHNAME | WMm.SYMLINKS):
                for which in ('exclude', 'file'):
                    for count, expect in ((L, False), (L + 1, True), (L * 50 + 7, True)):
                        nw += 1
                        big = 'd{1..%d}' % count
                        args = ('*.txt', big) if which == 'exclude' else (big, None)
                        kw = {} if L == 1000 and nw % 2 else {'limit': L}
                        try:
                            WMm.WcMatch(tmp, *args, flags=wfl | WMm.BRACE, **kw).match()
                            raised = False
                        except Exception as e:
                            raised = type(e).__name__ == 'PatternLimitException'
                            if not raised:
                                ctx.counterexample('WcMatch(%s pattern %r, limit=%s) raised %s' % (which, big, L, type(e).__name__), {'limit': L, 'which': which})
                                continue
                        if raised != expect:
                            ctx.counterexample('WcMatch(%s pattern with %d brace expansions, limit=%s, flags=%#x): %s' % (
                                which, count, 'default' if not kw else L, wfl, 'PatternLimitException' if raised else 'no exception'),
                                {'which': which, 'count': count, 'limit': L, 'flags': wfl, 'expected_raise': expect})
        ctx.counted('WcMatch file / folder-exclude pattern limits', nw, nw // 2, [{'exclude': 'd{1..6}', 'limit': 5}])
        # what counts as one pattern: the text.  Patterns that differ only in letter case are different patterns even when case is
        # ignored, and the empty string given as a whole pattern (list element, exclude='') is a pattern like any other
        ne = 0
        odd = [(['a', 'b'], ['\xe9', '\xc9'], 4), (['a', 'b'], ['x', 'X'], 4), (['{a,b}'], ['{\xe9,\xc9}'], 4), (['a'], ['\u03c3|\u03a3'], 3), (['q', 'Q', 'r'], None, 3),
               (['k', '\u212a'], ['z'], 3), (['[a-z]', '[A-z]'], ['n'], 3), (['', 'a|b'], None, 3), (['', 'a', 'b'], None, 3), (['a|b'], [''], 3), (['a'], [''], 2),
               (['a', ''], ['b', 'B'], 4), (['', 'a', 'A'], None, 3)]
        for pats_, ex_, tot_ in odd:
            for xname, xf in (('IGNORECASE', Gm.IGNORECASE), ('FORCEWIN', Gm.FORCEWIN), ('', 0), ('CASE', Gm.CASE)):
                # an empty string under BRACE expands to nothing at all (bracex), so the empty pattern is given without BRACE
                fl_ = (Gm.SPLIT if '' in pats_ + (ex_ or []) else Gm.BRACE | Gm.SPLIT) | xf
                kx = {} if ex_ is None else {'exclude': ex_}
                bx = {} if ex_ is None else {'exclude': [x.encode() for x in ex_]}
                ascii_ = all(ord(c) < 128 for x in pats_ + (ex_ or []) for c in x)
                calls = {'fnmatch.fnmatch': lambda L: Fm.fnmatch('zz', pats_, flags=fl_, limit=L, **kx), 'fnmatch.filter': lambda L: Fm.filter(['zz'], pats_, flags=fl_, limit=L, **kx),
                         'fnmatch.compile': lambda L: Fm.compile(pats_, flags=fl_, limit=L, **kx), 'fnmatch.translate': lambda L: Fm.translate(pats_, flags=fl_, limit=L, **kx),
                         'glob.globmatch': lambda L: Gm.globmatch('zz', pats_, flags=fl_, limit=L, **kx), 'glob.globfilter': lambda L: Gm.globfilter(['zz'], pats_, flags=fl_, limit=L, **kx),
                         'glob.translate': lambda L: Gm.translate(pats_, flags=fl_, limit=L, **kx), 'glob.compile': lambda L: Gm.compile(pats_, flags=fl_, limit=L, **kx),
                         'glob.glob': lambda L: Gm.glob(pats_, flags=fl_, limit=L, root_dir=tmp, **kx), 'glob.iglob': lambda L: list(Gm.iglob(pats_, flags=fl_, limit=L, root_dir=tmp, **kx)),
                         'pathlib.glob': lambda L: list(PLm.Path(tmp).glob(pats_, flags=fl_, limit=L, **kx)), 'pathlib.rglob': lambda L: list(PLm.Path(tmp).rglob(pats_, flags=fl_, limit=L, **kx)),
                         'PurePath.globmatch': lambda L: PLm.PurePath('zz').globmatch(pats_, flags=fl_, limit=L, **kx),
                         'PureWindowsPath.match': lambda L: PLm.PureWindowsPath('zz').match(pats_, flags=fl_ & ~Gm.FORCEWIN, limit=L, **kx)}
                if ascii_:
                    calls['glob.glob bytes'] = lambda L: Gm.glob([x.encode() for x in pats_], flags=fl_, limit=L, root_dir=tmp.encode(), **bx)
                    calls['fnmatch bytes'] = lambda L: Fm.fnmatch(b'zz', [x.encode() for x in pats_], flags=fl_, limit=L, **bx)
                for api, th in calls.items():
                    for L, expect in ((tot_ - 1, True), (tot_, False)):
                        ne += 1
                        try:
                            th(L)
                            raised = False
                        except W.PatternLimitException:
                            raised = True
                        except Exception as e_:
                            ctx.counterexample('%s(%r, exclude=%r, %s, limit=%d) raised %s: %s' % (api, pats_, ex_, corr.flag_names(fl_), L, type(e_).__name__, e_), {'api': api, 'patterns': pats_, 'exclude': ex_, 'limit': L})
                            continue
                        if raised != expect:
                            ctx.counterexample('%s(%r, exclude=%r, %s, limit=%d): %s although the call names %d distinct patterns' % (
                                api, pats_, ex_, corr.flag_names(fl_), L, 'PatternLimitException' if raised else 'no PatternLimitException', tot_),
                                {'api': api, 'patterns': pats_, 'exclude': ex_, 'flags': corr.flag_names(fl_), 'limit': L, 'distinct': tot_})
        ctx.counted('what counts as one pattern (case twins, the empty string)', ne, ne, [{'patterns': ['a', 'b'], 'exclude': ['\xe9', '\xc9'], 'flags': 'IGNORECASE', 'limit': 3}])
    finally:
        shutil.rmtree(tmp, ignore_errors=True)
    from props import glue
    glue.limit_zero(ctx)
    from props import clauses
    clauses.misc_clauses(ctx, 'C11')
    return ctx.finish(RULE)


def replay(data):
    print(json.dumps(data, indent=1))
    return 0
