"""Shared pieces of the per-property checks."""
import itertools
import corr
from wclib import strings_upto

ALPHA14 = 'a.*?[]!-()|\\/+@'


def bracket_token_patterns(maxn):
    toks = ['[', ']', '[:alpha:]', '[:digit:]', '-', 'a', 'z', '!', '^', '\\', '/', '&', '.', '*', '0']
    return sorted(set(''.join(t) for n in range(maxn + 1) for t in itertools.product(toks, repeat=n)))


def ext_token_patterns(maxn):
    toks = ['!(', '?(', '*(', '@(', ')', '|', 'a', '/', '.', '*']
    return sorted(set(''.join(t) for n in range(maxn + 1) for t in itertools.product(toks, repeat=n)))


def parse_text_corr(ctx, name, flagsets, quick_len=3, thorough_len=4, extra_patterns=(), bytes_modes=(0, 1),
                    brackets=True, groups=True):
    """Exact regex text: model vs WcParse(p, flags).parse() on bounded-exhaustive strings."""
    n = quick_len if ctx.quick else thorough_len
    pats = list(strings_upto(ALPHA14, n))
    if brackets:
        pats += bracket_token_patterns(3 if ctx.quick else 4)
    if groups:
        pats += ext_token_patterns(4 if ctx.quick else 5)
    # random longer strings mixing metacharacters, POSIX class tokens and ranges (same PRNG as the check)
    import random
    rng = random.Random('%d/%s' % (ctx.seed, name))
    toks = list(ALPHA14) + ['[:alpha:]', '[:digit:]', '[:punct:]', 'a-f', '0-9', 'z-a', '**', '!(', '@(', '+(', '*(',
                           '?(', '\n', 'b', '_', '^', '&', '~', '{', '}', ':', ' ']
    for _ in range(1500 if ctx.quick else 20000):
        pats.append(''.join(rng.choice(toks) for _ in range(rng.randint(3, 10))))
    for _ in range(600 if ctx.quick else 6000):
        body = ''.join(rng.choice(['[:alpha:]', '[:digit:]', '[:xdigit:]', 'a-f', '0-9', 'A-Z', 'z-a', 'a', '_', '-', '.',
                                   '\\]', '\\-', '!', '^', '[', '&&', '/', '[:punct:]', '+-0', '!-~', ',-.']) for _ in range(rng.randint(1, 5)))
        pats.append(rng.choice(['', 'a', '*', '?(']) + '[' + body + ']' + rng.choice(['', 'b', '*', ')']))
    if brackets:
        # every combination of negation and reversed / valid / mixed-case ranges: the emptied and the "anything" class
        rngs = ['b-a', 'z-a', '9-0', 'a-b', 'A-z', 'Z-a', 'a-Z', '_-b', 'a', '#', '(?#)']
        for neg in ('', '!', '^'):
            for k in (1, 2):
                for combo in itertools.product(rngs, repeat=k):
                    for pre, post in (('', ''), ('x', 'y'), ('@(', '|x)'), ('!(', ')')):
                        pats.append(pre + '[' + neg + ''.join(combo) + ']' + post)
    # grammar-guided nested patterns: the long-range state of the parser (what an earlier group / segment leaves
    # behind for a later one), which bounded-exhaustive short strings cannot reach
    import textgen
    pats += textgen.corpus(rng, 2500 if ctx.quick else 40000)
    pats += list(extra_patterns)
    pats = sorted(set(pats))
    res = corr.corr_parse(pats, flagsets, bytes_modes=bytes_modes)
    ctx.corr(name, res)
    return res


def replay_witnesses(ctx, witnesses):
    """witnesses: list of (finding id, description, thunk -> bool (True = still fails))."""
    for kid, desc, thunk in witnesses:
        ent = ctx.is_known(lambda e, kid=kid: e['id'] == kid)
        try:
            still = thunk()
        except Exception as e:   # a witness that now raises is a change of behaviour, not the known finding
            still = False
            ctx.counterexample('witness of %s raised %s: %s' % (kid, type(e).__name__, e), {'witness': desc})
        if ent and still:
            ctx.known_finding(kid, desc)
        elif still and not ent:
            ctx.counterexample('unlisted defect: ' + desc, {'witness': desc})


def attribute(ctx, mism, classifiers, what, limit=8):
    """classifiers: list of (finding id, predicate(m) -> bool).  Unattributed mismatches become counterexamples."""
    hits = {}
    rest = []
    for m in mism:
        for kid, pred in classifiers:
            if pred(m) and ctx.is_known(lambda e, kid=kid: e['id'] == kid):
                hits.setdefault(kid, []).append(m)
                break
        else:
            rest.append(m)
    seen = set()
    for m in rest:
        key = (m.get('pattern'), m.get('flags'))
        if key in seen:
            continue
        seen.add(key)
        if len(seen) > limit:
            break
        ctx.counterexample(what(m), m)
    return hits, rest


def directed_asts(res, mode, limit=150):
    """ASTs read back from the raw patterns on which the text correspondence broke (directed search)."""
    import astparse
    F = corr.flags()
    out = []
    seen = set()
    # corr.rank_disagreements ordered them: semantic differences first, shortest first (they shrink the replay)
    for p, fv in res.get('disagreeing_patterns', []):
        ext = bool(fv & F['EXTMATCH'])
        if mode == 'flat':
            a = astparse.flat(p, ext)
        else:
            a = astparse.path(p, ext, bool(fv & (F['GLOBSTAR'] | F['GLOBSTARLONG'])), bool(fv & F['GLOBSTARLONG']))
        if a is None or (a, fv) in seen:
            continue
        seen.add((a, fv))
        out.append((a, fv))
        if len(out) >= limit:
            break
    return out


def toplevel_separators(p):
    """Positions of the unescaped `/` of a path pattern that lie outside brackets and extended groups."""
    out = []
    depth = 0
    i = 0
    n = len(p)
    while i < n:
        c = p[i]
        if c == '\\':
            i += 2
            continue
        if c == '[':
            # a bracket expression closes at the first `]` after its first member; a `/` inside aborts it (path mode)
            j = i + 1
            if j < n and p[j] in '!^':
                j += 1
            if j < n and p[j] == ']':
                j += 1
            k = j
            while k < n and p[k] != ']' and p[k] != '/':
                k += 2 if p[k] == '\\' else 1
            if k < n and p[k] == ']':
                i = k + 1
                continue
        elif c == '(':
            depth += 1
        elif c == ')' and depth:
            depth -= 1
        elif c == '/' and depth == 0:
            out.append(i)
        i += 1
    return out


SEP_SPELLINGS = ['//', '///', '\\/', '/\\/', '\\//', '\\/\\/', '//\\/']


def separator_respellings(p, rng, k=3):
    """Up to k respellings of p in which runs of separators - plain or escaped - replace single separators (the
    documentation: a run counts as one), plus one with a final backslash that escapes nothing (ignored)."""
    pos = toplevel_separators(p)
    out = []
    for _ in range(k if pos else 0):
        q = list(p)
        for i in pos:
            if rng.random() < 0.6:
                # a leading separator stays unescaped: it is what makes the pattern rooted
                q[i] = rng.choice(['//', '///']) if i == 0 else rng.choice(SEP_SPELLINGS)
        q = ''.join(q)
        if q != p:
            out.append(q)
    nb = len(p) - len(p.rstrip('\\'))
    if p and nb % 2 == 0:
        out.append(p + '\\')
    return sorted(set(out))
