"""C12 - glob results are well-formed and independent of how the root is given."""
import json
import os
import pathlib
import corr
import trees
from wclib import import_impl, seeded_rng
from props import common, globcommon

RULE = ('proof: Properties/C12.v (format_path adds a trailing separator exactly for dir-only patterns or MARK+directory; '
        'one-directory results are joins of the current directory with a listed entry). correspondence: walker model '
        '(shared with C05). search: every element of glob()/iglob() on generated and designed trees x patterns (relative, '
        'absolute, with ./.., trailing and duplicate separators) x {MARK, NODIR, GLOBSTAR, DOTGLOB, SCANDOTDIR, MATCHBASE, '
        'BRACE, SPLIT, NEGATE}: lexists, relative/absolute spelling, trailing separator iff (pattern ended with one or '
        'MARK) and directory, never a directory under NODIR; iglob == glob; identical results for root_dir as str, bytes, '
        'PathLike, for dir_fd and for chdir. non-trivial = non-empty result')


def run(ctx):
    import_impl()
    from wcmatch import glob as Gm
    rng, seed = seeded_rng('c12')
    ctx.proof('Properties/C12.v')
    stats = {'evals': 0, 'nontriv': set()}

    def check_results(T, pattern, fv, res, where):
        trail_pat = pattern.endswith('/') if isinstance(pattern, str) else all(p.endswith('/') for p in pattern)
        for r in res:
            stats['evals'] += 1
            full = r if os.path.isabs(r) else os.path.join(T.root, r)
            pats = [pattern] if isinstance(pattern, str) else pattern
            if not os.path.lexists(full):
                ctx.counterexample('%s(%r, %s) returned %r which does not exist' % (where, pattern, corr.flag_names(fv), r), {'pattern': pattern, 'result': r, 'tree': T.spec})
                return
            if any(p.startswith('/') for p in pats) != os.path.isabs(r) and len(pats) == 1:
                ctx.counterexample('%s(%r) returned %r: relative/absolute spelling does not follow the pattern' % (where, pattern, r), {'pattern': pattern, 'result': r})
                return
            isdir = os.path.isdir(full)
            if r.endswith('/') and not isdir:
                ctx.counterexample('%s(%r, %s) returned %r with a trailing separator but it is not a directory' % (where, pattern, corr.flag_names(fv), r),
                                   {'pattern': pattern, 'result': r, 'tree': T.spec})
                return
            if isinstance(pattern, str) and not fv & (Gm.BRACE | Gm.SPLIT):
                want_sep = (trail_pat or bool(fv & Gm.MARK)) and isdir
                if want_sep and not r.endswith('/'):
                    ctx.counterexample('%s(%r, %s) returned %r: trailing separator expected=%r' % (where, pattern, corr.flag_names(fv), r, want_sep),
                                       {'pattern': pattern, 'result': r, 'tree': T.spec})
                    return
            if fv & Gm.MARK and isdir and not r.endswith('/'):
                ctx.counterexample('%s(%r, %s) returned the directory %r without the separator MARK asks for' % (where, pattern, corr.flag_names(fv), r),
                                   {'pattern': pattern, 'result': r, 'tree': T.spec})
                return
            if fv & Gm.NODIR and isdir:
                ctx.counterexample('%s(%r, %s) returned the directory %r under NODIR' % (where, pattern, corr.flag_names(fv), r), {'pattern': pattern, 'result': r, 'tree': T.spec})
                return

    def on_case(T, spec, pp, pattern, c, fv, got_list, lb, ub, sw):
        for extra in (0, Gm.MARK):
            f2 = fv | extra
            res = got_list if not extra else Gm.glob(pattern, flags=f2, root_dir=T.root)
            if res:
                stats['nontriv'].add((pattern, f2, len(spec)))
            check_results(T, pattern, f2, res, 'glob')
        it = list(Gm.iglob(pattern, flags=fv, root_dir=T.root))
        if it != got_list:
            ctx.counterexample('iglob(%r, %s) != glob: %r vs %r' % (pattern, corr.flag_names(fv), it[:5], got_list[:5]), {'pattern': pattern, 'tree': spec})

    saved = ctx.counterexample
    noise = []
    ctx.counterexample = lambda what, replay: (noise.append(what) if ('segment-wise reading' in what or what.endswith('missing')) and 'returned' in what and 'does not denote' in what or ': missing' in what else saved(what, replay))
    try:
        ev, nt, samples, _k = globcommon.run_spec_search(ctx, rng, 4 if ctx.quick else 40, 14 if ctx.quick else 40, on_case=on_case)
    finally:
        ctx.counterexample = saved
    ctx.counted('well-formed results', stats['evals'], len(stats['nontriv']), samples)

    # ---- root independence, absolute patterns, lists ---------------------------------------------------------------
    n = 0

    class PL(os.PathLike):
        def __init__(self, p):
            self.p = p

        def __fspath__(self):
            return self.p
    for ti in range(len(trees.DESIGNED) + (2 if ctx.quick else 20)):
        spec = trees.DESIGNED[ti] if ti < len(trees.DESIGNED) else trees.random_spec(rng, size=rng.randint(5, 12))
        extra = [('decoy', 'd', None), ('decoy/sub', 'd', None), ('decoy/sub/g.txt', 'f', None), ('decoy/top.txt', 'f', None)]
        with trees.Tree(spec) as T, trees.Tree(extra) as D:
            cyc = globcommon.has_dir_cycle(T.root)
            pats = ['.', '..', './', '.|..', '{.,..}', 'real/..', './.', '*', '**', '*/*', 'dang', 'sub/*', '{dang,f}', 'missing|dang|sub', './*', '../' + os.path.basename(T.root) + '/*', '*//*', 'real/', '**/', '!*a*', '.*',
                    ['real/*', 'sub/*'], [os.path.join(T.root, '*'), 'sub/*'], [os.path.join(T.root, 'real', '*.txt'), 'top.txt', '*'], os.path.join(T.root, '**')]
            # patterns written from the tree: literal multi-segment paths (files and directories), a wildcard directory
            # followed by a literal name, and `<link to a directory>/../*` (the parent of the link's target)
            ents = T.entries()
            deep = [e for e in ents if '/' in e and not any(sg.startswith('.') for sg in e.split('/'))][:6]
            pats += deep + ['*/' + e.split('/')[-1] for e in deep[:3]] + ['./' + e for e in deep[:2]]
            for e in ents:
                fe = os.path.join(T.root, e)
                if os.path.islink(fe) and os.path.isdir(fe) and not cyc:
                    pats += [e + '/../*', e + '/..', e + '/./*']
            # every top-level entry written as a plain name (the walker's shortcut for one literal segment), and every
            # non-directory followed by a separator or by more segments (nothing exists below a file)
            tops = [e for e in ents if '/' not in e][:8]
            pats += tops + [e + '/' for e in tops] + ['{%s,%s}' % (tops[0], tops[-1]), '|'.join(tops[:3])] if tops else []
            for e in ents:
                fe = os.path.join(T.root, e)
                if not os.path.isdir(fe) and not e.startswith('.') and len([x for x in pats if isinstance(x, str) and x.startswith(e + '/')]) == 0:
                    pats += [e + '/', e + '//', e + '/**', e + '/..', e + '/.', e + '/*', e + '/../*']
            for pat in pats:
                for fv in (Gm.GLOBSTAR, Gm.GLOBSTAR | Gm.MARK | Gm.BRACE | Gm.SPLIT, Gm.GLOBSTAR | Gm.NODIR | Gm.NEGATE | Gm.DOTGLOB, Gm.MATCHBASE | Gm.SCANDOTDIR,
                           Gm.NODIR, Gm.NODIR | Gm.MARK | Gm.BRACE | Gm.SPLIT):
                    n += 1
                    old = os.getcwd()
                    try:
                        os.chdir(os.path.join(D.root, 'decoy'))     # a decoy cwd that also has sub/ and top.txt
                        a = Gm.glob(pat, flags=fv, root_dir=T.root)
                        enc_ = (lambda x: [i.encode() for i in x] if isinstance(x, list) else x.encode())
                        b = [x.decode() for x in Gm.glob(enc_(pat), flags=fv, root_dir=T.root.encode())]
                        c_ = Gm.glob(pat, flags=fv, root_dir=PL(T.root))
                        c2 = Gm.glob(pat, flags=fv, root_dir=pathlib.Path(T.root))
                        fd = os.open(T.root, os.O_RDONLY)
                        try:
                            d_ = Gm.glob(pat, flags=fv, dir_fd=fd)
                        finally:
                            os.close(fd)
                        os.chdir(T.root)
                        e_ = Gm.glob(pat, flags=fv)
                    finally:
                        os.chdir(old)
                    check_results(T, pat, fv, a, 'glob')
                    if not (a == b == c_ == c2 == d_ == e_):
                        which = [k for k, v in (('bytes root_dir', b), ('PathLike', c_), ('pathlib.Path', c2), ('dir_fd', d_), ('chdir', e_)) if v != a]
                        ctx.counterexample('glob(%r, %s) depends on how the root is given (%s differ from root_dir=str): %r vs %r' % (
                            pat, corr.flag_names(fv), ', '.join(which), a[:6], (b if b != a else c_ if c_ != a else d_ if d_ != a else e_)[:6]),
                            {'pattern': pat, 'flags': corr.flag_names(fv), 'tree': spec, 'differs': which})
                    check_results(T, pat, fv, a, 'glob')
    ctx.counted('root given as str/bytes/PathLike/dir_fd/cwd', n, n // 2, [{'pattern': 'sub/*'}])
    ntn_ = globcommon.trailing_newline_names(ctx)
    ctx.counted('names ending in a line feed: walk (str, bytes, dir_fd, descriptor 0, pathlib) vs REALPATH matcher', ntn_, ntn_ // 2, [{'pattern': '[b]', 'entry': 'b\\n'}])
    nin_ = globcommon.inert_arguments(ctx, rng, 3 if ctx.quick else 6)
    ctx.counted('arguments that cannot change the answer (inert exclude=, root spelling, NOUNIQUE)', nin_, nin_ // 2, [{'pattern': '**', 'exclude': 'zz-no-such-name*'}])
    # a root that is not a directory (missing, or a regular file): nothing exists relative to it, whatever the pattern
    nbad = 0
    with trees.Tree([('f', 'f', None), ('d', 'd', None)]) as TB:
        for broot in (os.path.join(TB.root, 'missing'), os.path.join(TB.root, 'f'), os.path.join(TB.root, 'missing', 'deeper')):
            for pat in ('.', './', '..', '../', './/', './.', '../.', '*', '**', '**/', 'a', 'a/', '.|..', ['./', '../'], '{.,..}/', '*/..', './..//'):
                for fv in (0, Gm.MARK, Gm.GLOBSTAR | Gm.SPLIT | Gm.BRACE, Gm.NODIR, Gm.SCANDOTDIR | Gm.DOTGLOB):
                    nbad += 1
                    enc_ = (lambda x: [i.encode() for i in x] if isinstance(x, list) else x.encode())
                    got = {'str': Gm.glob(pat, flags=fv, root_dir=broot), 'bytes': Gm.glob(enc_(pat), flags=fv, root_dir=broot.encode()), 'iglob': list(Gm.iglob(pat, flags=fv, root_dir=pathlib.Path(broot)))}
                    if any(got.values()):
                        ctx.counterexample('glob(%r, %s, root_dir=<%s>) returns %r: nothing exists relative to such a root' % (pat, corr.flag_names(fv), 'a regular file' if broot.endswith('/f') else 'a missing directory', got),
                                           {'pattern': pat, 'flags': corr.flag_names(fv), 'root': 'regular file' if broot.endswith('/f') else 'missing'})
                        break
    ctx.counted('roots that are not directories', nbad, nbad, [{'pattern': './', 'root_dir': '<missing>'}])
    from props import fringe
    fringe.deep_tree_roots(ctx)
    from props import glue
    glue.bytes_dirfd_hidden(ctx)
    glue.list_is_union(ctx)
    glue.root_through_link(ctx)
    from props import clauses
    clauses.bytes_high_and_nonascii_dirs(ctx)
    return ctx.finish(RULE)


def replay(data):
    print(json.dumps(data, indent=1))
    return 0
