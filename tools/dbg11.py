"""debug: directed search on a seeded change (apply the patch to /repo first)"""
import sys
sys.path.insert(0, '/verif/tools')
import corr, check
from props import common, c02
class Ctx: quick=True; seed=1
import astparse
ctx = Ctx()
ctx.corr = lambda name, res: None
res = common.parse_text_corr(ctx, 'wcparse text (path flag sets)', c02.flagsets())
dp = res['disagreeing_patterns']
print(len(dp), dp[:30])
d = common.directed_asts(res, 'path')
print(len(d), d[:20])
