#!/bin/bash
# usage: seed_verify_batch.sh <dir-with-Cxx/out/m*>  ; verifies every delivered change sequentially
for d in $1/C*/out/m*; do
  c=$(echo $d | sed 's#.*/\(C[0-9][0-9]\)/out/\(m[0-9]*\)#\1-\2#')
  p=${c%%-*}
  [ -f $d/patch.diff ] && [ -f $d/demo.py ] || { echo "$c incomplete"; continue; }
  python3 /verif/tools/seed_verify.py $d $c $p 2>&1 | grep -v WARNING | cut -c1-260
done
