import sys, os, random, json, collections
sys.path.insert(0, os.path.dirname(os.path.abspath(__file__)))
from corr import *
import astgen
rng = random.Random(int(sys.argv[1]) if len(sys.argv)>1 else 1)
g = astgen.Gen(rng)
asts = [astgen.seq_str(t) for t in astgen.flat_seqs(2)] + [astgen.seq_str(g.seq()) for _ in range(int(sys.argv[2]) if len(sys.argv)>2 else 500)]
asts = sorted(set(asts))
ev, nt, mm = search_den(asts, [(0,0,0),(0,1,0),(1,0,0),(0,1,1)], maxlen=4, hidden=(sys.argv[3] if len(sys.argv)>3 else 'all'))
print(len(asts), ev, nt, len(mm))
byp = collections.OrderedDict()
for d in mm:
    byp.setdefault((d['pattern'], d['flags']), []).append((d['name'], d['impl'], d['lb'], d['ub']))
for k, v in list(byp.items())[:40]:
    print(repr(k[0]), k[1], v[:4])
