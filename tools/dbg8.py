import sys, os, random, json
sys.path.insert(0, os.path.dirname(os.path.abspath(__file__)))
from corr import *
import trees
import_impl()
from wcmatch import wcmatch as WM
rng = random.Random(int(sys.argv[1]) if len(sys.argv) > 1 else 1)
fps = ['*.txt', '*', 'a*|*.py', '!a*', '*.txt|!a*', '', 'x', '**/*.txt', 'a/*', '*/x*', '[ab]*', '.*']
eps = ['', 'a', 'sub|.h*', '*b*', 'a/b', '**/sub', '!a']
tot = nd = 0
for t in range(int(sys.argv[2]) if len(sys.argv) > 2 else 10):
    spec = trees.DESIGNED[t % len(trees.DESIGNED)] if t < 5 else trees.random_spec(rng, size=rng.randint(5, 14))
    with trees.Tree(spec) as T:
        cases = []
        for _ in range(40):
            f = 0
            for nm, pr in (('RECURSIVE', .8), ('HIDDEN', .4), ('SYMLINKS', .2), ('FILEPATHNAME', .3), ('DIRPATHNAME', .3), ('MATCHBASE', .2), ('GLOBSTAR', .4), ('EXTMATCH', .3), ('BRACE', .2), ('IGNORECASE', .2), ('MINUSNEGATE', .1)):
                if rng.random() < pr: f |= getattr(WM, nm)
            ka = None if rng.random() < 0.4 else rng.randint(0, 25)
            cases.append((T.root, rng.choice(fps), rng.choice(eps), f, ka, rng.random() < 0.05))
        r = corr_wcmatch(cases)
        tot += r['evaluations']; nd += r['n_disagreements']
        for d in r['disagreements'][:2]:
            print(json.dumps(d)[:900]); print(spec)
print('total', tot, 'disagreements', nd)
