#!/usr/bin/env python3
"""py2v: fail-closed translator from /repo/wcmatch/*.py (Python `ast`) to Coq (coq/Gen/*.v).

It *parses* the source files; it never imports wcmatch.  Anything outside the
whitelisted syntax of a construct it is asked to translate is an error
(TranslationError), never a guess.

Generated:
  Gen/Consts.v    flag constants and masks of every module, regex fragment constants
                  (as code-point lists), magic symbol sets, PATTERN_LIMIT, `limit=` defaults
                  of every function that has one, lru_cache parameters of `_compile`,
                  source text of every compiled-regex constant.
  Gen/Posix.v     the two POSIX class tables as lists of inclusive code-point ranges.
  Gen/FlagFuns.v  statement-by-statement translations of the straight-line flag functions.
"""
import ast
import os
import sys

REPO = os.environ.get('WCMATCH_REPO', '/repo')
MODULES = ['_wcparse', 'util', 'posix', '_wcmatch', 'fnmatch', 'glob', 'pathlib', 'wcmatch']


class TranslationError(Exception):
    pass


class Regex:
    """A compiled-regex constant: we keep its source text and flags expression."""

    def __init__(self, text, flags, is_bytes):
        self.text, self.flags, self.is_bytes = text, flags, is_bytes


class Unknown:
    def __init__(self, why):
        self.why = why


# ----------------------------------------------------------------------------------------
# constant evaluation (module level)
# ----------------------------------------------------------------------------------------

def eval_const(node, env, menv):
    """Evaluate a module-level constant expression.  Returns int/str/bytes/tuple/frozenset/dict/Regex/Unknown."""
    if isinstance(node, ast.Constant):
        if isinstance(node.value, (int, str, bytes)) and not isinstance(node.value, bool):
            return node.value
        if isinstance(node.value, bool) or node.value is None:
            return node.value
        return Unknown('constant type')
    if isinstance(node, ast.Name):
        if node.id in env:
            return env[node.id]
        return Unknown('name ' + node.id)
    if isinstance(node, ast.Attribute) and isinstance(node.value, ast.Name):
        mod = node.value.id
        if mod in menv and node.attr in menv[mod]:
            return menv[mod][node.attr]
        return Unknown('attr %s.%s' % (mod, node.attr))
    if isinstance(node, ast.BinOp):
        a = eval_const(node.left, env, menv)
        b = eval_const(node.right, env, menv)
        if isinstance(a, Unknown) or isinstance(b, Unknown):
            return Unknown('binop operand')
        if isinstance(node.op, ast.BitOr) and isinstance(a, int) and isinstance(b, int):
            return a | b
        if isinstance(node.op, ast.BitAnd) and isinstance(a, int) and isinstance(b, int):
            return a & b
        if isinstance(node.op, ast.BitXor) and isinstance(a, int) and isinstance(b, int):
            return a ^ b
        if isinstance(node.op, ast.Add) and type(a) is type(b) and isinstance(a, (str, bytes)):
            return a + b
        if isinstance(node.op, ast.Mult) and isinstance(a, (str, bytes)) and isinstance(b, int):
            return a * b
        return Unknown('binop')
    if isinstance(node, ast.JoinedStr):
        out = ''
        for v in node.values:
            if isinstance(v, ast.Constant) and isinstance(v.value, str):
                out += v.value
            elif isinstance(v, ast.FormattedValue) and v.conversion == -1 and v.format_spec is None:
                x = eval_const(v.value, env, menv)
                if not isinstance(x, str):
                    return Unknown('f-string part')
                out += x
            else:
                return Unknown('f-string')
        return out
    if isinstance(node, ast.Tuple):
        vals = tuple(eval_const(e, env, menv) for e in node.elts)
        return vals
    if isinstance(node, ast.Dict):
        d = {}
        for k, v in zip(node.keys, node.values):
            kk = eval_const(k, env, menv)
            vv = eval_const(v, env, menv)
            if isinstance(kk, Unknown) or isinstance(vv, Unknown):
                return Unknown('dict entry')
            d[kk] = vv
        return d
    if isinstance(node, ast.Call):
        f = node.func
        if isinstance(f, ast.Name) and f.id == 'frozenset' and len(node.args) == 1 and not node.keywords:
            x = eval_const(node.args[0], env, menv)
            if isinstance(x, (str, bytes)):
                return frozenset(x if isinstance(x, str) else [bytes([c]) for c in x])
            if isinstance(x, tuple) and all(isinstance(e, (str, bytes)) for e in x):
                return frozenset(x)
            return Unknown('frozenset arg')
        if (isinstance(f, ast.Attribute) and isinstance(f.value, ast.Name) and f.value.id == 're'
                and f.attr == 'compile'):
            x = eval_const(node.args[0], env, menv)
            if not isinstance(x, (str, bytes)):
                return Unknown('re.compile arg')
            fl = ''
            if len(node.args) > 1:
                fl = ast.unparse(node.args[1])
            return Regex(x if isinstance(x, str) else x.decode('latin-1'), fl, isinstance(x, bytes))
        return Unknown('call')
    return Unknown(type(node).__name__)


def load_modules():
    trees = {}
    menv = {}
    for m in MODULES:
        path = os.path.join(REPO, 'wcmatch', m + '.py')
        with open(path, 'r', encoding='utf-8') as fh:
            src = fh.read()
        trees[m] = ast.parse(src, filename=path)
    for m in MODULES:
        env = {}
        menv[m] = env
        for st in trees[m].body:
            if isinstance(st, ast.Assign):
                val = eval_const(st.value, env, menv)
                for t in st.targets:
                    if isinstance(t, ast.Name):
                        env[t.id] = val
            elif isinstance(st, ast.AnnAssign) and isinstance(st.target, ast.Name) and st.value is not None:
                env[st.target.id] = eval_const(st.value, env, menv)
            elif isinstance(st, ast.If):
                # platform selection in util.py: take the `else` (linux) branch value, recorded as such
                pass
    return trees, menv


# ----------------------------------------------------------------------------------------
# Coq printing helpers
# ----------------------------------------------------------------------------------------

def coq_str(s):
    if isinstance(s, bytes):
        cps = list(s)
    else:
        cps = [ord(c) for c in s]
    if not cps:
        return '([] : list N)'
    return '[' + '; '.join(str(c) for c in cps) + ']%N'


def coq_name(n):
    return n if not n.startswith('_') else 'u' + n


def coq_string_lit(s):
    return '"' + s.replace('"', '""') + '"%string'


REQUIRED_FLAGS = {
    '_wcparse': ['CASE', 'IGNORECASE', 'RAWCHARS', 'NEGATE', 'MINUSNEGATE', 'PATHNAME', 'DOTMATCH', 'EXTMATCH',
                 'GLOBSTAR', 'BRACE', 'REALPATH', 'FOLLOW', 'SPLIT', 'MATCHBASE', 'NODIR', 'NEGATEALL', 'FORCEWIN',
                 'FORCEUNIX', 'GLOBTILDE', 'NOUNIQUE', 'NODOTDIR', 'GLOBSTARLONG', '_TRANSLATE', '_ANCHOR',
                 '_EXTMATCHBASE', '_NOABSOLUTE', '_NO_GLOBSTAR_CAPTURE', 'FLAG_MASK', 'CASE_FLAGS', 'PATTERN_LIMIT'],
    'fnmatch': ['FLAG_MASK'],
    'glob': ['FLAG_MASK', 'MARK', 'SCANDOTDIR', '_PATHLIB'],
    'pathlib': ['FLAG_MASK'],
    'wcmatch': ['FLAG_MASK', 'DIRPATHNAME', 'FILEPATHNAME', 'SYMLINKS', 'HIDDEN', 'RECURSIVE'],
}

REQUIRED_FRAGS = ['_QMARK', '_STAR', '_PATH_TRAIL', '_NO_DIR', '_PATH_STAR', '_PATH_STAR_DOTMATCH',
                  '_PATH_STAR_NO_DOTMATCH', '_PATH_GSTAR_DOTMATCH', '_PATH_GSTAR_NO_DOTMATCH', '_NO_DOT',
                  '_PATH_NO_SLASH_DOT', '_PATH_NO_SLASH', '_ONE_OR_MORE', '_EOP', '_PATH_EOP', '_GLOBSTAR_DIV',
                  '_NEED_CHAR_PATH', '_NEED_CHAR', '_NEED_SEP', '_QMARK_GROUP', '_QMARK_CAPTURE_GROUP',
                  '_STAR_GROUP', '_STAR_CAPTURE_GROUP', '_PLUS_GROUP', '_PLUS_CAPTURE_GROUP', '_GROUP',
                  '_CAPTURE_GROUP', '_EXCLA_GROUP', '_EXCLA_CAPTURE_GROUP', '_EXCLA_GROUP_CLOSE', '_NO_ROOT',
                  '_NO_WIN_ROOT', 'UNICODE_RANGE', 'ASCII_RANGE']
REQUIRED_PAIRS = ['_NO_NIX_DIR', '_NO_WIN_DIR']
REQUIRED_SETS = ['MAGIC_DEF', 'MAGIC_SPLIT', 'MAGIC_NEGATE', 'MAGIC_MINUS_NEGATE', 'MAGIC_TILDE', 'MAGIC_EXTMATCH',
                 'MAGIC_BRACE']
REQUIRED_FSETS = ['SET_OPERATORS', 'EXT_TYPES']


def gen_consts(trees, menv):
    out = ['(* GENERATED by tools/py2v.py from %s/wcmatch/*.py -- do not edit *)' % '/repo',
           'From Coq Require Import List NArith ZArith String.', 'Import ListNotations.', 'Open Scope Z_scope.', '']
    # flags per module
    for m in ['_wcparse', 'fnmatch', 'glob', 'pathlib', 'wcmatch']:
        out.append('Module %s.' % ('M' + m.strip('_')))
        env = menv[m]
        for n in REQUIRED_FLAGS[m]:
            v = env.get(n)
            if not isinstance(v, int) or isinstance(v, bool):
                raise TranslationError('%s.%s is not an integer constant (%r)' % (m, n, getattr(v, 'why', v)))
            out.append('Definition %s : Z := %d.' % (coq_name(n), v))
        out.append('End %s.' % ('M' + m.strip('_')))
        out.append('')
    env = menv['_wcparse']
    out.append('Module Frag.')
    for n in REQUIRED_FRAGS:
        v = env.get(n)
        if not isinstance(v, str):
            raise TranslationError('_wcparse.%s is not a string constant' % n)
        out.append('Definition %s : list N := %s.' % (coq_name(n), coq_str(v)))
    for n in REQUIRED_PAIRS:
        v = env.get(n)
        if not (isinstance(v, tuple) and len(v) == 2 and isinstance(v[0], str) and isinstance(v[1], bytes)):
            raise TranslationError('_wcparse.%s is not a (str, bytes) pair' % n)
        out.append('Definition %s_s : list N := %s.' % (coq_name(n), coq_str(v[0])))
        out.append('Definition %s_b : list N := %s.' % (coq_name(n), coq_str(v[1])))
    out.append('End Frag.')
    out.append('')
    out.append('Module Sets.')
    for n in REQUIRED_SETS:
        v = env.get(n)
        if not (isinstance(v, tuple) and len(v) == 2 and all(isinstance(x, frozenset) for x in v)):
            raise TranslationError('_wcparse.%s is not a pair of frozensets' % n)
        s = sorted(ord(c) for c in v[0])
        b = sorted(c[0] for c in v[1])
        out.append('Definition %s_s : list N := %s.' % (coq_name(n), coq_str(''.join(chr(c) for c in s))))
        out.append('Definition %s_b : list N := %s.' % (coq_name(n), coq_str(bytes(b))))
    for n in REQUIRED_FSETS:
        v = env.get(n)
        if not (isinstance(v, frozenset) and all(isinstance(x, str) and len(x) == 1 for x in v)):
            raise TranslationError('_wcparse.%s is not a frozenset of characters' % n)
        out.append('Definition %s : list N := %s.' % (coq_name(n), coq_str(''.join(sorted(v)))))
    # character classes of the escape regexes: `([<class>]|...)` or `([<class>])`
    import re as _re
    try:
        from re import _parser as _sre
    except ImportError:  # pragma: no cover
        import sre_parse as _sre

    def leading_class(text):
        tree = _sre.parse(text)
        if len(tree) != 1 or str(tree[0][0]) != 'SUBPATTERN':
            raise TranslationError('escape regex %r is not a single group' % text)
        inner = tree[0][1][3]
        node = inner[0]
        if str(node[0]) == 'BRANCH':
            node = node[1][1][0][0]
        if str(node[0]) != 'IN':
            raise TranslationError('escape regex %r does not start with a character class' % text)
        cs = []
        for kind, val in node[1]:
            if str(kind) != 'LITERAL':
                raise TranslationError('escape class of %r is not a list of literals' % text)
            cs.append(val)
        return sorted(cs)
    for n in ('RE_MAGIC_ESCAPE', 'RE_MAGIC', 'RE_WIN_DRIVE_MAGIC'):
        v = env.get(n)
        if not (isinstance(v, tuple) and len(v) == 2 and all(isinstance(x, Regex) for x in v)):
            raise TranslationError('_wcparse.%s is not a pair of compiled regexes' % n)
        a, b = leading_class(v[0].text), leading_class(v[1].text)
        out.append('Definition %s_class_s : list N := %s.' % (n, coq_str(''.join(chr(c) for c in a))))
        out.append('Definition %s_class_b : list N := %s.' % (n, coq_str(bytes(b))))
    out.append('End Sets.')
    out.append('')
    # regex constants: source text (pins hand-modelled scanners)
    out.append('Module ReSrc.')
    for m in ['_wcparse', 'util', '_wcmatch', 'glob']:
        for n, v in sorted(menv[m].items()):
            items = []
            if isinstance(v, Regex):
                items = [('', v)]
            elif isinstance(v, tuple) and v and all(isinstance(x, Regex) for x in v):
                items = [('_%d' % i, x) for i, x in enumerate(v)]
            for suf, r in items:
                out.append('Definition %s_%s%s : list N := %s. (* flags: %s%s *)' % (
                    m.strip('_'), coq_name(n), suf, coq_str(r.text), r.flags or '-', ' bytes' if r.is_bytes else ''))
                out.append('Definition %s_%s%s_flags : string := %s.' % (
                    m.strip('_'), coq_name(n), suf, coq_string_lit(r.flags)))
    out.append('End ReSrc.')
    out.append('')
    # BACK_SLASH_TRANSLATION
    bst = menv['util'].get('BACK_SLASH_TRANSLATION')
    if not isinstance(bst, dict):
        raise TranslationError('util.BACK_SLASH_TRANSLATION is not a dict literal')
    out.append('Module Util.')
    ss = sorted((k, v) for k, v in bst.items() if isinstance(k, str))
    bs = sorted((k, v) for k, v in bst.items() if isinstance(k, bytes))
    out.append('Definition BACK_SLASH_TRANSLATION_s : list (list N * list N) := [%s].' % '; '.join(
        '(%s, %s)' % (coq_str(k), coq_str(v)) for k, v in ss))
    out.append('Definition BACK_SLASH_TRANSLATION_b : list (list N * list N) := [%s].' % '; '.join(
        '(%s, %s)' % (coq_str(k), coq_str(v)) for k, v in bs))
    out.append('End Util.')
    out.append('')
    # limit defaults
    out.append('Module Limits.')
    lims = []
    for m in MODULES:
        for node in ast.walk(trees[m]):
            if isinstance(node, (ast.FunctionDef, ast.AsyncFunctionDef)):
                # skip typing overloads
                if any(isinstance(d, ast.Name) and d.id == 'overload' for d in node.decorator_list):
                    continue
                a = node.args
                allargs = a.posonlyargs + a.args
                defaults = [None] * (len(allargs) - len(a.defaults)) + list(a.defaults)
                pairs = list(zip(allargs, defaults)) + list(zip(a.kwonlyargs, a.kw_defaults))
                for arg, d in pairs:
                    if arg.arg == 'limit' and d is not None:
                        v = eval_const(d, menv[m], menv)
                        if not isinstance(v, int):
                            raise TranslationError('default of limit= in %s.%s is not a known integer' % (m, node.name))
                        lims.append((m, node.name, node.lineno, v))
    out.append('Definition limit_defaults : list (string * Z) := [')
    out.append(';\n'.join('  (%s, %d)' % (coq_string_lit('%s.%s' % (m, f)), v) for m, f, ln, v in lims))
    out.append('].')
    # lru_cache params
    found = None
    for node in ast.walk(trees['_wcparse']):
        if isinstance(node, ast.FunctionDef) and node.name == '_compile':
            for d in node.decorator_list:
                if isinstance(d, ast.Call) and ast.unparse(d.func) in ('functools.lru_cache', 'lru_cache'):
                    kw = {k.arg: eval_const(k.value, menv['_wcparse'], menv) for k in d.keywords}
                    found = kw
    if found is None or not isinstance(found.get('maxsize'), int) or not isinstance(found.get('typed'), bool):
        raise TranslationError('_compile is not decorated with functools.lru_cache(maxsize=<int>, typed=<bool>)')
    out.append('Definition compile_cache_maxsize : Z := %d.' % found['maxsize'])
    out.append('Definition compile_cache_typed : bool := %s.' % ('true' if found['typed'] else 'false'))
    out.append('End Limits.')
    return '\n'.join(out) + '\n'


# ----------------------------------------------------------------------------------------
# POSIX tables
# ----------------------------------------------------------------------------------------

def class_text_to_ranges(s):
    """Interpret the text of a regex character class body (as posix.py writes them): single
    characters, `a-b` ranges, and `\\x` escapes of a single character."""
    cps = [ord(c) for c in s]
    items = []
    i = 0
    toks = []
    while i < len(cps):
        if cps[i] == 0x5c:
            if i + 1 >= len(cps):
                raise TranslationError('dangling backslash in POSIX class text')
            toks.append(('c', cps[i + 1]))
            i += 2
        elif cps[i] == 0x2d:
            toks.append(('-', None))
            i += 1
        else:
            toks.append(('c', cps[i]))
            i += 1
    j = 0
    while j < len(toks):
        if toks[j][0] != 'c':
            raise TranslationError('unexpected "-" in POSIX class text %r' % s)
        if j + 2 < len(toks) and toks[j + 1][0] == '-' and toks[j + 2][0] == 'c':
            lo, hi = toks[j][1], toks[j + 2][1]
            if hi < lo:
                raise TranslationError('reversed range in POSIX class text %r' % s)
            items.append((lo, hi))
            j += 3
        else:
            items.append((toks[j][1], toks[j][1]))
            j += 1
    return items


POSIX_NAMES = ['alnum', 'alpha', 'ascii', 'blank', 'cntrl', 'digit', 'graph', 'lower', 'print', 'punct', 'space',
               'upper', 'word', 'xdigit']


def gen_posix(trees, menv):
    out = ['(* GENERATED by tools/py2v.py from /repo/wcmatch/posix.py -- do not edit *)',
           'From Coq Require Import List NArith String.', 'Import ListNotations.', 'Open Scope N_scope.', '']
    for tab, suffix in (('unicode_posix_properties', 'u'), ('ascii_posix_properties', 'a')):
        d = menv['posix'].get(tab)
        if not isinstance(d, dict):
            raise TranslationError('posix.%s is not a dict literal' % tab)
        keys = set(d.keys())
        want = set(POSIX_NAMES) | set('^' + n for n in POSIX_NAMES)
        if keys != want:
            raise TranslationError('posix.%s keys differ from the 28 expected: %r' % (tab, sorted(keys ^ want)))
        out.append('(* %s: (name, negated, text as written, ranges) *)' % tab)
        out.append('Definition table_%s : list (string * bool * list N * list (N * N)) := [' % suffix)
        rows = []
        for n in POSIX_NAMES:
            for neg in (False, True):
                k = ('^' if neg else '') + n
                txt = d[k]
                if not isinstance(txt, str):
                    raise TranslationError('posix table entry %s is not a string' % k)
                rs = class_text_to_ranges(txt)
                rows.append('  (%s, %s, %s, [%s])' % (
                    coq_string_lit(n), 'true' if neg else 'false', coq_str(txt),
                    '; '.join('(%d, %d)' % r for r in rs)))
        out.append(';\n'.join(rows))
        out.append('].')
        out.append('')
    # get_posix_property: check its shape (limit_ascii -> ascii table else unicode table)
    fn = [n for n in trees['posix'].body if isinstance(n, ast.FunctionDef) and n.name == 'get_posix_property']
    if len(fn) != 1:
        raise TranslationError('posix.get_posix_property not found')
    src = ast.unparse(fn[0])
    expect_a = 'if limit_ascii:\n            return ascii_posix_properties[value]\n        else:\n            return unicode_posix_properties[value]'
    if expect_a not in src:
        raise TranslationError('posix.get_posix_property has an unexpected body')
    return '\n'.join(out) + '\n'


# ----------------------------------------------------------------------------------------
# straight-line flag functions
# ----------------------------------------------------------------------------------------

class FunTr:
    """Translate one straight-line function body into a Coq expression (continuation style)."""

    def __init__(self, modname, menv, params, selfvars=None, raises=False, atoms=None, calls=None):
        self.m = modname
        self.menv = menv
        self.fresh = 0
        self.raises = raises
        self.params = params
        self.atoms = atoms or {}     # source text of an expression -> (coq term, type)
        self.calls = calls or {}     # source text of the callee -> (coq function, [argument types], result type)

    def const(self, name, mod=None):
        env = self.menv[mod or self.m]
        if name in env and isinstance(env[name], int) and not isinstance(env[name], bool):
            return '(%d)' % env[name], 'Z'
        raise TranslationError('unknown name %s in module %s' % (name, mod or self.m))

    def tb(self, v):
        e, t = v
        if t == 'bool':
            return e
        if t == 'Z':
            return '(negb (Z.eqb %s 0))' % e
        raise TranslationError('truth value of a %s' % t)

    def expr(self, n, env):
        src0 = ast.unparse(n)
        if src0 in self.atoms:
            return self.atoms[src0]
        if isinstance(n, ast.Call) and ast.unparse(n.func) in self.calls and not n.keywords:
            fname, argtys, rty = self.calls[ast.unparse(n.func)]
            if len(n.args) != len(argtys):
                raise TranslationError('arity of ' + src0)
            args = []
            for a, ty in zip(n.args, argtys):
                e = self.expr(a, env)
                if e[1] != ty:
                    raise TranslationError('argument type in %s: %s is %s, expected %s' % (src0, ast.unparse(a), e[1], ty))
                args.append(e[0])
            return '(%s %s)' % (fname, ' '.join(args)), rty
        if isinstance(n, ast.Constant):
            if isinstance(n.value, bool):
                return ('true' if n.value else 'false'), 'bool'
            if isinstance(n.value, int):
                return '(%d)' % n.value, 'Z'
            raise TranslationError('constant %r' % (n.value,))
        if isinstance(n, ast.Name):
            if n.id in env:
                return env[n.id]
            return self.const(n.id)
        if isinstance(n, ast.Attribute):
            src = ast.unparse(n)
            if src in env:
                return env[src]
            if isinstance(n.value, ast.Name) and n.value.id in self.menv:
                return self.const(n.attr, n.value.id)
            raise TranslationError('attribute ' + src)
        if isinstance(n, ast.BinOp):
            a = self.expr(n.left, env)
            b = self.expr(n.right, env)
            if a[1] != 'Z' or b[1] != 'Z':
                raise TranslationError('bit operation on non-integers: ' + ast.unparse(n))
            op = {ast.BitAnd: 'Z.land', ast.BitOr: 'Z.lor', ast.BitXor: 'Z.lxor'}.get(type(n.op))
            if op is None:
                raise TranslationError('operator in ' + ast.unparse(n))
            return '(%s %s %s)' % (op, a[0], b[0]), 'Z'
        if isinstance(n, ast.UnaryOp) and isinstance(n.op, ast.Not):
            return '(negb %s)' % self.tb(self.expr(n.operand, env)), 'bool'
        if isinstance(n, ast.BoolOp):
            parts = [self.tb(self.expr(v, env)) for v in n.values]
            op = 'andb' if isinstance(n.op, ast.And) else 'orb'
            e = parts[-1]
            for p in reversed(parts[:-1]):
                e = '(%s %s %s)' % (op, p, e)
            return e, 'bool'
        if isinstance(n, ast.IfExp):
            c = self.tb(self.expr(n.test, env))
            a = self.expr(n.body, env)
            b = self.expr(n.orelse, env)
            if a[1] != b[1]:
                raise TranslationError('conditional expression with mixed types')
            return '(if %s then %s else %s)' % (c, a[0], b[0]), a[1]
        if isinstance(n, ast.Compare) and len(n.ops) == 1:
            src = ast.unparse(n)
            table = {
                "util.platform() == 'windows'": 'P.(plat_windows)',
                "util.platform() != 'windows'": '(negb P.(plat_windows))',
                "os.name == 'nt'": 'P.(os_nt)',
            }
            if src in table:
                return table[src], 'bool'
            raise TranslationError('comparison ' + src)
        if isinstance(n, ast.Call):
            src = ast.unparse(n)
            if isinstance(n.func, ast.Name) and n.func.id == 'bool' and len(n.args) == 1:
                return self.tb(self.expr(n.args[0], env)), 'bool'
            if src == 'util.is_case_sensitive()':
                return 'P.(fs_case_sensitive)', 'bool'
            if src == 'is_case_sensitive(flags)' and 'flags' in env:
                return '(is_case_sensitive P %s)' % env['flags'][0], 'bool'
            if src == 'isinstance(self, PureWindowsPath)':
                return 'is_pure_windows', 'bool'
            if src == 'isinstance(self, PurePosixPath)':
                return 'is_pure_posix', 'bool'
            raise TranslationError('call ' + src)
        raise TranslationError('expression ' + ast.unparse(n))

    def block(self, stmts, env, k):
        if not stmts:
            return k(env)
        s, rest = stmts[0], stmts[1:]
        if isinstance(s, ast.Expr) and isinstance(s.value, ast.Constant) and isinstance(s.value.value, str):
            return self.block(rest, env, k)  # docstring
        if isinstance(s, ast.Assign) and len(s.targets) == 1:
            tgt = ast.unparse(s.targets[0])
            v = self.expr(s.value, env)
            return self.bind(tgt, v, rest, env, k)
        if isinstance(s, ast.AugAssign):
            tgt = ast.unparse(s.target)
            cur = self.expr(s.target, env)
            v = self.expr(s.value, env)
            op = {ast.BitAnd: 'Z.land', ast.BitOr: 'Z.lor', ast.BitXor: 'Z.lxor'}.get(type(s.op))
            if op is None or cur[1] != 'Z' or v[1] != 'Z':
                raise TranslationError('augmented assignment ' + ast.unparse(s))
            return self.bind(tgt, ('(%s %s %s)' % (op, cur[0], v[0]), 'Z'), rest, env, k)
        if isinstance(s, ast.Return):
            if s.value is None:
                return k(env)
            e = self.expr(s.value, env)
            return ('(Some %s)' % e[0]) if self.raises else e[0]
        if isinstance(s, ast.Raise):
            if not self.raises:
                raise TranslationError('raise in a function translated as total')
            return 'None'
        if isinstance(s, ast.If) and getattr(self, 'merge_ifs', False) and not s.orelse and \
                all(isinstance(b, (ast.Assign, ast.AugAssign)) for b in s.body):
            # `if c: x = e` without else: bind x := if c then e else x (no duplication of the continuation)
            c = self.tb(self.expr(s.test, env))
            benv = dict(env)
            changed = []
            for b in s.body:
                if isinstance(b, ast.Assign) and len(b.targets) == 1:
                    tgt = ast.unparse(b.targets[0])
                    v = self.expr(b.value, benv)
                elif isinstance(b, ast.AugAssign):
                    tgt = ast.unparse(b.target)
                    cur = self.expr(b.target, benv)
                    v2 = self.expr(b.value, benv)
                    op = {ast.BitAnd: 'Z.land', ast.BitOr: 'Z.lor', ast.BitXor: 'Z.lxor'}.get(type(b.op))
                    if op is None or cur[1] != 'Z' or v2[1] != 'Z':
                        raise TranslationError('augmented assignment ' + ast.unparse(b))
                    v = ('(%s %s %s)' % (op, cur[0], v2[0]), 'Z')
                else:
                    raise TranslationError('statement ' + ast.unparse(b))
                benv[tgt] = v
                if tgt not in changed:
                    changed.append(tgt)
            out_env = dict(env)
            text = None
            binds = []
            for tgt in changed:
                if tgt not in env:
                    raise TranslationError('conditional first assignment of ' + tgt)
                if env[tgt][1] != benv[tgt][1]:
                    raise TranslationError('type change of ' + tgt)
                self.fresh += 1
                name = '%s_%d' % (tgt.replace('.', '_'), self.fresh)
                binds.append((name, '(if %s then %s else %s)' % (c, benv[tgt][0], env[tgt][0])))
                out_env[tgt] = (name, env[tgt][1])
            inner = self.block(rest, out_env, k)
            for name, val in reversed(binds):
                inner = '(let %s := %s in\n %s)' % (name, val, inner)
            return inner
        if isinstance(s, ast.If):
            c = self.tb(self.expr(s.test, env))
            a = self.block(list(s.body) + rest, dict(env), k)
            b = self.block(list(s.orelse) + rest, dict(env), k)
            return '(if %s\n   then %s\n   else %s)' % (c, a, b)
        raise TranslationError('statement ' + ast.unparse(s).split('\n')[0])

    def bind(self, tgt, v, rest, env, k):
        self.fresh += 1
        name = '%s_%d' % (tgt.replace('.', '_'), self.fresh)
        env = dict(env)
        env[tgt] = (name, v[1])
        return '(let %s := %s in\n %s)' % (name, v[0], self.block(rest, env, k))


def find_func(tree, name, cls=None):
    body = tree.body
    if cls:
        cs = [n for n in body if isinstance(n, ast.ClassDef) and n.name == cls]
        if len(cs) != 1:
            raise TranslationError('class %s not found' % cls)
        body = cs[0].body
    fs = [n for n in body if isinstance(n, ast.FunctionDef) and n.name == name and
          not any(isinstance(d, ast.Name) and d.id == 'overload' for d in n.decorator_list)]
    if len(fs) != 1:
        raise TranslationError('function %s not found (or ambiguous)' % name)
    return fs[0]


def gen_flagfuns(trees, menv):
    out = ['(* GENERATED by tools/py2v.py: statement-by-statement translation of straight-line flag functions *)',
           'From Coq Require Import ZArith Bool.', 'Open Scope Z_scope.', '',
           '(* the three platform queries the code makes; instantiated with this platform\'s values in Platform.v *)',
           'Record platform := { plat_windows : bool; os_nt : bool; fs_case_sensitive : bool }.', '']

    def simple(mod, fname, coqname, ret_ty, cls=None, raises=False, extra_params=''):
        fn = find_func(trees[mod], fname, cls)
        args = [a.arg for a in fn.args.args if a.arg != 'self']
        if args != ['flags']:
            raise TranslationError('%s.%s: expected the single parameter flags' % (mod, fname))
        tr = FunTr(mod, menv, args, raises=raises)
        env = {'flags': ('flags', 'Z')}

        def k(env):
            raise TranslationError('%s.%s: control reaches the end without return' % (mod, fname))
        body = tr.block(list(fn.body), env, k)
        out.append('(* %s.%s%s *)' % (mod, (cls + '.') if cls else '', fname))
        out.append('Definition %s (P : platform) %s(flags : Z) : %s :=\n %s.' % (coqname, extra_params, ret_ty, body))
        out.append('')

    simple('_wcparse', 'is_case_sensitive', 'is_case_sensitive', 'bool')
    simple('_wcparse', 'get_case', 'get_case', 'bool')
    simple('_wcparse', 'is_unix_style', 'is_unix_style', 'bool')
    simple('_wcparse', 'no_negate_flags', 'no_negate_flags', 'Z')
    simple('fnmatch', '_flag_transform', 'fnmatch_flag_transform', 'Z')
    simple('glob', '_flag_transform', 'glob_flag_transform', 'Z')
    simple('pathlib', '_translate_flags', 'pathlib_translate_flags', 'option Z', cls='PurePath', raises=True,
           extra_params='(is_pure_windows is_pure_posix : bool) ')

    # WcMatch._parse_flags: assigns self.*; result is the tuple of the fields in order of first assignment
    fn = find_func(trees['wcmatch'], '_parse_flags', 'WcMatch')
    tr = FunTr('wcmatch', menv, ['flags'])
    fields = []
    for st in fn.body:
        if isinstance(st, ast.Assign):
            t = ast.unparse(st.targets[0])
            if t.startswith('self.') and t not in fields:
                fields.append(t)
    want = ['self.flags', 'self.follow_links', 'self.show_hidden', 'self.recursive', 'self.dir_pathname',
            'self.file_pathname', 'self.matchbase']
    if fields != want:
        raise TranslationError('WcMatch._parse_flags assigns %r, expected %r' % (fields, want))

    def kf(env):
        return '(%s)' % ', '.join(env[f][0] for f in want)
    body = tr.block(list(fn.body), {'flags': ('flags', 'Z')}, kf)
    out.append('(* wcmatch.WcMatch._parse_flags: (flags, follow_links, show_hidden, recursive, dir_pathname, file_pathname, matchbase) *)')
    out.append('Definition wcmatch_parse_flags (P : platform) (flags : Z) : Z * bool * bool * bool * bool * bool * bool :=\n %s.' % body)
    out.append('')

    # WcMatch._compile_wildcard flag composition: flags for (pathname = true/false)
    fn = find_func(trees['wcmatch'], '_compile_wildcard', 'WcMatch')
    stmts = [s for s in fn.body if not (isinstance(s, ast.Expr) and isinstance(s.value, ast.Constant))]
    if not (len(stmts) == 3 and ast.unparse(stmts[0]) == 'flags = self.flags' and isinstance(stmts[1], ast.If)
            and ast.unparse(stmts[2]) ==
            'return _wcparse.compile([pattern], flags, self.limit) if pattern else None'):
        raise TranslationError('WcMatch._compile_wildcard has an unexpected shape')
    tr = FunTr('wcmatch', menv, [])
    env = {'self.flags': ('sflags', 'Z'), 'pathname': ('pathname', 'bool'), 'self.matchbase': ('matchbase', 'bool')}
    body = tr.block(stmts[:2], env, lambda e: e['flags'][0])
    # Glob.__init__: the straight-line flag processing (from `self.nounique = ...` to `self.case_sensitive = ...`) preceded by
    # `if epats is not None: flags = _wcparse.no_negate_flags(flags)`; result = the tuple of the assigned fields
    gfn = find_func(trees['glob'], '__init__', 'Glob')
    srcs = [ast.unparse(st) for st in gfn.body]
    try:
        i_ex = srcs.index('if epats is not None:\n    flags = _wcparse.no_negate_flags(flags)')
        i_a = next(i for i, x in enumerate(srcs) if x.startswith('self.nounique = bool(flags & NOUNIQUE)'))
        i_b = next(i for i, x in enumerate(srcs) if x.startswith('self.case_sensitive = _wcparse.get_case(self.flags)'))
    except (ValueError, StopIteration):
        raise TranslationError('Glob.__init__: the flag-processing statements were not found in the expected form')
    if not (i_ex < i_a < i_b):
        raise TranslationError('Glob.__init__: unexpected statement order')
    gstmts = [gfn.body[i_ex]] + list(gfn.body[i_a:i_b + 1])
    gfields = ['self.nounique', 'self.mark', 'self.scandotdir', 'self.negateall', 'self.nodir', 'self.pathlib', 'self.flags',
               'self.negate_flags', 'self.raw_chars', 'self.dot', 'self.unix', 'self.negate', 'self.globstarlong', 'self.globstar',
               'self.follow_links', 'self.braces', 'self.matchbase', 'self.case_sensitive']
    assigned = []
    for st in gstmts[1:]:
        if isinstance(st, ast.Assign):
            t = ast.unparse(st.targets[0])
            if t.startswith('self.') and t not in assigned:
                assigned.append(t)
        elif isinstance(st, ast.AnnAssign):
            raise TranslationError('Glob.__init__: annotated assignment')
    if assigned != gfields:
        raise TranslationError('Glob.__init__ assigns %r, expected %r' % (assigned, gfields))
    gtr = FunTr('glob', menv, ['flags'], atoms={'epats is not None': ('has_exclude', 'bool')},
               calls={'_flag_transform': ('glob_flag_transform P', ['Z'], 'Z'),
                      '_wcparse.no_negate_flags': ('no_negate_flags P', ['Z'], 'Z'),
                      '_wcparse.get_case': ('get_case P', ['Z'], 'bool')})
    gtr.merge_ifs = True
    gbody = gtr.block(gstmts, {'flags': ('flags', 'Z')}, lambda env: '(%s)' % ', '.join(env[f][0] for f in gfields))
    out.append('(* glob.Glob.__init__, flag processing: (%s) *)' % ', '.join(f[5:] for f in gfields))
    out.append('Definition glob_init_flags (P : platform) (has_exclude : bool) (flags : Z) :\n  bool * bool * bool * bool * bool * bool * Z * Z * bool * bool * bool * bool * bool * bool * bool * bool * bool * bool :=\n %s.' % gbody)
    out.append('')

    out.append('(* wcmatch.WcMatch._compile_wildcard: the flags handed to _wcparse.compile *)')
    out.append('Definition wcmatch_wildcard_flags (sflags : Z) (matchbase pathname : bool) : Z :=\n %s.' % body)
    out.append('')
    return '\n'.join(out) + '\n'


def gen_walkfuns(trees, menv):
    """WcMatch._valid_file / _valid_folder / compare_directory: straight-line decisions over the compiled matchers, the
    hidden test and the user hooks (which become parameters)."""
    out = ['(* GENERATED by tools/py2v.py: statement-by-statement translation of the per-entry decisions of wcmatch.WcMatch *)',
           'From Coq Require Import ZArith Bool List.', 'From WC Require Import Str.', '',
           'Section WalkFuns.',
           '  (* configuration fields set by __init__ / _parse_flags *)',
           '  Variables (has_file_check has_folder_exclude show_hidden recursive file_pathname dir_pathname : bool).',
           '  (* the compiled matchers (self.file_check.match / self.folder_exclude_check.match), util.is_hidden, the hooks,',
           '     os.path.join, fullpath[self._base_len:] and _add_sep *)',
           '  Variables (file_match folder_exclude_match is_hidden : str -> bool) (on_validate_file on_validate_directory : str -> str -> bool).',
           '  Variables (path_join : str -> str -> str) (strip_base add_sep : str -> str).', '']
    atoms = {'self.file_check is not None': ('has_file_check', 'bool'), 'self.folder_exclude_check': ('has_folder_exclude', 'bool'),
             'self.show_hidden': ('show_hidden', 'bool'), 'self.recursive': ('recursive', 'bool'),
             'self.file_pathname': ('file_pathname', 'bool'), 'self.dir_pathname': ('dir_pathname', 'bool'),
             'base': ('base', 'str'), 'name': ('name', 'str'), 'filename': ('filename', 'str'), 'directory': ('directory', 'str'),
             'fullpath[self._base_len:]': None}
    calls = {'os.path.join': ('path_join', ['str', 'str'], 'str'), 'util.is_hidden': ('is_hidden', ['str'], 'bool'),
             'self.on_validate_file': ('on_validate_file', ['str', 'str'], 'bool'),
             'self.on_validate_directory': ('on_validate_directory', ['str', 'str'], 'bool'),
             'self.file_check.match': ('file_match', ['str'], 'bool'),
             'self.folder_exclude_check.match': ('folder_exclude_match', ['str'], 'bool'),
             'self._add_sep': ('add_sep', ['str'], 'str'),
             'self.compare_file': ('compare_file', ['str'], 'bool'), 'self.compare_directory': ('compare_directory', ['str'], 'bool')}

    def one(fname, coqname, params, sig):
        fn = find_func(trees['wcmatch'], fname, 'WcMatch')
        args = [a.arg for a in fn.args.args if a.arg != 'self']
        if args != params:
            raise TranslationError('WcMatch.%s: parameters %r, expected %r' % (fname, args, params))
        at = {k: v for k, v in atoms.items() if v is not None}
        tr = FunTr('wcmatch', menv, args, atoms=at, calls=calls)

        class SliceAware(FunTr):
            pass
        # `fullpath[self._base_len:]` is only meaningful once `fullpath` is bound: resolved through env below
        orig_expr = tr.expr

        def expr(n, env):
            if ast.unparse(n) == 'fullpath[self._base_len:]' and 'fullpath' in env:
                return '(strip_base %s)' % env['fullpath'][0], 'str'
            return orig_expr(n, env)
        tr.expr = expr

        def k(env):
            raise TranslationError('WcMatch.%s: control reaches the end without return' % fname)
        body = tr.block(list(fn.body), {}, k)
        out.append('  (* wcmatch.WcMatch.%s *)' % fname)
        out.append('  Definition %s %s : bool :=\n %s.' % (coqname, sig, body))
        out.append('')
    one('compare_file', 'compare_file', ['filename'], '(filename : str)')
    one('compare_directory', 'compare_directory', ['directory'], '(directory : str)')
    one('_valid_file', 'valid_file', ['base', 'name'], '(base name : str)')
    one('_valid_folder', 'valid_folder', ['base', 'name'], '(base name : str)')
    out.append('End WalkFuns.')
    return '\n'.join(out) + '\n'


def generate(outdir):
    trees, menv = load_modules()
    files = {
        'Consts.v': gen_consts(trees, menv),
        'Posix.v': gen_posix(trees, menv),
        'FlagFuns.v': gen_flagfuns(trees, menv),
        'WalkFuns.v': gen_walkfuns(trees, menv),
    }
    os.makedirs(outdir, exist_ok=True)
    changed = []
    for name, text in files.items():
        path = os.path.join(outdir, name)
        old = None
        if os.path.exists(path):
            with open(path, 'r', encoding='utf-8') as fh:
                old = fh.read()
        if old != text:
            with open(path, 'w', encoding='utf-8') as fh:
                fh.write(text)
            changed.append(name)
    return changed


if __name__ == '__main__':
    outdir = sys.argv[1] if len(sys.argv) > 1 else os.path.join(os.path.dirname(os.path.abspath(__file__)), '..', 'coq', 'Gen')
    try:
        ch = generate(outdir)
    except TranslationError as e:
        print('TRANSLATION-ERROR: %s' % e)
        sys.exit(2)
    print('changed: %s' % (' '.join(ch) if ch else '(none)'))
