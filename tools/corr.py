"""Correspondence checks: run the extracted Coq model and the implementation on the same inputs.

Every function returns a dict:
  evaluations, distinct_nontrivial, disagreements (list of dicts, first N), n_disagreements, samples, distribution
"""
import os
import sys
import itertools
import collections

sys.path.insert(0, os.path.dirname(os.path.abspath(__file__)))
from wclib import Model, enc, dec, import_impl, strings_upto, seeded_rng  # noqa: E402

F = {}  # flag name -> value, filled by flags()


def flags():
    if not F:
        import_impl()
        from wcmatch import _wcparse as W, glob as G, wcmatch as WM
        for n in ('CASE IGNORECASE RAWCHARS NEGATE MINUSNEGATE PATHNAME DOTMATCH EXTMATCH GLOBSTAR BRACE REALPATH '
                  'FOLLOW SPLIT MATCHBASE NODIR NEGATEALL FORCEWIN FORCEUNIX GLOBTILDE NOUNIQUE NODOTDIR GLOBSTARLONG '
                  '_TRANSLATE _ANCHOR _EXTMATCHBASE _NOABSOLUTE _NO_GLOBSTAR_CAPTURE').split():
            F[n] = getattr(W, n)
        F['MARK'] = G.MARK
        F['SCANDOTDIR'] = G.SCANDOTDIR
        F['_PATHLIB'] = G._PATHLIB
        for n in 'DIRPATHNAME FILEPATHNAME SYMLINKS HIDDEN RECURSIVE'.split():
            F[n] = getattr(WM, n)
    return F


def fl(*names):
    f = flags()
    v = 0
    for n in names:
        v |= f[n]
    return v


def flag_names(v):
    f = flags()
    return '|'.join(n for n in f if v & f[n] and n not in ('MARK', 'SCANDOTDIR', '_PATHLIB', 'DIRPATHNAME',
                                                           'FILEPATHNAME', 'SYMLINKS', 'HIDDEN', 'RECURSIVE')) or '0'


def result(evals, nontrivial, disagreements, samples, distribution=None):
    return {'evaluations': evals, 'distinct_nontrivial': nontrivial, 'n_disagreements': len(disagreements),
            'disagreements': disagreements[:20], 'samples': samples[:6], 'distribution': distribution or {}}


def merge(results):
    out = {'evaluations': 0, 'distinct_nontrivial': 0, 'n_disagreements': 0, 'disagreements': [], 'samples': [],
           'distribution': {}}
    for r in results:
        out['evaluations'] += r['evaluations']
        out['distinct_nontrivial'] += r['distinct_nontrivial']
        out['n_disagreements'] += r['n_disagreements']
        out['disagreements'].extend(r['disagreements'])
        out['samples'].extend(r['samples'][:3])
        for k, v in r.get('distribution', {}).items():
            if isinstance(v, (int, float)):
                out['distribution'][k] = out['distribution'].get(k, 0) + v
            else:
                out['distribution'][k] = v
    out['disagreements'] = out['disagreements'][:40]
    out['samples'] = out['samples'][:10]
    return out


# ----------------------------------------------------------------------------------------------
# parser: exact regex text
# ----------------------------------------------------------------------------------------------

def impl_parse(p, flagv, is_bytes):
    from wcmatch import _wcparse as W
    try:
        pp = p.encode('latin-1') if is_bytes else p
        r = W.WcParse(pp, flagv).parse()
        return 'ok ' + enc(r)
    except ValueError:
        return 'valueerror'
    except Exception as e:  # anything else is itself a finding for C10
        return 'EXC ' + type(e).__name__


def win_drive_shape(p):
    """True when the Windows drive scanner (not modelled yet) would be involved."""
    from wcmatch import _wcparse as W
    return bool(W.RE_WIN_DRIVE_START.match(p)) or p.startswith(('\\\\', '/'))


def corr_parse(patterns, flagsets, bytes_modes=(0, 1), nproc=16, skip=None):
    """Compare model regex text with WcParse(p, flags).parse() for every pattern x flag set x str/bytes."""
    import_impl()
    m = Model()
    dis = []
    evals = 0
    texts = set()
    samples = []
    per_flag = {}
    for fv in flagsets:
        for isb in bytes_modes:
            pats = [p for p in patterns if not (isb and any(ord(c) > 255 for c in p)) and not (skip and skip(p, fv))]
            outs = m.run(['wcparse %d %d %s' % (fv, isb, enc(p)) for p in pats], nproc=nproc)
            nd = 0
            for p, o in zip(pats, outs):
                if o == 'unsupported':
                    continue       # Windows drive/UNC prefix: not modelled
                exp = impl_parse(p, fv, isb)
                evals += 1
                if o != exp:
                    nd += 1
                    dis.append({'kind': 'parse-text', 'pattern': p, 'flags': fv, 'flag_names': flag_names(fv),
                                'bytes': bool(isb),
                                'impl': dec(exp[3:]) if exp.startswith('ok ') else exp,
                                'model': dec(o[3:]) if o.startswith('ok ') else o})
                elif o.startswith('ok '):
                    texts.add((fv, isb, o))
            per_flag['%s%s' % (flag_names(fv), '/bytes' if isb else '')] = len(pats)
            if pats and len(samples) < 6:
                k = len(pats) // 2
                samples.append({'pattern': pats[k], 'flags': flag_names(fv), 'bytes': bool(isb),
                                'regex': dec(outs[k][3:]) if outs[k].startswith('ok ') else outs[k]})
    r = result(evals, len(texts), dis, samples, {'cases_per_flagset': per_flag})
    r['disagreeing_patterns'] = rank_disagreements([d for d in dis if not d['bytes']], examples=r.setdefault('semantic_examples', []))
    return r


def rank_disagreements(dis, examine=3000, keep=400, examples=None):
    """Order the patterns on which the regex text differs for the directed search: first those where the two regex
    texts (model = the code as it was modelled, impl = the code now) *behave* differently on some short name
    (a semantic difference, found by running both through `re`), shortest first; then the rest."""
    import itertools
    import random
    import re as _re
    if len(dis) > examine:
        rnd = random.Random(len(dis))
        dis = dis[:examine // 3] + rnd.sample(dis[examine // 3:], examine - examine // 3)
    sem, other = [], []
    for d in dis:
        hit = None
        if isinstance(d['impl'], str) and isinstance(d['model'], str) and d['impl'].startswith('^') and d['model'].startswith('^'):
            try:
                ri, rm = _re.compile(d['impl']), _re.compile(d['model'])
            except (_re.error, RecursionError):
                hit = ''
            else:
                lits = [c for c in dict.fromkeys(d['pattern']) if c.isalnum()][:3]
                al = lits + [c for c in ('/', '.', 'x', '\n') if c not in lits]
                for n in range(0, 4):
                    for t in itertools.product(al, repeat=n):
                        nm = ''.join(t)
                        if bool(ri.fullmatch(nm)) != bool(rm.fullmatch(nm)):
                            hit = nm
                            break
                    if hit is not None:
                        break
        else:
            hit = ''     # one side raised: a behavioural difference by itself
        (sem if hit is not None else other).append((d['pattern'], d['flags']))
        if hit and examples is not None and len(examples) < 40:
            examples.append({'pattern': d['pattern'], 'flags': d['flag_names'], 'name': hit,
                             'regex_now_accepts': bool(ri.fullmatch(hit)), 'modelled_regex_accepts': bool(rm.fullmatch(hit))})
    if examples is not None:
        examples.sort(key=lambda e: (len(e['pattern']), len(e['name'])))
    key = lambda x: (len(x[0]), x[0])
    sem = sorted(set(sem), key=key)
    other = sorted(set(other), key=key)
    return sem[:keep - min(len(other), keep // 4)] + other[:keep // 4]


# ----------------------------------------------------------------------------------------------
# WcSplit
# ----------------------------------------------------------------------------------------------

def corr_wcsplit(patterns, flagsets, nproc=16):
    import_impl()
    from wcmatch import _wcparse as W
    m = Model()
    dis = []
    evals = 0
    nontriv = set()
    samples = []
    allouts = {fv: m.run(['wcsplit %d %s' % (fv, enc(p)) for p in patterns], nproc=nproc) for fv in flagsets}
    # patterns outermost: the same text goes through every flag set back to back, through the class and through the
    # module-level split() the entry points call (whatever that remembers between calls must not show)
    for ip, p in enumerate(patterns):
        for fv in flagsets:
            o = allouts[fv][ip]
            try:
                r = list(W.WcSplit(p, fv).split())
                exp = ','.join(enc(x) for x in r) if r else '[]'
            except Exception as e:
                exp = 'EXC ' + type(e).__name__
                r = None
            evals += 1
            if o != exp:
                dis.append({'kind': 'wcsplit', 'pattern': p, 'flags': fv, 'flag_names': flag_names(fv),
                            'impl': r, 'model': [dec(x) for x in o.split(',')] if o not in ('[]',) else []})
            elif r and len(r) > 1:
                nontriv.add((fv, p))
            if r is not None:
                try:
                    r2 = list(W.split(p, fv))
                except Exception as e:
                    r2 = 'EXC ' + type(e).__name__
                if r2 != r:
                    dis.append({'kind': 'split()', 'pattern': p, 'flags': fv, 'flag_names': flag_names(fv), 'impl': r2,
                                'model': r, 'note': '_wcparse.split(p, flags) differs from WcSplit(p, flags).split() in this call history'})
    for fv in flagsets:
        if patterns and len(samples) < 4:
            p = patterns[len(patterns) // 2]
            samples.append({'pattern': p, 'flags': flag_names(fv), 'pieces': list(W.WcSplit(p, fv).split())})
    return result(evals, len(nontriv), dis, samples)


# ----------------------------------------------------------------------------------------------
# glob._GlobSplit.split (Unix rules): exact part lists
# ----------------------------------------------------------------------------------------------

def impl_gsplit(p, fv, isb):
    """_GlobSplit(p, flags).split() with the compiled matcher of magic parts replaced by its source text."""
    from wcmatch import glob as G
    orig = G._wcparse._compile
    G._wcparse._compile = lambda value, flags: value
    try:
        pp = p.encode('latin-1') if isb else p
        parts = G._GlobSplit(pp, fv).split()
        out = []
        for g in parts:
            t = g.pattern.decode('latin-1') if isinstance(g.pattern, bytes) else g.pattern
            out.append('%s:%d%d%d%d%d' % (enc(t), g.is_magic, g.is_globstar, g.is_globstarlong, g.dir_only, g.is_drive))
        return 'ok ' + (','.join(out) if out else '[]')
    except ValueError:
        return 'valueerror'
    except Exception as e:
        return 'EXC ' + type(e).__name__
    finally:
        G._wcparse._compile = orig


def corr_gsplit(patterns, flagsets, bytes_modes=(0, 1), nproc=16):
    import_impl()
    m = Model()
    dis = []
    evals = 0
    nontriv = set()
    samples = []
    shapes = {}
    for fv in flagsets:
        for isb in bytes_modes:
            pats = [p for p in patterns if not (isb and any(ord(c) > 255 for c in p))]
            outs = m.run(['gsplit %d %d %s' % (fv, isb, enc(p)) for p in pats], nproc=nproc)
            for p, o in zip(pats, outs):
                exp = impl_gsplit(p, fv, isb)
                evals += 1
                if o != exp:
                    dis.append({'kind': 'gsplit', 'pattern': p, 'flags': fv, 'flag_names': flag_names(fv), 'bytes': bool(isb),
                                'impl': exp, 'model': o})
                else:
                    n = o.count(',') + 1 if o.startswith('ok ') and o != 'ok []' else 0
                    shapes[n] = shapes.get(n, 0) + 1
                    if n > 1:
                        nontriv.add((fv, p))
            if pats and len(samples) < 4:
                p = pats[len(pats) // 2]
                samples.append({'pattern': p, 'flags': flag_names(fv), 'parts': impl_gsplit(p, fv, isb)})
    return result(evals, len(nontriv), dis, samples, {'parts_per_pattern': {str(k): v for k, v in sorted(shapes.items())}})


# ----------------------------------------------------------------------------------------------
# translate / compile_pattern list loops, with the bracex oracle recorded from the implementation
# ----------------------------------------------------------------------------------------------

class BraceRecorder:
    """Wraps bracex.iexpand inside wcmatch._wcparse: records (pattern, limit) -> result and items pulled."""

    def __init__(self):
        import bracex
        self.bracex = bracex
        self.orig = bracex.iexpand
        self.table = {}
        self.pulled = 0

    def __enter__(self):
        rec = self

        def iexpand(string, keep_escapes=False, limit=1000):
            key = (string, limit)
            got = []
            try:
                for x in rec.orig(string, keep_escapes=keep_escapes, limit=limit):
                    got.append(x)
            except rec.bracex.ExpansionLimitException:
                rec.table[key] = None
                raise
            rec.table[key] = got
            for x in got:
                rec.pulled += 1
                yield x
        self.bracex.iexpand = iexpand
        return self

    def __exit__(self, *a):
        self.bracex.iexpand = self.orig


def enc_list(l):
    return ','.join(enc(x) for x in l) if l else '[]'


def impl_lists(tr, isb, flagv, limit, pats, ex):
    """Run _wcparse.translate / compile_pattern; returns (reply string, brace table, items pulled)."""
    from wcmatch import _wcparse as W
    cv = (lambda s: s.encode('latin-1')) if isb else (lambda s: s)
    with BraceRecorder() as rec:
        try:
            a = [cv(p) for p in pats]
            e = None if ex is None else [cv(p) for p in ex]
            if tr:
                pos, neg = W.translate(a, flagv, limit, exclude=e)
            else:
                pos, neg = W.compile_pattern(a, flagv, limit, exclude=e)
                pos = [x.pattern for x in pos]
                neg = [x.pattern for x in neg]
            out = 'ok %s %s' % (enc_list(pos), enc_list(neg))
        except W.PatternLimitException:
            out = 'limit'
        except ValueError:
            out = 'valueerror'
        except SyntaxError:
            out = 'syntaxerror'
        except Exception as ex_:
            out = 'EXC ' + type(ex_).__name__
    return out, rec.table, rec.pulled


def lists_request(tr, isb, flagv, limit, pats, ex, table):
    def key(k):
        p, l = k
        if isinstance(p, bytes):
            p = p.decode('latin-1')
        return '%s@%d' % (enc(p), l)

    def val(v):
        if v is None:
            return '!'
        return enc_list([x.decode('latin-1') if isinstance(x, bytes) else x for x in v])
    btab = ';'.join('%s=%s' % (key(k), val(v)) for k, v in table.items()) or '[]'
    return 'lists %d %d %d %d %s %s %s' % (tr, isb, flagv, limit, enc_list(pats),
                                          'none' if ex is None else enc_list(ex), btab)


def corr_lists(cases, nproc=8):
    """cases: list of (tr, isb, flags, limit, pats, ex)."""
    import_impl()
    m = Model()
    reqs = []
    exps = []
    pulled = []
    for c in cases:
        out, table, n = impl_lists(*c)
        exps.append(out)
        pulled.append(n)
        reqs.append(lists_request(*c, table))
    outs = m.run(reqs, nproc=nproc)
    dis = []
    kinds = collections.Counter()
    nontriv = set()
    for c, o, e in zip(cases, outs, exps):
        kinds[e.split(' ')[0]] += 1
        if o != e:
            dis.append({'kind': 'pattern-lists', 'translate': bool(c[0]), 'bytes': bool(c[1]), 'flags': c[2],
                        'flag_names': flag_names(c[2]), 'limit': c[3], 'patterns': c[4], 'exclude': c[5],
                        'impl': e[:300], 'model': o[:300]})
        else:
            nontriv.add((c[0], c[1], c[2], c[3], tuple(c[4]), None if c[5] is None else tuple(c[5])))
    samples = [{'translate': bool(c[0]), 'flags': flag_names(c[2]), 'limit': c[3], 'patterns': c[4], 'exclude': c[5],
                'outcome': e.split(' ')[0]} for c, e in list(zip(cases, exps))[:: max(1, len(cases) // 5)]]
    return result(len(cases), len(nontriv), dis, samples, {'outcomes': dict(kinds), 'bracex_items_pulled': sum(pulled)})


# ----------------------------------------------------------------------------------------------
# search: implementation vs the executable spec (Spec.v den / pden)
# ----------------------------------------------------------------------------------------------

def derived_alphabet(ast, extra='x', newline=False, slash=False):
    import astgen
    cs = sorted(c for c in astgen.chars_of(ast) if c not in (0x2f,))
    al = [chr(c) for c in cs][:3]
    for c in ('.',) + tuple(extra):
        if c not in al:
            al.append(c)
    if newline:
        al.append('\n')
    if slash:
        al.append('/')
    return al


def search_den(asts, configs, maxlen=4, nproc=16, use_filter=True, hidden='all', extra='x', extra_flags=0):
    """asts: wire strings of pattern sequences; configs: list of (ci, dot, newline_in_alphabet).
    hidden: 'all' | 'only' | 'none' - which names to evaluate when dot is off.
    The spec gives a lower and an upper bound (they differ only on names with a protected leading dot).
    Returns (evaluations, nontrivial, mismatches); mismatch = dict(pattern, ast, name, flags, impl, lb, ub, ...)."""
    import_impl()
    import astgen
    from wcmatch import fnmatch as Fm
    m = Model()
    reqs = []
    meta = []
    for ast in asts:
        for (ci, dot, nl) in configs:
            al = derived_alphabet(ast, extra=extra, newline=nl)
            names = list(astgen.names_upto(al, maxlen if len(al) <= 5 else maxlen - 1))
            if not dot and hidden == 'only':
                names = [n for n in names if n.startswith('.')]
            elif not dot and hidden == 'none':
                names = [n for n in names if not n.startswith('.')]
            en = ','.join(enc(n) for n in names)
            reqs.append('den 0 %d %d %s %s' % (ci, dot, ast, en))
            reqs.append('den 1 %d %d %s %s' % (ci, dot, ast, en))
            meta.append((ast, ci, dot, names))
    outs = m.run(reqs, nproc=nproc)
    evals = 0
    nontriv = set()
    mism = []
    for k, (ast, ci, dot, names) in enumerate(meta):
        pw, ubits = outs[2 * k].split(' ') if names else (outs[2 * k].split(' ')[0], '')
        lbits = outs[2 * k + 1].split(' ')[1] if names else ''
        pattern = dec(pw)
        fl_ = Fm.FORCEUNIX | (Fm.IGNORECASE if ci else Fm.CASE) | (Fm.DOTMATCH if dot else 0) | \
            (Fm.EXTMATCH if 'x' in ast else 0) | extra_flags
        try:
            cm = Fm.compile(pattern, flags=fl_)
            got = [cm.match(n) for n in names]
            if use_filter:
                flt = set(Fm.filter(names, pattern, flags=fl_))
                got2 = [n in flt for n in names]
            else:
                got2 = got
        except Exception as e:
            mism.append({'pattern': pattern, 'ast': ast, 'flags': flag_names(fl_), 'name': None, 'dot': bool(dot),
                         'impl': 'EXC %s: %s' % (type(e).__name__, e), 'lb': None, 'ub': None})
            continue
        evals += len(names)
        acc = 0
        for n, ub, lb, g, g2 in zip(names, ubits, lbits, got, got2):
            ub = ub == '1'
            lb = lb == '1'
            if ub:
                acc += 1
            for gi, api in ((g, 'compile().match'), (g2, 'filter')):
                if (gi and not ub) or (lb and not gi):
                    mism.append({'pattern': pattern, 'ast': ast, 'flags': flag_names(fl_), 'name': n, 'api': api,
                                 'dot': bool(dot), 'ci': bool(ci), 'impl': gi, 'lb': lb, 'ub': ub})
                    break
        if 0 < acc < len(names):
            nontriv.add((pattern, ci, dot))
    return evals, len(nontriv), mism


def search_pden(pps, configs, maxlen=5, nproc=16, root_names=False, nl_suffix=False):
    """pps: ppat wire strings; configs: list of dicts(ci, dot, gs, gl, mb, nodir?).  Names: all strings up to maxlen
    over a derived alphabet that always contains '/', '.'."""
    import_impl()
    import astgen
    from wcmatch import glob as Gm
    m = Model()
    reqs = []
    meta = []
    for pp in pps:
        rooted = pp.startswith('R:')
        for cf in configs:
            al = derived_alphabet(pp, extra='x')[:3]
            for c in ('.', '/'):
                if c not in al:
                    al.append(c)
            names = [n for n in astgen.names_upto(al, maxlen if len(al) <= 4 else maxlen - 1)]
            # relative patterns are compared on relative paths, rooted patterns on rooted paths
            names = [n for n in names if n.startswith('/') == rooted]
            if nl_suffix:
                names = [n + '\n' for n in names]     # a final line feed is a character like any other
            en = ','.join(enc(n) for n in names)
            for lb in (0, 1):
                reqs.append('pden %d %d %d %d %d %d %s %s' % (lb, cf['ci'], cf['dot'], cf['gs'], cf['gl'], cf['mb'], pp, en))
            meta.append((pp, cf, names))
    outs = m.run(reqs, nproc=nproc)
    evals = 0
    nontriv = set()
    mism = []
    for k, (pp, cf, names) in enumerate(meta):
        pw = outs[2 * k].split(' ')[0]
        ubits = outs[2 * k].split(' ')[1] if names else ''
        lbits = outs[2 * k + 1].split(' ')[1] if names else ''
        pattern = dec(pw)
        fl_ = Gm.FORCEUNIX | (Gm.IGNORECASE if cf['ci'] else Gm.CASE) | (Gm.DOTGLOB if cf['dot'] else 0) | \
            (Gm.EXTGLOB if 'x' in pp else 0) | (Gm.GLOBSTAR if cf['gs'] and not cf.get('noG') else 0) | (Gm.GLOBSTARLONG if cf['gl'] else 0) | \
            (Gm.MATCHBASE if cf['mb'] else 0)
        try:
            cm = Gm.compile(pattern, flags=fl_)
            got = [cm.match(n) for n in names]
            flt = set(Gm.globfilter(names, pattern, flags=fl_))
            got2 = [n in flt for n in names]
        except Exception as e:
            mism.append({'pattern': pattern, 'ast': pp, 'flags': flag_names(fl_), 'name': None, 'cfg': cf,
                         'impl': 'EXC %s: %s' % (type(e).__name__, e), 'lb': None, 'ub': None})
            continue
        evals += len(names)
        acc = 0
        for n, ub, lb, g, g2 in zip(names, ubits, lbits, got, got2):
            ub = ub == '1'
            lb = lb == '1'
            acc += ub
            for gi, api in ((g, 'compile().match'), (g2, 'globfilter')):
                if (gi and not ub) or (lb and not gi):
                    mism.append({'pattern': pattern, 'ast': pp, 'flags': flag_names(fl_), 'name': n, 'api': api,
                                 'cfg': cf, 'impl': gi, 'lb': lb, 'ub': ub})
                    break
        if 0 < acc < len(names):
            nontriv.add((pattern, tuple(sorted(cf.items()))))
    return evals, len(nontriv), mism


# ----------------------------------------------------------------------------------------------
# util.norm_pattern
# ----------------------------------------------------------------------------------------------

def corr_norm(patterns, configs, nproc=16):
    """configs: list of (is_bytes, normalize, raw)."""
    import_impl()
    import unicodedata
    import re as _re
    from wcmatch import util as U
    m = Model()
    dis = []
    evals = 0
    nontriv = set()
    samples = []
    kinds = collections.Counter()
    for (isb, nrm, raw) in configs:
        pats = [p for p in patterns if not isb or all(ord(c) < 256 for c in p)]
        reqs = []
        for p in pats:
            tab = []
            for nm in _re.findall(r'\\N\{([^}]*?)\}', p):
                try:
                    tab.append('%s=%x' % (enc(nm), ord(unicodedata.lookup(nm))))
                except KeyError:
                    pass
            reqs.append('norm %d %d %d %s %s' % (isb, nrm, raw, enc(p), ';'.join(tab) or '[]'))
        outs = m.run(reqs, nproc=nproc)
        for p, o in zip(pats, outs):
            try:
                r = U.norm_pattern(p.encode('latin-1') if isb else p, bool(nrm), bool(raw))
                exp = 'ok ' + enc(r)
            except SyntaxError:
                exp = 'syntaxerror'
            except KeyError:
                exp = 'keyerror'
            except ValueError:
                exp = 'valueerror'
            except Exception as e:
                exp = 'EXC ' + type(e).__name__
            evals += 1
            kinds[exp.split(' ')[0]] += 1
            if o != exp:
                dis.append({'kind': 'norm_pattern', 'pattern': p, 'bytes': bool(isb), 'normalize': bool(nrm), 'raw': bool(raw),
                            'impl': dec(exp[3:], False) if exp.startswith('ok ') else exp,
                            'model': dec(o[3:]) if o.startswith('ok ') else o})
            elif exp.startswith('ok ') and exp != 'ok ' + enc(p):
                nontriv.add((p, isb, nrm, raw))
        if pats and len(samples) < 4:
            samples.append({'pattern': pats[len(pats) // 2], 'bytes': bool(isb), 'normalize': bool(nrm), 'raw': bool(raw)})
    return result(evals, len(nontriv), dis, samples, {'outcomes': dict(kinds)})


# ----------------------------------------------------------------------------------------------
# glob walker: exact result sequence, model driven by the recorded OS answers and matcher verdicts
# ----------------------------------------------------------------------------------------------

class MatchProxy:
    def __init__(self, pid, pattern, log):
        self.pid, self.pattern, self.log = pid, pattern, log

    def match(self, name):
        r = self.pattern.match(name) is not None
        nm = name.decode('latin-1') if isinstance(name, bytes) else name
        self.log[(self.pid, nm)] = r
        return r

    def fullmatch(self, name):
        # (the walker applies its segment matchers with fullmatch since repo fix 57bb6b0)
        r = self.pattern.fullmatch(name) is not None
        nm = name.decode('latin-1') if isinstance(name, bytes) else name
        self.log[(self.pid, nm)] = r
        return r


class ExclProxy:
    def __init__(self, patterns, log):
        self.patterns, self.log = patterns, log

    def fullmatch(self, name):
        r = any(p.fullmatch(name) is not None for p in self.patterns)
        nm = name.decode('latin-1') if isinstance(name, bytes) else name
        self.log[nm] = r
        return r

    def match(self, name):
        # the recorder answers whatever way the walker asks; what it asks with is the code's business
        r = any(p.match(name) is not None for p in self.patterns)
        nm = name.decode('latin-1') if isinstance(name, bytes) else name
        self.log[nm] = r
        return r


TIMEOUTS = {'n': 0}


def run_glob_recorded(root, patterns, flagv, exclude=None, limit=1000, timeout=10):
    """Run wcmatch.glob.Glob(...).glob() under the recorder.  Returns dict(result | error, request for the model)."""
    import signal
    import trees
    from wcmatch import glob as Gm
    seglog, exlog = {}, {}

    class Alarm(Exception):
        pass

    def onalarm(*a):
        raise Alarm()
    try:
        g = Gm.Glob(patterns, flags=flagv, root_dir=root, limit=limit, exclude=exclude)
    except Exception as e:
        return {'error': type(e).__name__}
    if not hasattr(g, 'npatterns'):
        return {'result': [], 'request': None}
    pid = 0
    newpats = []
    for pat in g.pattern:
        np_ = []
        for part in pat:
            if part.is_magic:
                np_.append(part._replace(pattern=MatchProxy(pid, part.pattern, seglog)) if not isinstance(part.pattern, (str, bytes)) else part)
                pid += 1
            else:
                np_.append(part)
        newpats.append(np_)
    g.pattern = newpats
    has_excl = bool(g.npatterns)
    if has_excl:
        g.npatterns = [ExclProxy(g.npatterns, exlog)]
    if TIMEOUTS['n'] >= 3:
        return {'error': 'TIMEOUT'}       # the run already timed out three times: stop exploring (it is reported)
    with trees.FSRecorder(root) as rec:
        old = signal.signal(signal.SIGALRM, onalarm)
        signal.alarm(timeout if TIMEOUTS['n'] == 0 else 3)
        try:
            res = list(g.glob())
            err = None
        except Alarm:
            res, err = None, 'TIMEOUT'
            TIMEOUTS['n'] += 1
        except RecursionError:
            res, err = None, 'RecursionError'
        finally:
            signal.alarm(0)
            signal.signal(signal.SIGALRM, old)
    if err:
        return {'error': err, 'scandir_calls': rec.scandir_calls}
    res = [r.decode('latin-1') if isinstance(r, bytes) else r for r in res]
    # request for the model
    cfg = ''.join('1' if b else '0' for b in (g.dot, g.follow_links, g.case_sensitive, g.mark, g.nounique, g.pathlib, has_excl))
    pid = 0
    pl = []
    for pat in newpats:
        ps = []
        for part in pat:
            if part.is_magic and not isinstance(part.pattern, (str, bytes)):
                ps.append('-:%d:%s' % (part.pattern.pid, ''.join('1' if b else '0' for b in (True, part.is_globstar, part.is_globstarlong, part.dir_only, part.is_drive))))
            else:
                txt = part.pattern.decode('latin-1') if isinstance(part.pattern, bytes) else part.pattern
                ps.append('%s:0:%s' % (enc(txt), ''.join('1' if b else '0' for b in (part.is_magic, part.is_globstar, part.is_globstarlong, part.dir_only, part.is_drive))))
        pl.append(','.join(ps))
    sd = ';'.join('%s=%s' % (enc(k), 'ERR' if v is None else ','.join('%s:%s:%d' % (enc(n), 'E' if d == 'E' else int(d), int(l)) for n, d, l in v))
                  for k, v in rec.scandirs.items()) or '[]'
    lx = ';'.join('%s:%d' % (enc(k), int(v)) for k, v in rec.lexists.items()) or '[]'
    sm = ';'.join('%d:%s:%d' % (i, enc(n), int(v)) for (i, n), v in seglog.items()) or '[]'
    xm = ';'.join('%s:%d' % (enc(n), int(v)) for n, v in exlog.items()) or '[]'
    req = 'glob %s %s %s %s %s %s' % (cfg, ';'.join(pl) or '[]', sd, lx, sm, xm)
    return {'result': res, 'request': req, 'scandir_calls': rec.scandir_calls, 'glob_obj': g}


def corr_glob(cases, nproc=8):
    """cases: list of (tree_root, patterns, flags, exclude).  Exact result sequence vs the model."""
    import_impl()
    m = Model()
    reqs, exps, keep = [], [], []
    errs = collections.Counter()
    for c in cases:
        r = run_glob_recorded(c[0], c[1], c[2], c[3])
        if 'error' in r:
            errs[r['error']] += 1
            continue
        if r['request'] is None:
            continue
        reqs.append(r['request'])
        exps.append('ok ' + (','.join(enc(x) for x in r['result']) if r['result'] else '[]'))
        keep.append(c)
    outs = m.run(reqs, nproc=nproc)
    dis = []
    nontriv = set()
    for c, o, e in zip(keep, outs, exps):
        if o != e:
            dis.append({'kind': 'glob-walk', 'patterns': c[1], 'flags': flag_names(c[2]), 'exclude': c[3],
                        'impl': [dec(x) for x in e[3:].split(',')] if e != 'ok []' else [],
                        'model': ([dec(x) for x in o[3:].split(',')] if o.startswith('ok ') and o != 'ok []' else o)})
        elif e != 'ok []':
            nontriv.add((c[0], tuple(c[1]) if isinstance(c[1], list) else c[1], c[2], repr(c[3])))
    samples = [{'patterns': c[1], 'flags': flag_names(c[2]), 'exclude': c[3], 'result': e[:200]} for c, e in list(zip(keep, exps))[:: max(1, len(keep) // 4)]]
    return result(len(keep), len(nontriv), dis, samples, {'skipped_errors': dict(errs)})


# ----------------------------------------------------------------------------------------------
# WcMatch walker: recording subclass, kill schedules, model request
# ----------------------------------------------------------------------------------------------

def run_wcmatch_recorded(root, file_pat, excl_pat, flagv, kill_at=None, start_aborted=False, timeout=10):
    """Run WcMatch(...).match() with every hook recorded; kill() is called inside the kill_at-th hook invocation
    (0-based over _valid_folder, _valid_file, on_match, on_skip in order of occurrence).
    Returns dict(result, skipped, events, request)."""
    import os as _os
    import signal
    from wcmatch import wcmatch as WM
    rec = {'vfo': {}, 'vfi': {}, 'mk': {}, 'sk': {}, 'events': 0, 'reset': 0, 'hooks': []}

    def tick(obj, kind, base, name):
        k = rec['events']
        rec['events'] += 1
        rec['hooks'].append((kind, base, name))
        if kill_at is not None and k == kill_at:
            obj.kill()
            return True
        return False

    class W(WM.WcMatch):
        def _valid_folder(self, base, name):
            killed = tick(self, 'vfolder', base, name)
            try:
                r = super()._valid_folder(base, name)
            except Exception:
                rec['vfo'][(base, name)] = (False, killed)
                raise
            rec['vfo'][(base, name)] = (r, killed)
            return r

        def _valid_file(self, base, name):
            killed = tick(self, 'vfile', base, name)
            try:
                r = super()._valid_file(base, name)
            except Exception:
                rec['vfi'][(base, name)] = ('R', killed)
                raise
            rec['vfi'][(base, name)] = ('V' if r else 'I', killed)
            return r

        def on_match(self, base, name):
            rec['mk'][(base, name)] = tick(self, 'on_match', base, name)
            return (base, name)

        def on_skip(self, base, name):
            rec['sk'][(base, name)] = tick(self, 'on_skip', base, name)
            return None

        def on_reset(self):
            rec['reset'] += 1
    walk_log = {}
    links = {}
    real_walk = _os.walk

    def walk(top, topdown=True, onerror=None, followlinks=False):
        for base, dirs, files in real_walk(top, topdown, onerror, followlinks):
            walk_log[base] = (list(dirs), list(files))
            for d in dirs:
                links[_os.path.join(base, d)] = _os.path.islink(_os.path.join(base, d))
            yield base, dirs, files

    class Alarm(Exception):
        pass

    def onalarm(*a):
        raise Alarm()
    w = W(root, file_pat, excl_pat, flags=flagv)
    if start_aborted:
        w.kill()
    _os.walk = walk
    old = signal.signal(signal.SIGALRM, onalarm)
    signal.alarm(timeout)
    try:
        res = w.match()
        err = None
    except Alarm:
        res, err = None, 'TIMEOUT'
    finally:
        signal.alarm(0)
        signal.signal(signal.SIGALRM, old)
        _os.walk = real_walk
    if err:
        return {'error': err}
    # the model needs the listing of every directory the uninterrupted walk would reach: complete the log
    def e2(b, n):
        return '%s|%s' % (enc(b), enc(n))
    lst = ';'.join('%s=%s|%s' % (enc(k), ','.join(enc(x) for x in v[0]), ','.join(enc(x) for x in v[1])) for k, v in walk_log.items()) or '[]'
    lk = ';'.join('%s:%d' % (enc(k), int(v)) for k, v in links.items()) or '[]'
    vfo = ';'.join('%s:%d:%d' % (e2(*k), int(v[0]), int(v[1])) for k, v in rec['vfo'].items()) or '[]'
    vfi = ';'.join('%s:%s:%d' % (e2(*k), v[0], int(v[1])) for k, v in rec['vfi'].items()) or '[]'
    mk = ';'.join('%s:%d' % (e2(*k), int(v)) for k, v in rec['mk'].items()) or '[]'
    sk = ';'.join('%s:%d' % (e2(*k), int(v)) for k, v in rec['sk'].items()) or '[]'
    req = 'wcwalk %d %d %s %s %s %s %s %s %s' % (int(bool(flagv & WM.SYMLINKS)), int(start_aborted), enc(w._root_dir), lst, lk, vfo, vfi, mk, sk)
    return {'result': res, 'skipped': w.get_skipped(), 'events': rec['events'], 'hooks': rec['hooks'], 'request': req, 'aborted': w.is_aborted(),
            'resets': rec['reset'], 'obj': w}


def corr_wcmatch(cases, nproc=8):
    """cases: (root, file_pat, excl_pat, flags, kill_at, start_aborted)"""
    import_impl()
    m = Model()
    reqs, exps, keep = [], [], []
    for c in cases:
        r = run_wcmatch_recorded(*c)
        if 'error' in r:
            continue
        reqs.append(r['request'])
        exps.append('ok %s %d %d %d' % (','.join('%s|%s' % (enc(b), enc(n)) for b, n in r['result']) or '[]', r['skipped'],
                                        len([h for h in r['hooks'] if h[0] == 'vfile']), int(r['aborted'])))
        keep.append(c)
    outs = m.run(reqs, nproc=nproc)
    dis = []
    nontriv = set()
    for c, o, e in zip(keep, outs, exps):
        if o != e:
            dis.append({'kind': 'wcmatch-walk', 'file_pattern': c[1], 'exclude_pattern': c[2], 'flags': c[3], 'kill_at': c[4],
                        'start_aborted': c[5], 'impl': e[:400], 'model': o[:400]})
        elif not e.startswith('ok [] '):
            nontriv.add(c[1:])
    samples = [{'file_pattern': c[1], 'exclude_pattern': c[2], 'flags': c[3], 'kill_at': c[4]} for c in keep[:: max(1, len(keep) // 4)]]
    return result(len(keep), len(nontriv), dis, samples)


# ----------------------------------------------------------------------------------------------
# _wcmatch._Match.match with real=True (the REALPATH decision) vs RealMatch.run_realpath
# ----------------------------------------------------------------------------------------------

class _FakeMatch:
    def __init__(self, text, spans):
        self._t, self._s = text, spans

    def groups(self):
        return tuple(None if sp is None else self._t[sp[0]:sp[1]] for sp in self._s)

    def start(self, i):
        return -1 if self._s[i - 1] is None else self._s[i - 1][0]

    def end(self, i):
        return -1 if self._s[i - 1] is None else self._s[i - 1][1]


class _FakePattern:
    """stands for a compiled regex: answers `fullmatch` from a table name -> None | list of spans"""
    pattern = ''

    def __init__(self, table):
        self.table = table

    def fullmatch(self, name):
        sp = self.table.get(name)
        return None if sp is None else _FakeMatch(name, sp)


def _fs_table(root, maxdepth=5):
    """(absolute path, kind) for the root and everything reachable below it, also through links"""
    out = {root: 'd'}

    def kind(p):
        if os.path.islink(p):
            return 'D' if os.path.isdir(p) else ('F' if os.path.exists(p) else 'x')
        return 'd' if os.path.isdir(p) else 'f'

    def rec(p, depth):
        try:
            names = os.listdir(p)
        except OSError:
            return
        for n in names:
            q = p + '/' + n
            out[q] = kind(q)
            if depth < maxdepth and os.path.isdir(q):
                rec(q, depth + 1)
    rec(root, 1)
    return out


def _enc_res(sp):
    if sp is None:
        return 'N'
    if not sp:
        return 'e'
    return '+'.join('-' if g is None else '%d:%d' % g for g in sp)


def corr_realpath(rng, specs, ncases=150, nproc=8):
    """Real regexes compiled from glob patterns (their group spans read off `re`) and made-up group layouts, on names of
    the tree (with and without trailing / doubled separators, missing names, absolute spellings)."""
    import_impl()
    import trees
    from wcmatch import glob as Gm, _wcmatch as WMm, _wcparse as W
    m = Model()
    reqs, meta = [], []
    gpats = ['**', '**/*', '**/x*', 'a/**', '*/**/*', '**/*/', '**/', '*', '*/', '*/*', 'a*/**/x*', '**/**', '**/a/**', '***/x*', '**/*.txt', 're*/**', 'v*/**', '!**/x*',
             '**/s*/**', 'vis/**', '.link/**', '*/sub/*', '**/sub/']
    kinds = collections.Counter()
    for spec in specs:
        with trees.Tree(spec) as T:
            root = T.root
            tbl = _fs_table(root)
            rels = sorted(p[len(root) + 1:] for p in tbl if p != root)
            tenc = ';'.join('%s=%s' % (enc(p), k) for p, k in sorted(tbl.items()))
            for _ in range(ncases):
                rel = rng.choice(rels) if rels and rng.random() < 0.85 else rng.choice(['nope', 'a/nope', 'nope/x'])
                r = rng.random()
                name = rel
                if r < 0.15:
                    name = rel + '/'
                elif r < 0.22:
                    name = rel.replace('/', '//', 1)
                elif r < 0.3:
                    name = root + '/' + rel
                follow = rng.random() < 0.3
                incl, excl = [], []
                how = rng.choice(['real', 'real', 'fake'])
                kinds[how] += 1
                for lst, k in ((incl, rng.randint(1, 2)), (excl, rng.choice([0, 0, 1]))):
                    for _i in range(k):
                        if how == 'real':
                            gp = rng.choice(gpats)
                            if name.startswith('/'):
                                gp = root + '/' + gp.lstrip('!')
                            fl_ = Gm.GLOBSTAR | Gm.REALPATH | Gm.FORCEUNIX | rng.choice([0, Gm.DOTGLOB, Gm.GLOBSTARLONG, Gm.MATCHBASE])
                            try:
                                cm = Gm.compile(gp.lstrip('!'), flags=fl_)
                                cp = cm._matcher._include[0]
                            except Exception:
                                continue
                            tabl = {}
                            for f_ in (name, name + '/'):
                                mo = cp.fullmatch(f_)
                                tabl[f_] = None if mo is None else [None if mo.group(i) is None else mo.span(i) for i in range(1, (mo.re.groups or 0) + 1)]
                            lst.append((cp, tabl))
                        else:
                            tabl = {}
                            for f_ in (name, name + '/'):
                                if rng.random() < 0.15:
                                    tabl[f_] = None
                                    continue
                                # group borders at segment borders (a border inside a segment would make the code ask about
                                # `x/.`-style paths, which the table file system of the model does not normalise)
                                sl = [i for i, c_ in enumerate(f_) if c_ == '/']
                                cuts = sorted(set([0, len(f_), max(0, len(f_) - 1)] + sl + [i + 1 for i in sl]))
                                spans = []
                                for _g in range(rng.randint(0, 3)):
                                    if rng.random() < 0.15:
                                        spans.append(None)
                                        continue
                                    a_, b_ = sorted((rng.choice(cuts), rng.choice(cuts)))
                                    if a_ == len(f_) - 1 and a_ not in sl and a_ - 1 not in sl and a_ != 0:
                                        a_ = b_      # not a border: empty span instead
                                    spans.append((a_, b_))
                                tabl[f_] = spans
                            lst.append((_FakePattern(tabl), tabl))
                if not incl:
                    continue
                inc_objs = tuple(x[0] for x in incl)
                exc_objs = tuple(x[0] for x in excl)
                try:
                    got = WMm._Match(name, inc_objs, exc_objs or None, True, True, follow).match(root_dir=root)
                    got = '1' if got else '0'
                except Exception as e:
                    got = 'EXC ' + type(e).__name__
                pe = lambda lst_: ','.join('%s/%s' % (_enc_res(t.get(name)), _enc_res(t.get(name + '/'))) for _o, t in lst_) or '[]'
                reqs.append('realpath %d %s %s %s %s %s' % (follow, enc(root), enc(name), tenc, pe(incl), pe(excl)))
                meta.append({'name': name.replace(root, '<root>'), 'follow': follow, 'how': how, 'impl': got, 'tree': spec,
                             'include': [t for _o, t in incl] if how == 'fake' else [getattr(o, 'pattern', '')[:120] for o, _t in incl],
                             'exclude': [t for _o, t in excl] if how == 'fake' else [getattr(o, 'pattern', '')[:120] for o, _t in excl]})
    outs = m.run(reqs, nproc=nproc)
    # how many rejections are due to a symlink inside a captured `**` run: the same request with follow forced on
    alt = m.run([r_.replace('realpath 0 ', 'realpath 1 ', 1) for r_ in reqs], nproc=nproc)
    link_sensitive = sum(1 for o, a_ in zip(outs, alt) if o != a_)
    dis = []
    nontriv = 0
    for o, me in zip(outs, meta):
        if o != me['impl']:
            d = dict(me)
            d['kind'] = 'realpath'
            d['model'] = o
            d['include'] = repr(d['include'])[:400]
            d['exclude'] = repr(d['exclude'])[:400]
            dis.append(d)
        elif me['impl'] == '1':
            nontriv += 1
    return result(len(reqs), nontriv, dis, [{k: (repr(v)[:200] if k in ('include', 'exclude', 'tree') else v) for k, v in me.items()} for me in meta[:2]],
                  {'pattern_source': dict(kinds), 'accepted': nontriv, 'rejected': len(reqs) - nontriv, 'rejected_because_of_a_link': link_sensitive})


# ----------------------------------------------------------------------------------------------
# _wcparse._get_win_drive vs WinDrive.get_win_drive (+ drive_regex / drive_plain)
# ----------------------------------------------------------------------------------------------

def corr_windrive(patterns, nproc=8):
    import_impl()
    from wcmatch import _wcparse as W
    m = Model()
    dis = []
    evals = 0
    kinds = collections.Counter()
    opt = lambda t: 'N' if t is None else 'S' + enc(t)
    for cs in (0, 1):
        outs = m.run(['windrive %d %s' % (cs, enc(p)) for p in patterns], nproc=nproc)
        for p, o in zip(patterns, outs):
            try:
                rs, dr, sl, e = W._get_win_drive(p, True, bool(cs))
                rs2, dp, sl2, e2 = W._get_win_drive(p, False, bool(cs))
                exp = '%d|%s|%s|%d|%d' % (rs, opt(dr), opt(dp), sl, e) if (rs, sl, e) == (rs2, sl2, e2) else 'MODES-DIFFER'
            except Exception as ex:
                exp = 'EXC ' + type(ex).__name__
            evals += 1
            kinds['drive' if dr is not None else ('root' if rs else 'relative')] += 1
            if o != exp:
                dis.append({'kind': 'windrive', 'pattern': p, 'case_sensitive': bool(cs), 'impl': exp, 'model': o})
    return result(evals, kinds['drive'], dis, [{'pattern': patterns[len(patterns) // 2]}] if patterns else [], {'shapes': dict(kinds)})
