(* Line-protocol driver around the extracted Coq model.
   request : <cmd> <arg> ... (space separated); strings are '.'-separated hex code points, "-" = empty
   reply   : one line *)
module M = Model
open M
type string = Stdlib.String.t
module String = Stdlib.String
module List = Stdlib.List

let rec pos_of_int (n : int) : positive =
  if n = 1 then XH else if n land 1 = 0 then XO (pos_of_int (n lsr 1)) else XI (pos_of_int (n lsr 1))
let n_of_int (n : int) : n = if n = 0 then N0 else Npos (pos_of_int n)
let z_of_int (n : int) : z = if n = 0 then Z0 else if n > 0 then Zpos (pos_of_int n) else Zneg (pos_of_int (-n))
let rec int_of_pos (p : positive) : int =
  match p with XH -> 1 | XO q -> 2 * int_of_pos q | XI q -> 2 * int_of_pos q + 1
let int_of_n (x : n) : int = match x with N0 -> 0 | Npos p -> int_of_pos p
let int_of_z (x : z) : int = match x with Z0 -> 0 | Zpos p -> int_of_pos p | Zneg p -> - (int_of_pos p)
let rec int_of_nat (x : nat) : int = match x with O -> 0 | S y -> 1 + int_of_nat y
let rec nat_of_int (n : int) : nat = if n <= 0 then O else S (nat_of_int (n - 1))

let dec_str (s : string) : n list =
  if s = "-" then [] else List.map (fun h -> n_of_int (int_of_string ("0x" ^ h))) (String.split_on_char '.' s)
let enc_str (l : n list) : string =
  if l = [] then "-" else String.concat "." (List.map (fun c -> Printf.sprintf "%x" (int_of_n c)) l)
let dec_bool s = (s = "1")
let enc_bool b = if b then "1" else "0"
let enc_list (f : 'a -> string) (l : 'a list) : string =
  if l = [] then "[]" else String.concat "," (List.map f l)

let handle (line : string) : string =
  match String.split_on_char ' ' line with
  | ["wcparse"; fl; isb; p] ->
      (match wcparse linux (z_of_int (int_of_string fl)) (dec_bool isb) (dec_str p) with
       | Inl t -> "ok " ^ enc_str t
       | Inr EValue -> "valueerror"
       | Inr EFuel -> "fuel"
       | Inr EUnsupported -> "unsupported")
  | ["wcsplit"; fl; p] ->
      enc_list enc_str (wcsplit linux (z_of_int (int_of_string fl)) (dec_str p))
  | ["lists"; tr; isb; fl; lim; pats; ex; btab] ->
      (* pats: comma list or "[]"; ex: "none" or comma list or "[]"; btab: ';' list of pat@lim=!|list *)
      let dl s = if s = "[]" then [] else List.map dec_str (String.split_on_char ',' s) in
      let tab = if btab = "[]" then [] else
        List.map (fun e ->
          match String.split_on_char '=' e with
          | [k; v] ->
            (match String.split_on_char '@' k with
             | [p; l] -> ((dec_str p, int_of_string l), (if v = "!" then None else Some (dl v)))
             | _ -> failwith "btab")
          | _ -> failwith "btab") (String.split_on_char ';' btab) in
      let brace p l =
        (try List.assoc (p, int_of_z l) tab with Not_found -> raise Exit) in
      let isb = dec_bool isb in
      let parse f p = wcparse linux f isb p in
      (try
        (match pattern_lists linux brace (fun _ p -> p) (fun _ _ p -> Some p) parse (dec_bool tr) isb
                 (z_of_int (int_of_string fl)) (z_of_int (int_of_string lim)) (dl pats)
                 (if ex = "none" then None else Some (dl ex)) with
         | Inl (pos, neg) -> "ok " ^ enc_list enc_str pos ^ " " ^ enc_list enc_str neg
         | Inr LLimit -> "limit"
         | Inr LValue -> "valueerror"
         | Inr LSyntax -> "syntaxerror"
         | Inr LFuel -> "fuel"
         | Inr LUnsupported -> "unsupported")
      with Exit -> "oraclemiss")
  | _ -> "badrequest"

let () =
  try
    while true do
      let line = input_line stdin in
      print_string (handle line); print_newline ()
    done
  with End_of_file -> ()
