(* Line-protocol driver around the extracted Coq model.
   request : <cmd> <arg> ... (space separated); strings are '.'-separated hex code points, "-" = empty
   reply   : one line *)
module M = Model
open M
type string = Stdlib.String.t
module String = Stdlib.String
module List = Stdlib.List

let rec pos_of_int (n : int) : positive =
  if n = 1 then XH else if n land 1 = 0 then XO (pos_of_int (n lsr 1)) else XI (pos_of_int (n lsr 1))
let n_of_int (n : int) : n = if n = 0 then N0 else Npos (pos_of_int n)
let z_of_int (n : int) : z = if n = 0 then Z0 else if n > 0 then Zpos (pos_of_int n) else Zneg (pos_of_int (-n))
let rec int_of_pos (p : positive) : int =
  match p with XH -> 1 | XO q -> 2 * int_of_pos q | XI q -> 2 * int_of_pos q + 1
let int_of_n (x : n) : int = match x with N0 -> 0 | Npos p -> int_of_pos p
let int_of_z (x : z) : int = match x with Z0 -> 0 | Zpos p -> int_of_pos p | Zneg p -> - (int_of_pos p)
let rec int_of_nat (x : nat) : int = match x with O -> 0 | S y -> 1 + int_of_nat y
let rec nat_of_int (n : int) : nat = if n <= 0 then O else S (nat_of_int (n - 1))

let dec_str (s : string) : n list =
  if s = "-" then [] else List.map (fun h -> n_of_int (int_of_string ("0x" ^ h))) (String.split_on_char '.' s)
let enc_str (l : n list) : string =
  if l = [] then "-" else String.concat "." (List.map (fun c -> Printf.sprintf "%x" (int_of_n c)) l)
let dec_bool s = (s = "1")
let enc_bool b = if b then "1" else "0"
let enc_list (f : 'a -> string) (l : 'a list) : string =
  if l = [] then "[]" else String.concat "," (List.map f l)


(* ---- pattern AST wire format (see tools/astgen.py) ---- *)
exception Parse_error of string
let parse_seq (s : string) (pos : int ref) : pat list =
  let n = String.length s in
  let peek () = if !pos < n then s.[!pos] else '\000' in
  let adv () = incr pos in
  let hex () =
    let st = !pos in
    while !pos < n && (match s.[!pos] with '0'..'9' | 'a'..'f' -> true | _ -> false) do incr pos done;
    if !pos = st then raise (Parse_error "hex");
    n_of_int (int_of_string ("0x" ^ String.sub s st (!pos - st))) in
  let name () =
    let st = !pos in
    while !pos < n && (match s.[!pos] with 'a'..'z' -> true | _ -> false) do incr pos done;
    let w = String.sub s st (!pos - st) in
    List.init (String.length w) (fun i -> n_of_int (Char.code w.[i])) in
  let rec seq () : pat list =
    (match peek () with
     | 'l' | 'e' | 's' | 'q' | 'b' | 'x' ->
         let t = tok () in
         if peek () = '.' then (adv (); t :: seq ()) else [t]
     | _ -> [])
  and tok () : pat =
    match peek () with
    | 'l' -> adv (); PLit (hex ())
    | 'e' -> adv (); PEsc (hex ())
    | 's' -> adv (); PStar
    | 'q' -> adv (); PQm
    | 'b' -> adv ();
        let neg = (peek () = '1') in adv ();
        if peek () <> '[' then raise (Parse_error "["); adv ();
        let rec items () =
          let it = (match peek () with
            | 'c' -> adv (); BChar (hex ())
            | 'r' -> adv (); let lo = hex () in if peek () <> '-' then raise (Parse_error "-"); adv (); let hi = hex () in BRange (lo, hi)
            | 'p' -> adv (); BPosix (name ())
            | _ -> raise (Parse_error "item")) in
          if peek () = ',' then (adv (); it :: items ()) else [it] in
        let its = items () in
        if peek () <> ']' then raise (Parse_error "]"); adv ();
        PBr (neg, its)
    | 'x' -> adv ();
        let k = (match peek () with 'Q' -> KQ | 'S' -> KS | 'P' -> KP | 'A' -> KA | 'N' -> KN | _ -> raise (Parse_error "kind")) in
        adv ();
        if peek () <> '(' then raise (Parse_error "("); adv ();
        let rec alts () =
          let a = seq () in
          if peek () = ';' then (adv (); a :: alts ()) else [a] in
        let al = alts () in
        if peek () <> ')' then raise (Parse_error ")"); adv ();
        PExt (k, al)
    | _ -> raise (Parse_error "tok") in
  seq ()

let parse_pats (s : string) : pat list =
  if s = "-" then [] else
  let pos = ref 0 in
  let r = parse_seq s pos in
  if !pos <> String.length s then raise (Parse_error ("trailing at " ^ string_of_int !pos)) else r

let parse_ppat (s : string) : ppat =
  (* R:seg/seg/...:T  ; seg = g | G | seq *)
  match String.split_on_char ':' s with
  | [r; segs; t] ->
      let one x = if x = "g" then SGlobstar else if x = "G" then SGlobstarLong else SPat (parse_pats x) in
      { p_root = (r = "R"); p_segs = (if segs = "" then [] else List.map one (String.split_on_char '/' segs)); p_trail = (t = "T") }
  | _ -> raise (Parse_error "ppat")

let handle (line : string) : string =
  match String.split_on_char ' ' line with
  | ["wcparse"; fl; isb; p] ->
      (match wcparse linux (z_of_int (int_of_string fl)) (dec_bool isb) (dec_str p) with
       | Inl t -> "ok " ^ enc_str t
       | Inr EValue -> "valueerror"
       | Inr EFuel -> "fuel"
       | Inr EUnsupported -> "unsupported")
  | ["wcsplit"; fl; p] ->
      enc_list enc_str (wcsplit linux (z_of_int (int_of_string fl)) (dec_str p))
  | ["lists"; tr; isb; fl; lim; pats; ex; btab] ->
      (* pats: comma list or "[]"; ex: "none" or comma list or "[]"; btab: ';' list of pat@lim=!|list *)
      let dl s = if s = "[]" then [] else List.map dec_str (String.split_on_char ',' s) in
      let tab = if btab = "[]" then [] else
        List.map (fun e ->
          match String.split_on_char '=' e with
          | [k; v] ->
            (match String.split_on_char '@' k with
             | [p; l] -> ((dec_str p, int_of_string l), (if v = "!" then None else Some (dl v)))
             | _ -> failwith "btab")
          | _ -> failwith "btab") (String.split_on_char ';' btab) in
      let brace p l =
        (try List.assoc (p, int_of_z l) tab with Not_found -> raise Exit) in
      let isb = dec_bool isb in
      let parse f p = wcparse linux f isb p in
      (try
        (match pattern_lists linux brace (fun _ p -> p)
                 (fun nrm raw p -> match norm_pattern (fun _ -> None) isb nrm raw p with Inl t -> Some t | Inr _ -> None)
                 parse (dec_bool tr) isb
                 (z_of_int (int_of_string fl)) (z_of_int (int_of_string lim)) (dl pats)
                 (if ex = "none" then None else Some (dl ex)) with
         | Inl (pos, neg) -> "ok " ^ enc_list enc_str pos ^ " " ^ enc_list enc_str neg
         | Inr LLimit -> "limit"
         | Inr LValue -> "valueerror"
         | Inr LSyntax -> "syntaxerror"
         | Inr LFuel -> "fuel"
         | Inr LUnsupported -> "unsupported")
      with Exit -> "oraclemiss")
  | ["den"; lb; ci; dot; ast; names] ->
      let ps = parse_pats ast in
      let ns = if names = "[]" then [] else List.map dec_str (String.split_on_char ',' names) in
      enc_str (unparse ps) ^ " " ^ String.concat "" (List.map (fun nm -> enc_bool (den (dec_bool lb) (dec_bool ci) (dec_bool dot) ps nm)) ns)
  | ["pden"; lb; ci; dot; gs; gl; mb; ast; names] ->
      let pp = parse_ppat ast in
      let ns = if names = "[]" then [] else List.map dec_str (String.split_on_char ',' names) in
      enc_str (punparse pp) ^ " " ^ String.concat "" (List.map (fun nm -> enc_bool (pden (dec_bool lb) (dec_bool ci) (dec_bool dot) (dec_bool gs) (dec_bool gl) (dec_bool mb) pp nm)) ns)
  | ["norm"; isb; nrm; raw; p; utab] ->
      (* utab: ';' list of name=hexcp *)
      let tab = if utab = "[]" then [] else
        List.map (fun e -> match String.split_on_char '=' e with
                           | [k; v] -> (dec_str k, n_of_int (int_of_string ("0x" ^ v)))
                           | _ -> failwith "utab") (String.split_on_char ';' utab) in
      let uname nm = (try Some (List.assoc nm tab) with Not_found -> None) in
      (match norm_pattern uname (dec_bool isb) (dec_bool nrm) (dec_bool raw) (dec_str p) with
       | Inl t -> "ok " ^ enc_str t
       | Inr NSyntax -> "syntaxerror"
       | Inr NLookup -> "keyerror")
  | ["gsplit"; fl; isb; p] ->
      (match gsplit (z_of_int (int_of_string fl)) (dec_bool isb) (dec_str p) with
       | Inr GValue -> "valueerror"
       | Inl parts ->
           "ok " ^ enc_list (fun g -> Printf.sprintf "%s:%s%s%s%s%s" (enc_str g.gp_text) (enc_bool g.gp_magic) (enc_bool g.gp_gstar)
                                        (enc_bool g.gp_gstarlong) (enc_bool g.gp_dironly) (enc_bool g.gp_drive)) parts)
  | ["realpath"; follow; root; filename; tbl; incl; excl] ->
      (* tbl: path=K;... (K in f d D F x = file, dir, link to dir, link to file, dangling link)
         incl/excl: pattern,pattern with pattern = res/res (answer on the name, on the name + `/`);
         res = N (no match) | e (no groups) | g+g+... with g = - | a:b *)
      let split c s = if s = "" || s = "[]" then [] else String.split_on_char c s in
      let kind_of = function "f" -> KFile | "d" -> KDir | "D" -> KLinkDir | "F" -> KLinkFile | "x" -> KDangling | _ -> failwith "kind" in
      let tb = List.map (fun e -> match String.split_on_char '=' e with [k; v] -> (dec_str k, kind_of v) | _ -> failwith "tbl") (split ';' tbl) in
      let zi s = z_of_int (int_of_string s) in
      let res s = if s = "N" then None else if s = "e" then Some [] else
          Some (List.map (fun g -> if g = "-" then None else
                  (match String.split_on_char ':' g with [a; b] -> Some (zi a, zi b) | _ -> failwith "grp")) (String.split_on_char '+' s)) in
      let pats s = List.map (fun e -> match String.split_on_char '/' e with [a; b] -> (res a, res b) | _ -> failwith "pat") (split ',' s) in
      enc_bool (run_realpath tb (dec_str filename) (pats incl) (pats excl) (dec_bool follow) (dec_str root))
  | ["windrive"; cs; p] ->
      (* root|regex text or -|plain text or -|slash|end *)
      let (((rs, d), sl), e) = get_win_drive (dec_str p) in
      let opt = function None -> "N" | Some t -> "S" ^ enc_str t in
      Printf.sprintf "%s|%s|%s|%s|%d" (enc_bool rs) (opt (drive_regex (dec_bool cs) d)) (opt (drive_plain d sl)) (enc_bool sl) (int_of_n e)
  | ["escape"; isb; p] -> enc_str (escape (dec_bool isb) (dec_str p))
  | ["ismagic"; isb; fl; p] -> enc_bool (is_magic (dec_bool isb) (z_of_int (int_of_string fl)) (dec_str p))
  | ["wcwalk"; follow; aborted; root; lst; lk; vfo; vfi; mk; sk] ->
      (* lst: dir=d1,d2|f1,f2 ; ... (ERR for None); lk: path:0/1; vfo/vfi: base|name:res:kill ; mk/sk: base|name:kill *)
      let split c s = if s = "" || s = "[]" then [] else String.split_on_char c s in
      let strs s = List.map dec_str (split ',' s) in
      let lstt = List.map (fun e -> match String.split_on_char '=' e with
          | [k; v] -> (dec_str k, if v = "ERR" then None else
                        (match String.split_on_char '|' v with [a; b] -> Some (strs a, strs b) | _ -> failwith "lst"))
          | _ -> failwith "lst") (split ';' lst) in
      let lkt = List.map (fun e -> match String.split_on_char ':' e with [k; v] -> (dec_str k, v = "1") | _ -> failwith "lk") (split ';' lk) in
      let key e = (match String.split_on_char '|' e with [b; n] -> (dec_str b, dec_str n) | _ -> failwith "key") in
      let tab3 s = List.map (fun e -> match String.split_on_char ':' e with [k; r; kl] -> (key k, (r, kl = "1")) | _ -> failwith "t3") (split ';' s) in
      let tab2 s = List.map (fun e -> match String.split_on_char ':' e with [k; kl] -> (key k, kl = "1") | _ -> failwith "t2") (split ';' s) in
      let vfot = tab3 vfo and vfit = tab3 vfi and mkt = tab2 mk and skt = tab2 sk in
      let find t k = (try List.assoc k t with Not_found -> raise Exit) in
      let findd t k dflt = (try List.assoc k t with Not_found -> dflt) in
      (try
        let r = imatch (fun p -> find lstt p) (fun p -> findd lkt p false) (dec_bool follow)
                  (fun b n -> let (r, k) = find vfot (b, n) in (r = "1", k))
                  (fun b n -> let (r, k) = find vfit (b, n) in ((if r = "V" then FValid else if r = "I" then FInvalid else FRaised), k))
                  (fun b n -> findd mkt (b, n) false) (fun b n -> findd skt (b, n) false)
                  (nat_of_int 100) (dec_str root) (dec_bool aborted) in
        Printf.sprintf "ok %s %d %d %s" (enc_list (fun (b, n) -> enc_str b ^ "|" ^ enc_str n) r.w_out) (int_of_nat r.w_skipped) (int_of_nat r.w_visited) (enc_bool r.w_abort)
      with Exit -> "oraclemiss")
  | ["listed"; cfgbits; sd; cur; donly; gf] ->
      let bit i = cfgbits.[i] = '1' in
      let cf = { g_dot = bit 0; g_follow = bit 1; g_cs = bit 2; g_mark = bit 3; g_nounique = bit 4; g_pathlib = bit 5; g_has_excl = bit 6 } in
      let split c s = if s = "" || s = "[]" then [] else String.split_on_char c s in
      let sdt = List.map (fun e ->
          match String.split_on_char '=' e with
          | [k; v] -> (dec_str k,
                       if v = "ERR" then None else
                       Some (List.map (fun x -> match String.split_on_char ':' x with
                                        | [n; dd; l] -> { e_name = dec_str n; e_dir = (if dd = "E" then None else Some (dd = "1")); e_link = (l = "1") }
                                        | _ -> failwith "ent") (split ',' v)))
          | _ -> failwith "sd") (split ';' sd) in
      (try enc_list enc_str (listed (fun dpath -> try List.assoc dpath sdt with Not_found -> raise Exit) cf (nat_of_int 60) (dec_str cur) (dec_bool donly) (dec_bool gf))
       with Exit -> "oraclemiss")
  | ["glob"; cfgbits; pats; sd; lx; sm; xm] ->
      let bit i = cfgbits.[i] = '1' in
      let cf = { g_dot = bit 0; g_follow = bit 1; g_cs = bit 2; g_mark = bit 3; g_nounique = bit 4; g_pathlib = bit 5; g_has_excl = bit 6 } in
      let split c s = if s = "" || s = "[]" then [] else String.split_on_char c s in
      let parse_part s =
        (match String.split_on_char ':' s with
         | [p; id; fl] -> { p_pat = dec_str p; p_id = n_of_int (int_of_string id); p_magic = (fl.[0] = '1'); p_gstar = (fl.[1] = '1');
                            p_gstarlong = (fl.[2] = '1'); p_dironly = (fl.[3] = '1'); p_drive = (fl.[4] = '1') }
         | _ -> failwith "part") in
      let patterns = List.map (fun p -> List.map parse_part (split ',' p)) (split ';' pats) in
      let sdt = List.map (fun e ->
          match String.split_on_char '=' e with
          | [k; v] -> (dec_str k,
                       if v = "ERR" then None else
                       Some (List.map (fun x -> match String.split_on_char ':' x with
                                        | [n; dd; l] -> { e_name = dec_str n; e_dir = (if dd = "E" then None else Some (dd = "1")); e_link = (l = "1") }
                                        | _ -> failwith "ent") (split ',' v)))
          | _ -> failwith "sd") (split ';' sd) in
      let kv2 s = List.map (fun e -> match String.split_on_char ':' e with [k; v] -> (dec_str k, v = "1") | _ -> failwith "kv") (split ';' s) in
      let lxt = kv2 lx and xmt = kv2 xm in
      let smt = List.map (fun e -> match String.split_on_char ':' e with [i; n; v] -> ((int_of_string i, dec_str n), v = "1") | _ -> failwith "sm") (split ';' sm) in
      let find t k = (try List.assoc k t with Not_found -> raise Exit) in
      (try
        (match glob_all (fun dpath -> find sdt dpath) (fun p -> find lxt p) (fun id n -> find smt (int_of_n id, n)) (fun n -> find xmt n)
                 cf (nat_of_int 200) patterns with
         | Some l -> "ok " ^ enc_list enc_str l
         | None -> "fuel")
      with Exit -> "oraclemiss")
  | _ -> "badrequest"

let () =
  try
    while true do
      let line = input_line stdin in
      print_string (handle line); print_newline ()
    done
  with End_of_file -> ()
